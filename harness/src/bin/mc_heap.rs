// mc_heap: exhaustive in-process exploration of real Heap operation sequences
// under a red-zone allocator (C33).
//
// usage: mc_heap explore <depth> <shard> <nshards> [tight]
//        mc_heap replay <level,level,..> <tight:0|1> <op;op;...>
//
// Every allocation of the process is surrounded by RZ canary bytes; after
// every heap operation the canaries of the heap's own block are verified and
// byte_len <= byte_cap is checked. Strings are read back and compared.

use std::alloc::{GlobalAlloc, Layout, System};
use std::panic::{catch_unwind, AssertUnwindSafe};
use std::sync::atomic::{AtomicU64, Ordering};

use scryer_prolog::verif::{self, VerifHeap};

const RZ: usize = 256;
const FRONT: u8 = 0xA5;
const BACK: u8 = 0x5A;

static SMASHED: AtomicU64 = AtomicU64::new(0);

struct RedZone;

unsafe fn check_zone(p: *const u8, n: usize, v: u8) -> bool {
    for i in 0..n {
        if *p.add(i) != v {
            return false;
        }
    }
    true
}

unsafe impl GlobalAlloc for RedZone {
    unsafe fn alloc(&self, l: Layout) -> *mut u8 {
        if l.align() > RZ {
            return System.alloc(l);
        }
        let total = l.size() + 2 * RZ;
        let base = System.alloc(Layout::from_size_align_unchecked(total, l.align().max(16)));
        if base.is_null() {
            return base;
        }
        std::ptr::write_bytes(base, FRONT, RZ);
        std::ptr::write_bytes(base.add(RZ + l.size()), BACK, RZ);
        base.add(RZ)
    }
    unsafe fn dealloc(&self, p: *mut u8, l: Layout) {
        if l.align() > RZ {
            return System.dealloc(p, l);
        }
        let base = p.sub(RZ);
        if !check_zone(base, RZ, FRONT) || !check_zone(p.add(l.size()), RZ, BACK) {
            SMASHED.fetch_add(1, Ordering::SeqCst);
        }
        System.dealloc(base, Layout::from_size_align_unchecked(l.size() + 2 * RZ, l.align().max(16)));
    }
    unsafe fn realloc(&self, p: *mut u8, l: Layout, new_size: usize) -> *mut u8 {
        let nl = Layout::from_size_align_unchecked(new_size, l.align());
        let np = self.alloc(nl);
        if !np.is_null() {
            std::ptr::copy_nonoverlapping(p, np, l.size().min(new_size));
            self.dealloc(p, l);
        }
        np
    }
}

#[global_allocator]
static A: RedZone = RedZone;

fn block_ok(h: &VerifHeap) -> Result<(), String> {
    let (ptr, len, cap) = h.block();
    if len > cap {
        return Err(format!("byte_len {} > byte_cap {}", len, cap));
    }
    unsafe {
        if !check_zone(ptr.sub(RZ), RZ, FRONT) {
            return Err("front red zone overwritten".into());
        }
        if !check_zone(ptr.add(cap), RZ, BACK) {
            return Err("write past capacity (back red zone overwritten)".into());
        }
    }
    if SMASHED.load(Ordering::SeqCst) != 0 {
        return Err("a freed block had an overwritten red zone".into());
    }
    Ok(())
}

#[derive(Clone, Debug)]
enum Op {
    Push,
    PStr(String),
    CStr(String),
    CopyPStr,        // copy the most recently allocated non-empty string
    CopySlice(usize, usize),
    Append(usize),
    Reserve(usize),
    Truncate(usize), // truncate to len - n
    List(usize),     // sized_iter_to_heap_list over n fixnums
}

fn op_text(o: &Op) -> String {
    match o {
        Op::Push => "push".into(),
        Op::PStr(s) => format!("pstr:{}", hex(s.as_bytes())),
        Op::CStr(s) => format!("cstr:{}", hex(s.as_bytes())),
        Op::CopyPStr => "copypstr".into(),
        Op::CopySlice(a, b) => format!("copyslice:{}:{}", a, b),
        Op::Append(n) => format!("append:{}", n),
        Op::Reserve(n) => format!("reserve:{}", n),
        Op::Truncate(n) => format!("truncate:{}", n),
        Op::List(n) => format!("list:{}", n),
    }
}

fn hex(b: &[u8]) -> String {
    b.iter().map(|x| format!("{:02x}", x)).collect()
}

fn unhex(s: &str) -> Vec<u8> {
    (0..s.len() / 2).map(|i| u8::from_str_radix(&s[2 * i..2 * i + 2], 16).unwrap()).collect()
}

fn parse_op(t: &str) -> Op {
    let parts: Vec<&str> = t.split(':').collect();
    match parts[0] {
        "push" => Op::Push,
        "pstr" => Op::PStr(String::from_utf8(unhex(parts.get(1).unwrap_or(&""))).unwrap()),
        "cstr" => Op::CStr(String::from_utf8(unhex(parts.get(1).unwrap_or(&""))).unwrap()),
        "copypstr" => Op::CopyPStr,
        "copyslice" => Op::CopySlice(parts[1].parse().unwrap(), parts[2].parse().unwrap()),
        "append" => Op::Append(parts[1].parse().unwrap()),
        "reserve" => Op::Reserve(parts[1].parse().unwrap()),
        "truncate" => Op::Truncate(parts[1].parse().unwrap()),
        "list" => Op::List(parts[1].parse().unwrap()),
        _ => panic!("bad op {t}"),
    }
}

fn alphabet() -> Vec<Op> {
    let mut v = vec![Op::Push, Op::CopyPStr];
    for n in 0..=24usize {
        v.push(Op::PStr("a".repeat(n)));
    }
    for n in [0usize, 1, 6, 7, 8, 9, 15, 16, 23] {
        v.push(Op::CStr("a".repeat(n)));
    }
    // multi-byte and embedded NUL
    v.push(Op::PStr("aaaaa\u{e9}".into())); // 7 bytes
    v.push(Op::PStr("aaaaaa\u{e9}".into())); // 8 bytes
    v.push(Op::PStr("aaa\u{20ac}".into())); // 6 bytes
    v.push(Op::PStr("aaaa\u{1F600}".into())); // 8 bytes
    v.push(Op::PStr("ab\0cd".into()));
    v.push(Op::CStr("abcdef\0".into()));
    v.push(Op::CopySlice(0, 1));
    v.push(Op::CopySlice(0, 2));
    v.push(Op::CopySlice(1, 3));
    for n in 0..=3 {
        v.push(Op::Append(n));
    }
    for n in 0..=3 {
        v.push(Op::Reserve(n));
    }
    v.push(Op::Truncate(1));
    v.push(Op::Truncate(2));
    for n in 0..=3 {
        v.push(Op::List(n));
    }
    v
}

// executes ops; returns Err(description) on the first violated invariant
// makes the free space of the heap exactly `cells` cells (a heap keeps at
// least one cell of capacity, so an empty heap has at least one free cell)
fn set_free(h: &mut VerifHeap, cells: usize) -> Result<(), String> {
    verif::set_tight_growth(true);
    h.trim();
    let n = h.cell_len();
    loop {
        let (len, cap) = h.extent();
        if cap / 8 >= n + cells {
            break;
        }
        // use up the free cells, then force a one-cell growth
        let free = (cap - len) / 8;
        for _ in 0..=free {
            if !h.push_fixnum(0) {
                return Err("harness: push failed while setting free space".into());
            }
        }
    }
    h.truncate(n);
    verif::set_tight_growth(false);
    let (len, cap) = h.extent();
    if (cap - len) / 8 != cells.max(if n == 0 { 1 } else { 0 }) {
        return Err(format!("harness: free space {} cells instead of {}", (cap - len) / 8, cells));
    }
    Ok(())
}

fn execute(levels: &[usize], tight: bool, ops: &[Op]) -> Result<(u64, bool), String> {
    verif::set_tight_growth(false);
    let mut h = VerifHeap::with_cell_capacity(1).ok_or("alloc")?;
    block_ok(&h)?;
    let mut last_str: Option<(usize, String)> = None;
    let mut nontrivial = false;
    let mut outcome: u64 = 0;
    for (op, level) in ops.iter().zip(levels) {
        set_free(&mut h, *level)?;
        block_ok(&h)?;
        verif::set_tight_growth(tight);
        let (len0, cap0) = h.extent();
        let free0 = cap0 - len0;
        let r: Result<(), String> = (|| {
            match op {
                Op::Push => {
                    if !h.push_fixnum(7) {
                        return Err("push_cell failed".into());
                    }
                }
                Op::PStr(s) | Op::CStr(s) => {
                    let is_c = matches!(op, Op::CStr(_));
                    let loc = if is_c { h.allocate_cstr(s) } else { h.allocate_pstr(s) };
                    let loc = loc.ok_or("string allocation failed")?;
                    let want: String = s.split('\0').next().unwrap().to_string();
                    if !want.is_empty() {
                        let got = h.string_at(loc);
                        if got != want {
                            return Err(format!("string read back {:?} != {:?}", got, want));
                        }
                        last_str = Some((loc, want));
                    }
                }
                Op::CopyPStr => {
                    if let Some((loc, want)) = last_str.clone() {
                        if loc < h.cell_len() {
                            let at = h.cell_len();
                            h.copy_pstr_within(loc).ok_or("copy_pstr_within failed")?;
                            let got = h.string_at(at);
                            if got != want {
                                return Err(format!("copied string {:?} != {:?}", got, want));
                            }
                        }
                    }
                }
                Op::CopySlice(a, b) => {
                    let n = h.cell_len();
                    if *b <= n && a < b {
                        let before = h.words();
                        if !h.copy_slice_to_end(*a, *b) {
                            return Err("copy_slice_to_end failed".into());
                        }
                        let after = h.words();
                        if after.len() != n + (b - a) || after[n..] != before[*a..*b] || after[..n] != before[..] {
                            return Err("copy_slice_to_end produced wrong cells".into());
                        }
                    }
                }
                Op::Append(k) => {
                    let mut other = VerifHeap::with_cell_capacity((*k).max(1)).ok_or("alloc")?;
                    for i in 0..*k {
                        other.push_fixnum(100 + i as i32);
                    }
                    let n = h.cell_len();
                    let before = h.words();
                    if !h.append(&other) {
                        return Err("append failed".into());
                    }
                    let after = h.words();
                    if after.len() != n + k || after[..n] != before[..] || after[n..] != other.words()[..] {
                        return Err("append produced wrong cells".into());
                    }
                }
                Op::Reserve(k) => {
                    let n = h.cell_len();
                    if !h.reserve_and_fill(*k) {
                        return Err("reserve failed".into());
                    }
                    if h.cell_len() != n + k {
                        return Err(format!("reserve+fill length {} != {}", h.cell_len(), n + k));
                    }
                }
                Op::List(k) => {
                    let n = h.cell_len();
                    if !h.list_from_fixnums(*k) {
                        return Err("sized_iter_to_heap_list failed".into());
                    }
                    let want = if *k == 0 { 0 } else { 2 * k + 1 };
                    if h.cell_len() != n + want {
                        return Err(format!("list of {} elements took {} cells instead of {}", k, h.cell_len() - n, want));
                    }
                }
                Op::Truncate(k) => {
                    let n = h.cell_len();
                    if n >= *k {
                        h.truncate(n - k);
                        if let Some((loc, _)) = &last_str {
                            if *loc >= n - k {
                                last_str = None;
                            }
                        }
                        // a string partially cut off is no longer a string
                        last_str = None;
                    }
                }
            }
            Ok(())
        })();
        r?;
        block_ok(&h)?;
        let (len1, _cap1) = h.extent();
        if std::env::var("MC_HEAP_TRACE").is_ok() {
            eprintln!("{} : len {} -> {} cap {} -> {}", op_text(op), len0, len1, cap0, _cap1);
        }
        if len1 > len0 && len1 - len0 >= free0 {
            nontrivial = true; // growth or exact fit
        }
        outcome = outcome.wrapping_mul(1099511628211).wrapping_add(len1 as u64);
    }
    verif::set_tight_growth(false);
    Ok((outcome, nontrivial))
}

fn main() {
    std::panic::set_hook(Box::new(|_| {}));
    let args: Vec<String> = std::env::args().collect();
    if args.len() >= 5 && args[1] == "replay" {
        let levels: Vec<usize> = args[2].split(',').filter(|s| !s.is_empty()).map(|x| x.parse().unwrap()).collect();
        let tight = args[3] == "1";
        let ops: Vec<Op> = args[4].split(';').filter(|s| !s.is_empty()).map(parse_op).collect();
        let r = catch_unwind(AssertUnwindSafe(|| execute(&levels, tight, &ops)));
        verif::set_tight_growth(false);
        match r {
            Ok(Ok(_)) => println!("{{\"violation\":null}}"),
            Ok(Err(e)) => println!("{{\"violation\":{:?}}}", e),
            Err(_) => println!("{{\"violation\":\"panic\"}}"),
        }
        return;
    }
    if args.len() < 5 || args[1] != "explore" {
        eprintln!("usage: mc_heap explore <depth> <shard> <nshards> [tight]");
        std::process::exit(2);
    }
    let depth: usize = args[2].parse().unwrap();
    let shard: usize = args[3].parse().unwrap();
    let nshards: usize = args[4].parse().unwrap();
    let tight = args.get(5).map(|s| s == "tight").unwrap_or(false);
    let alpha = alphabet();
    let na = alpha.len();
    let mut executions = 0u64;
    let mut nontrivial = 0u64;
    let mut nviol = 0u64;
    let mut outcomes = std::collections::HashSet::new();
    let mut sigs: std::collections::HashMap<String, u64> = Default::default();
    let mut viols: Vec<String> = Vec::new();
    let levels_alpha: Vec<usize> = if depth >= 3 { vec![0, 1, 2, 8] } else { (0..=8).collect() };
    let nl = levels_alpha.len();
    let per = na * nl;
    let total = per.pow(depth as u32);
    for code in 0..total {
        if code % nshards != shard {
            continue;
        }
        let mut ops = Vec::with_capacity(depth);
        let mut levels = Vec::with_capacity(depth);
        let mut c = code;
        for _ in 0..depth {
            let x = c % per;
            c /= per;
            ops.push(alpha[x % na].clone());
            levels.push(levels_alpha[x / na]);
        }
        executions += 1;
        SMASHED.store(0, Ordering::SeqCst);
        let r = catch_unwind(AssertUnwindSafe(|| execute(&levels, tight, &ops)));
        verif::set_tight_growth(false);
        let err = match r {
            Ok(Ok((o, nt))) => {
                outcomes.insert(o);
                if nt {
                    nontrivial += 1;
                }
                continue;
            }
            Ok(Err(e)) => e,
            Err(p) => {
                let m = if let Some(s) = p.downcast_ref::<&str>() { s.to_string() }
                        else if let Some(s) = p.downcast_ref::<String>() { s.clone() } else { "?".into() };
                format!("panic: {}", m)
            }
        };
        nviol += 1;
        // signature: the failing invariant + the kind of the last operation executed
        let mut sig: String = err.chars().map(|ch| if ch.is_ascii_digit() { 'N' } else { ch }).collect();
        while sig.contains("NN") { sig = sig.replace("NN", "N"); }
        let n = sigs.entry(sig.clone()).or_insert(0);
        *n += 1;
        if *n <= 2 && viols.len() < 30 {
            let optxt: Vec<String> = ops.iter().map(op_text).collect();
            let lv: Vec<String> = levels.iter().map(|l| l.to_string()).collect();
            viols.push(format!("{{\"sig\":{:?},\"levels\":{:?},\"tight\":{},\"ops\":{:?},\"observed\":{:?}}}",
                               sig, lv.join(","), tight, optxt.join(";"), err));
        }
    }
    let sg: Vec<String> = sigs.iter().map(|(k, v)| format!("{:?}:{}", k, v)).collect();
    println!("{{\"executions\":{},\"nontrivial\":{},\"distinct_outcomes\":{},\"nviol\":{},\"alphabet\":{},\"sigs\":{{{}}},\"violations\":[{}]}}",
             executions, nontrivial, outcomes.len(), nviol, na, sg.join(","), viols.join(","));
}
