// mc_atoms: controlled-scheduler exploration of concurrent atom interning (C32).
//
// usage: mc_atoms explore <harness> <preemption_bound>
//        mc_atoms replay <harness> <c0,c1,c2,...>
//
// Real OS threads run the real AtomTable::build_with under a baton: exactly one
// thread runs at a time and control changes hands only at the scheduling
// points of hook H8 (scryer_prolog::verif::sched). The explorer enumerates all
// schedules up to a preemption bound by depth-first search over choice lists.

use std::sync::mpsc::{channel, Receiver, Sender};
use std::thread;

use scryer_prolog::verif::{self, sched, VAtom, VAtomTable};

#[derive(Clone, Debug)]
enum Job {
    Intern(Vec<String>),
    // reads the text of `atom` n times, expecting `text`
    Read(VAtom, String, usize),
    Quit,
}

#[derive(Debug)]
struct Done {
    id: usize,
    interned: Vec<(String, u64, String)>, // text, atom index, text read back
    read_errors: Vec<String>,
}

struct Pool {
    tx: Vec<Sender<(Job, VAtomTable)>>,
    rx: Receiver<Done>,
}

fn spawn_pool(n: usize) -> Pool {
    let (dtx, drx) = channel::<Done>();
    let mut tx = Vec::new();
    for id in 0..n {
        let (jtx, jrx) = channel::<(Job, VAtomTable)>();
        let dtx = dtx.clone();
        tx.push(jtx);
        thread::spawn(move || {
            while let Ok((job, table)) = jrx.recv() {
                let mut done = Done { id, interned: vec![], read_errors: vec![] };
                match job {
                    Job::Quit => break,
                    Job::Intern(texts) => {
                        sched::register(id);
                        for t in texts {
                            let a = table.intern(&t);
                            // reading the text back goes through as_ptr (a scheduling point)
                            let back = a.text();
                            done.interned.push((t, a.index(), back));
                        }
                        sched::finish();
                    }
                    Job::Read(atom, text, times) => {
                        sched::set_reader(true);
                        sched::register(id);
                        for _ in 0..times {
                            let got = atom.text();
                            if got != text {
                                done.read_errors.push(format!("read {:?} expected {:?}", got, text));
                            }
                        }
                        sched::set_reader(false);
                        sched::finish();
                    }
                }
                drop(table);
                let _ = dtx.send(done);
            }
        });
    }
    Pool { tx, rx: drx }
}

struct Harness {
    name: &'static str,
    // per thread: texts to intern; a thread with role reader is marked by "@read"
    threads: Vec<Vec<&'static str>>,
    // texts interned sequentially before the threads start
    pre: Vec<&'static str>,
}

const S: &str = "shared_text";
const D1: &str = "disjoint_1";
const D2: &str = "disjoint_2";
const L: &str = "a_forty_byte_long_text_that_forces_growth";
const L2: &str = "another_long_text_forcing_the_table_to_grow";
const P: &str = "append";
const I: &str = "abc";

fn harnesses() -> Vec<Harness> {
    vec![
        Harness { name: "A_SS", threads: vec![vec![S], vec![S]], pre: vec![] },
        Harness { name: "A_SD", threads: vec![vec![S], vec![D1]], pre: vec![] },
        Harness { name: "A_SL", threads: vec![vec![S], vec![L]], pre: vec![] },
        Harness { name: "A_LL", threads: vec![vec![L], vec![L]], pre: vec![] },
        Harness { name: "A_LL2", threads: vec![vec![L], vec![L2]], pre: vec![] },
        Harness { name: "A_DD", threads: vec![vec![D1], vec![D2]], pre: vec![] },
        Harness { name: "A_PI", threads: vec![vec![P, S], vec![I, S]], pre: vec![] },
        Harness { name: "B_SD_DS", threads: vec![vec![S, D1], vec![D2, S]], pre: vec![] },
        Harness { name: "B_LS_SL", threads: vec![vec![L, S], vec![S, L]], pre: vec![] },
        Harness { name: "B_SS_SS", threads: vec![vec![S, D1], vec![S, D1]], pre: vec![] },
        Harness { name: "C_SSS", threads: vec![vec![S], vec![S], vec![S]], pre: vec![] },
        Harness { name: "C_SLD", threads: vec![vec![S], vec![L], vec![D1, S]], pre: vec![] },
        Harness { name: "D_read", threads: vec![vec![L], vec![L2], vec!["@read"]], pre: vec![S] },
    ]
}

#[derive(Debug, Clone)]
struct Point {
    enabled: Vec<usize>,     // canonical order
    running_enabled: bool,   // the previously running thread is still enabled (it is first)
}

struct Exec {
    choices: Vec<usize>,
    points: Vec<Point>,
    trace: Vec<(usize, u32)>,
    error: Option<String>,
    retries: usize,
    grew: bool,
    preempted_in_window: bool,
    final_sig: String,
}

fn run(h: &Harness, pool: &Pool, prefix: &[usize]) -> Exec {
    verif::set_atom_table_init_size(64);
    let table = VAtomTable::new();
    let mut pre_atoms = Vec::new();
    for t in &h.pre {
        pre_atoms.push(table.intern(t));
    }
    let n = h.threads.len();
    sched::begin(n);
    for (id, texts) in h.threads.iter().enumerate() {
        let job = if texts.len() == 1 && texts[0] == "@read" {
            Job::Read(pre_atoms[0], h.pre[0].to_string(), 3)
        } else {
            Job::Intern(texts.iter().map(|s| s.to_string()).collect())
        };
        pool.tx[id].send((job, table.clone())).unwrap();
    }
    let mut choices = Vec::new();
    let mut points = Vec::new();
    let mut error = None;
    let mut last: Option<usize> = None;
    let mut steps = 0usize;
    loop {
        let st = sched::wait_quiescent();
        if st.iter().all(|(f, _)| *f) {
            break;
        }
        let owner = sched::lock_owner();
        let mut enabled: Vec<usize> = st
            .iter()
            .enumerate()
            .filter(|(_, (f, p))| !*f && p.map(|p| !p.needs_lock || owner.is_none()).unwrap_or(false))
            .map(|(i, _)| i)
            .collect();
        if enabled.is_empty() {
            error = Some(format!("deadlock: no enabled thread, lock owner {:?}", owner));
            break;
        }
        let running_enabled = last.map(|l| enabled.contains(&l)).unwrap_or(false);
        if running_enabled {
            let l = last.unwrap();
            enabled.retain(|x| *x != l);
            enabled.insert(0, l);
        }
        let k = points.len();
        let c = if k < prefix.len() { prefix[k] } else { 0 };
        if c >= enabled.len() {
            error = Some(format!("harness: schedule prefix diverged at step {} (choice {} of {})", k, c, enabled.len()));
            // drain: run the remaining threads to completion with default choices
            points.push(Point { enabled: enabled.clone(), running_enabled });
            choices.push(0);
            sched::step(enabled[0]);
            last = Some(enabled[0]);
            continue;
        }
        points.push(Point { enabled: enabled.clone(), running_enabled });
        choices.push(c);
        sched::step(enabled[c]);
        last = Some(enabled[c]);
        steps += 1;
        if steps > 2000 {
            // cannot recover the threads: abort the explorer
            println!("{{\"fatal\":\"livelock\"}}");
            std::process::exit(3);
        }
    }
    let trace = sched::end();
    let mut results: Vec<Done> = Vec::new();
    if error.as_deref().map(|e| e.starts_with("deadlock")).unwrap_or(false) {
        println!("{{\"fatal\":\"deadlock\",\"choices\":{:?}}}", choices);
        std::process::exit(3);
    }
    for _ in 0..n {
        results.push(pool.rx.recv().unwrap());
    }
    results.sort_by_key(|d| d.id);

    // ---- oracle
    let mut errs: Vec<String> = Vec::new();
    let mut by_text: std::collections::BTreeMap<String, Vec<u64>> = Default::default();
    for d in &results {
        for (t, idx, back) in &d.interned {
            by_text.entry(t.clone()).or_default().push(*idx);
            if back != t {
                errs.push(format!("text not preserved: interned {:?} reads back {:?}", t, back));
            }
        }
        for e in &d.read_errors {
            errs.push(format!("reader: {}", e));
        }
    }
    for (t, idxs) in &by_text {
        if idxs.iter().any(|i| *i != idxs[0]) {
            errs.push(format!("two atoms for one text {:?}", t));
        }
        // a later sequential intern must return the same atom
        let again = table.intern(t);
        if again.index() != idxs[0] {
            errs.push(format!("re-intern of {:?} gives a different atom (lost table entry)", t));
        }
        if again.text() != *t {
            errs.push(format!("text not preserved after the run for {:?}", t));
        }
        let dynamic = !(t.len() <= 6 && !t.is_empty()) && *t != "append";
        if dynamic {
            let c = table.count_text(t);
            if c != 1 {
                errs.push(format!("{} table entries for text {:?}", c, t));
            }
        }
    }
    for (a, t) in pre_atoms.iter().zip(&h.pre) {
        if a.text() != *t {
            errs.push(format!("pre-existing atom lost its text {:?}", t));
        }
    }
    if error.is_none() && !errs.is_empty() {
        errs.sort();
        errs.dedup();
        error = Some(errs.join("; "));
    }

    // ---- statistics from the trace
    let mut starts = vec![0usize; n];
    let mut grew = false;
    for (id, p) in &trace {
        if *p == sched::point::READ_BLOCK {
            starts[*id] += 1;
        }
        if *p == sched::point::GROW {
            grew = true;
        }
    }
    let mut retries = 0;
    for (id, texts) in h.threads.iter().enumerate() {
        if texts.len() == 1 && texts[0] == "@read" {
            continue;
        }
        let slow: usize = texts.iter().filter(|t| !(t.len() <= 6) && **t != "append").count();
        if starts[id] > slow {
            retries += starts[id] - slow;
        }
    }
    // preempted between lookup and lock: another thread ran between a thread's LOOKUP and LOCK steps
    let mut preempted_in_window = false;
    for i in 0..trace.len() {
        if trace[i].1 == sched::point::LOOKUP {
            let id = trace[i].0;
            for j in i + 1..trace.len() {
                if trace[j].0 == id {
                    break;
                }
                preempted_in_window = true;
            }
        }
    }
    let final_sig = format!("{:?}/{}", by_text.iter().map(|(t, v)| (t.len(), v[0])).collect::<Vec<_>>(), table.dynamic_len());
    drop(pre_atoms);
    drop(table);
    Exec { choices, points, trace, error, retries, grew, preempted_in_window, final_sig }
}

struct Stats {
    schedules: u64,
    nontrivial: u64,
    retries: u64,
    grew: u64,
    finals: std::collections::HashSet<String>,
    viols: Vec<String>,
    nviol: u64,
    sigs: std::collections::HashMap<String, u64>,
    max_steps: usize,
}

fn sanitize(e: &str) -> String {
    // keep the kind of failure, drop texts
    let mut kinds: Vec<&str> = Vec::new();
    for k in ["two atoms for one text", "lost table entry", "text not preserved", "table entries for text",
              "reader:", "pre-existing atom lost", "deadlock", "livelock", "harness:"] {
        if e.contains(k) {
            kinds.push(k);
        }
    }
    if kinds.is_empty() { e.chars().take(80).collect() } else { kinds.join(" + ") }
}

fn explore(h: &Harness, pool: &Pool, prefix: Vec<usize>, bound: usize, st: &mut Stats, budget: &mut u64) {
    if *budget == 0 {
        return;
    }
    *budget -= 1;
    let x = run(h, pool, &prefix);
    st.schedules += 1;
    st.max_steps = st.max_steps.max(x.choices.len());
    if x.preempted_in_window || x.grew {
        st.nontrivial += 1;
    }
    if x.retries > 0 {
        st.retries += 1;
    }
    if x.grew {
        st.grew += 1;
    }
    st.finals.insert(x.final_sig.clone());
    if let Some(e) = &x.error {
        st.nviol += 1;
        let sig = sanitize(e);
        let n = st.sigs.entry(sig.clone()).or_insert(0);
        *n += 1;
        if *n <= 2 && st.viols.len() < 20 {
            let tr: Vec<String> = x.trace.iter().map(|(t, p)| format!("{}:{}", t, p)).collect();
            st.viols.push(format!("{{\"sig\":{:?},\"harness\":{:?},\"choices\":{:?},\"observed\":{:?},\"trace\":{:?}}}",
                                  sig, h.name, x.choices.iter().map(|c| c.to_string()).collect::<Vec<_>>().join(","), e, tr.join(" ")));
        }
    }
    // preemptions used before each point
    let mut used = 0usize;
    let mut used_before = Vec::with_capacity(x.points.len());
    for (i, p) in x.points.iter().enumerate() {
        used_before.push(used);
        if x.choices[i] != 0 && p.running_enabled {
            used += 1;
        }
    }
    for i in prefix.len()..x.points.len() {
        let p = &x.points[i];
        for alt in 1..p.enabled.len() {
            let cost = used_before[i] + if p.running_enabled { 1 } else { 0 };
            if cost > bound {
                continue;
            }
            let mut np = x.choices[..i].to_vec();
            np.push(alt);
            explore(h, pool, np, bound, st, budget);
        }
    }
}

fn main() {
    let args: Vec<String> = std::env::args().collect();
    if args.len() < 4 {
        eprintln!("usage: mc_atoms explore <harness> <bound> [max_schedules] | replay <harness> <choices>");
        std::process::exit(2);
    }
    let hs = harnesses();
    let h = hs.iter().find(|h| h.name == args[2]).unwrap_or_else(|| {
        eprintln!("unknown harness; known: {:?}", hs.iter().map(|h| h.name).collect::<Vec<_>>());
        std::process::exit(2);
    });
    let pool = spawn_pool(3);
    if args[1] == "replay" {
        let prefix: Vec<usize> = args[3].split(',').filter(|s| !s.is_empty()).map(|s| s.parse().unwrap()).collect();
        let x1 = run(h, &pool, &prefix);
        let x2 = run(h, &pool, &prefix);
        let same = x1.trace == x2.trace && x1.error == x2.error;
        let js = |o: Option<String>| o.map(|s| format!("{:?}", s)).unwrap_or_else(|| "null".to_string());
        println!("{{\"deterministic\":{},\"error\":{},\"sig\":{},\"steps\":{}}}", same,
                 js(x1.error.clone()), js(x1.error.as_deref().map(sanitize)), x1.choices.len());
        return;
    }
    let bound: usize = args[3].parse().unwrap();
    let mut budget: u64 = args.get(4).map(|s| s.parse().unwrap()).unwrap_or(u64::MAX);
    let mut st = Stats {
        schedules: 0, nontrivial: 0, retries: 0, grew: 0, finals: Default::default(),
        viols: vec![], nviol: 0, sigs: Default::default(), max_steps: 0,
    };
    explore(h, &pool, vec![], bound, &mut st, &mut budget);
    let sg: Vec<String> = st.sigs.iter().map(|(k, v)| format!("{:?}:{}", k, v)).collect();
    println!("{{\"harness\":{:?},\"bound\":{},\"schedules\":{},\"nontrivial\":{},\"retry_path\":{},\"growth_path\":{},\"distinct_finals\":{},\"max_steps\":{},\"complete\":{},\"nviol\":{},\"sigs\":{{{}}},\"violations\":[{}]}}",
             h.name, bound, st.schedules, st.nontrivial, st.retries, st.grew, st.finals.len(), st.max_steps,
             budget > 0, st.nviol, sg.join(","), st.viols.join(","));
}
