// pworker: hosts one scryer-prolog Machine and serves JSON-line requests on
// stdin/stdout. See DESIGN.md §2.2.
//
// Requests (one JSON object per line):
//   {"op":"q","cases":[text,...]}            run vx("<text>") for each case (driver.pl)
//   {"op":"raw","queries":[text,...]}        run_query(text) verbatim, drain, report answers
//   {"op":"consult","text":..,"module":"user","mode":"consult"|"load"}
//   {"op":"api","ops":[...]}                 embedding-API histories (C28/C35)
//   {"op":"put_file","path":..,"b64":..}
//   {"op":"arm","kind":"interrupt"|"heap","n":N,"sticky":bool,"tight":bool,"trim":bool}
//   {"op":"new_machine"}                     rebuild the machine (driver re-consulted)
//   {"op":"quit"}
// Every response is one JSON line.

#[path = "../redzone.rs"]
mod redzone;

#[global_allocator]
static ALLOC: redzone::RedZone = redzone::RedZone;

use std::cell::RefCell;
use std::io::{BufRead, Read, Write};
use std::panic::{catch_unwind, AssertUnwindSafe};
use std::rc::Rc;

use base64::Engine;
use scryer_prolog::verif;
use scryer_prolog::{LeafAnswer, Machine, MachineBuilder, StreamConfig, Term};
use serde_json::{json, Value};

#[derive(Default)]
struct ArmState {
    kind: Option<String>, // "interrupt" | "heap"
    n: u64,
    sticky: bool,
    tight: bool,
    armed_now: bool,
    // observations
    w0: Option<u64>,
    w1: Option<u64>,
    total: Option<u64>,
    failed: Option<u64>,
    saw_arm: bool,
}

struct Shared {
    out: RefCell<Vec<u8>>,
    err: RefCell<Vec<u8>>,
    arm: RefCell<ArmState>,
}

const M_ARM: &[u8] = b"\x1dARM\x1d";
const M_DISARM: &[u8] = b"\x1dDISARM\x1d";
const M_W0: &[u8] = b"\x1dW0\x1d";
const M_W1: &[u8] = b"\x1dW1\x1d";

fn find(hay: &[u8], needle: &[u8]) -> bool {
    hay.windows(needle.len()).any(|w| w == needle)
}

fn counter_now(a: &ArmState) -> u64 {
    match a.kind.as_deref() {
        Some("interrupt") => verif::instr_count(),
        Some("heap") => verif::grow_count(),
        _ => 0,
    }
}

fn do_disarm(a: &mut ArmState) {
    if a.armed_now {
        match a.kind.as_deref() {
            Some("interrupt") => {
                a.total = Some(verif::disarm_interrupt());
            }
            Some("heap") => {
                let (t, f) = verif::disarm_heap_fault();
                a.total = Some(t);
                a.failed = Some(f);
                verif::set_tight_growth(false);
            }
            _ => {}
        }
        a.armed_now = false;
    }
}

fn on_stdout(shared: &Shared, chunk: &[u8]) {
    let mut a = shared.arm.borrow_mut();
    if std::env::var("PW_DEBUG").is_ok() {
        eprintln!("on_stdout kind={:?} chunk={:?}", a.kind, String::from_utf8_lossy(chunk));
    }
    if a.kind.is_some() {
        // order matters: a chunk normally carries a single marker because the
        // driver flushes right after printing each one.
        if find(chunk, M_DISARM) {
            do_disarm(&mut a);
        }
        if find(chunk, M_W1) && a.armed_now {
            a.w1 = Some(counter_now(&a));
        }
        if find(chunk, M_ARM) && !a.armed_now && !a.saw_arm {
            a.saw_arm = true;
            a.armed_now = true;
            match a.kind.as_deref() {
                Some("interrupt") => verif::arm_interrupt_at(a.n),
                Some("heap") => {
                    verif::set_tight_growth(a.tight);
                    verif::arm_heap_fault(a.n, a.sticky);
                }
                _ => {}
            }
        }
        if find(chunk, M_W0) && a.armed_now {
            a.w0 = Some(counter_now(&a));
        }
    }
    drop(a);
    shared.out.borrow_mut().extend_from_slice(chunk);
}

fn build_machine(shared: &Rc<Shared>, driver: &str) -> Machine {
    let s1 = shared.clone();
    let s2 = shared.clone();
    let (_input, streams) = StreamConfig::from_callbacks(
        Some(Box::new(move |c| {
            let mut v = Vec::new();
            let _ = c.read_to_end(&mut v);
            on_stdout(&s1, &v);
        })),
        Some(Box::new(move |c| {
            let mut v = Vec::new();
            let _ = c.read_to_end(&mut v);
            s2.err.borrow_mut().extend_from_slice(&v);
        })),
    );
    // keep the input sender alive for the life of the process (an empty, open channel)
    std::mem::forget(_input);
    let mut m = MachineBuilder::default().with_streams(streams).build();
    if !driver.is_empty() {
        m.consult_module_string("user", driver.to_string());
    }
    m
}

fn quote_for_prolog(s: &str) -> String {
    // a double-quoted Prolog string literal denoting exactly the chars of `s`
    let mut o = String::with_capacity(s.len() + 2);
    o.push('"');
    for ch in s.chars() {
        match ch {
            '\\' => o.push_str("\\\\"),
            '"' => o.push_str("\\\""),
            '\n' => o.push_str("\\n"),
            '\t' => o.push_str("\\t"),
            c if (c as u32) < 0x20 || ((c as u32) >= 0x7f && (c as u32) < 0xa0) => {
                o.push_str(&format!("\\x{:x}\\", c as u32));
            }
            c => o.push(c),
        }
    }
    o.push('"');
    o
}

fn take_out(shared: &Shared) -> (String, String) {
    let o = std::mem::take(&mut *shared.out.borrow_mut());
    let e = std::mem::take(&mut *shared.err.borrow_mut());
    (
        String::from_utf8_lossy(&o).into_owned(),
        String::from_utf8_lossy(&e).into_owned(),
    )
}

fn panic_msg(p: Box<dyn std::any::Any + Send>) -> String {
    if let Some(s) = p.downcast_ref::<&str>() {
        s.to_string()
    } else if let Some(s) = p.downcast_ref::<String>() {
        s.clone()
    } else {
        "<non-string panic>".to_string()
    }
}

thread_local! {
    static LAST_PANIC_LOC: RefCell<String> = const { RefCell::new(String::new()) };
}

fn term_to_json(t: &Term) -> Value {
    match t {
        Term::Integer(i) => json!({"i": i.to_string()}),
        Term::Rational(r) => json!({"r": r.to_string()}),
        Term::Float(f) => json!({"f": format!("{:?}", f)}),
        Term::Atom(a) => json!({"a": a}),
        Term::String(s) => json!({"s": s}),
        Term::List(l) => json!({"l": l.iter().map(term_to_json).collect::<Vec<_>>()}),
        Term::Compound(f, args) => {
            json!({"c": f, "args": args.iter().map(term_to_json).collect::<Vec<_>>()})
        }
        Term::Var(v) => json!({"v": v}),
        _ => json!({"unknown": format!("{:?}", t)}),
    }
}

fn answer_to_json(a: &Result<LeafAnswer, Term>) -> Value {
    match a {
        Ok(LeafAnswer::True) => json!("true"),
        Ok(LeafAnswer::False) => json!("false"),
        Ok(LeafAnswer::Exception(t)) => json!({"exception": term_to_json(t)}),
        Ok(LeafAnswer::LeafAnswer { bindings, .. }) => {
            let m: serde_json::Map<String, Value> = bindings
                .iter()
                .map(|(k, v)| (k.clone(), term_to_json(v)))
                .collect();
            json!({"bindings": m})
        }
        Err(t) => json!({"error": term_to_json(t)}),
    }
}

fn footprint_json(m: &Machine, prefix: &str) -> Value {
    let f = m.verif_footprint(prefix);
    let (len, cap) = m.verif_heap_extent();
    json!({"heap_cells": f.heap_cells, "stack_top": f.stack_top, "trail_len": f.trail_len,
           "load_contexts": f.load_contexts, "inactive_load_states": f.inactive_load_states,
           "f64_entries": f.f64_entries, "code_len": f.code_len,
           "atoms_with_prefix": f.atoms_with_prefix, "heap_byte_len": len, "heap_byte_cap": cap})
}

fn main() {
    std::panic::set_hook(Box::new(|info| {
        let loc = info
            .location()
            .map(|l| format!("{}:{}", l.file(), l.line()))
            .unwrap_or_default();
        if std::env::var("PW_DEBUG").is_ok() {
            eprintln!("PANIC at {}: {}\n{}", loc, info, std::backtrace::Backtrace::force_capture());
        }
        LAST_PANIC_LOC.with(|c| *c.borrow_mut() = loc);
    }));

    let args: Vec<String> = std::env::args().collect();
    let driver_path = args.get(1).cloned().unwrap_or_default();
    let driver = if driver_path.is_empty() {
        String::new()
    } else {
        std::fs::read_to_string(&driver_path).expect("driver file")
    };

    let shared = Rc::new(Shared {
        out: RefCell::new(Vec::new()),
        err: RefCell::new(Vec::new()),
        arm: RefCell::new(ArmState::default()),
    });

    let mut machine = build_machine(&shared, &driver);
    let boot = take_out(&shared);

    let stdin = std::io::stdin();
    let stdout = std::io::stdout();
    let mut w = std::io::BufWriter::new(stdout.lock());
    writeln!(w, "{}", json!({"ready": true, "boot_out": boot.0, "boot_err": boot.1})).unwrap();
    w.flush().unwrap();

    for line in stdin.lock().lines() {
        let Ok(line) = line else { break };
        if line.trim().is_empty() {
            continue;
        }
        let req: Value = match serde_json::from_str(&line) {
            Ok(v) => v,
            Err(e) => {
                writeln!(w, "{}", json!({"bad_request": e.to_string()})).unwrap();
                w.flush().unwrap();
                continue;
            }
        };
        let op = req["op"].as_str().unwrap_or("");
        let resp = match op {
            "quit" => break,
            "new_machine" => {
                {
                    let mut a = shared.arm.borrow_mut();
                    do_disarm(&mut a);
                    *a = ArmState::default();
                }
                verif::take_interrupt_flag();
                machine = build_machine(&shared, &driver);
                let b = take_out(&shared);
                json!({"ok": true, "boot_out": b.0, "boot_err": b.1})
            }
            "put_file" => {
                let path = req["path"].as_str().unwrap_or("");
                let bytes = base64::engine::general_purpose::STANDARD
                    .decode(req["b64"].as_str().unwrap_or(""))
                    .unwrap_or_default();
                if let Some(parent) = std::path::Path::new(path).parent() {
                    let _ = std::fs::create_dir_all(parent);
                }
                match std::fs::write(path, bytes) {
                    Ok(()) => json!({"ok": true}),
                    Err(e) => json!({"ok": false, "error": e.to_string()}),
                }
            }
            "arm" => {
                let mut a = shared.arm.borrow_mut();
                do_disarm(&mut a);
                *a = ArmState::default();
                a.kind = req["kind"].as_str().map(|s| s.to_string());
                a.n = req["n"].as_u64().unwrap_or(u64::MAX);
                a.sticky = req["sticky"].as_bool().unwrap_or(false);
                a.tight = req["tight"].as_bool().unwrap_or(false);
                let tight_now = a.tight && a.kind.as_deref() == Some("heap");
                drop(a);
                if req["trim"].as_bool().unwrap_or(false) {
                    machine.verif_trim_heap();
                }
                // one-cell growth from now on (the query text itself is written
                // to the heap before the ARM marker is reached)
                verif::set_tight_growth(tight_now);
                json!({"ok": true})
            }
            "arm_report" => {
                let mut a = shared.arm.borrow_mut();
                do_disarm(&mut a);
                verif::set_tight_growth(false);
                let flag = verif::take_interrupt_flag();
                let r = json!({"w0": a.w0, "w1": a.w1, "total": a.total, "failed": a.failed,
                               "saw_arm": a.saw_arm, "interrupt_flag_left_set": flag});
                *a = ArmState::default();
                r
            }
            "footprint" => footprint_json(&machine, req["prefix"].as_str().unwrap_or("zzvx_")),
            "rz" => json!({"enabled": redzone::enabled(),
                           "smashed": redzone::SMASHED.load(std::sync::atomic::Ordering::SeqCst)}),
            "tight" => {
                // one-cell heap growth on/off (the heap is trimmed first when switching on)
                let on = req["on"].as_bool().unwrap_or(false);
                if on {
                    machine.verif_trim_heap();
                }
                verif::set_tight_growth(on);
                // "exact": every Heap::reserve also gives back the free cells beyond the
                // reservation, so a write past ANY reservation leaves the block
                verif::set_exact_reserve(on && req["exact"].as_bool().unwrap_or(false));
                json!({"ok": true})
            }
            "consult" => {
                let text = req["text"].as_str().unwrap_or("").to_string();
                let module = req["module"].as_str().unwrap_or("user").to_string();
                let mode = req["mode"].as_str().unwrap_or("consult").to_string();
                let r = catch_unwind(AssertUnwindSafe(|| {
                    if mode == "load" {
                        machine.load_module_string(&module, text);
                    } else {
                        machine.consult_module_string(&module, text);
                    }
                }));
                let (o, e) = take_out(&shared);
                match r {
                    Ok(()) => json!({"out": o, "err": e}),
                    Err(p) => {
                        let msg = panic_msg(p);
                        let loc = LAST_PANIC_LOC.with(|c| c.borrow().clone());
                        machine = build_machine(&shared, &driver);
                        take_out(&shared);
                        json!({"out": o, "err": e, "panic": msg, "where": loc})
                    }
                }
            }
            "q" | "raw" => {
                let key = if op == "q" { "cases" } else { "queries" };
                let empty = vec![];
                let cases = req[key].as_array().unwrap_or(&empty);
                let mut results = Vec::with_capacity(cases.len());
                for c in cases {
                    let text = c.as_str().unwrap_or("");
                    let query = if op == "q" {
                        format!("vx({}).", quote_for_prolog(text))
                    } else {
                        text.to_string()
                    };
                    let want_answers = op == "raw";
                    let r = catch_unwind(AssertUnwindSafe(|| {
                        let mut answers = Vec::new();
                        let mut n = 0usize;
                        for a in machine.run_query(query) {
                            if want_answers {
                                answers.push(answer_to_json(&a));
                            }
                            n += 1;
                            if n > 100_000 {
                                break;
                            }
                        }
                        answers
                    }));
                    let (o, e) = take_out(&shared);
                    match r {
                        Ok(ans) => {
                            if want_answers {
                                results.push(json!({"o": o, "e": e, "answers": ans}));
                            } else if e.is_empty() {
                                results.push(json!({"o": o}));
                            } else {
                                results.push(json!({"o": o, "e": e}));
                            }
                        }
                        Err(p) => {
                            let msg = panic_msg(p);
                            let loc = LAST_PANIC_LOC.with(|c| c.borrow().clone());
                            {
                                let mut a = shared.arm.borrow_mut();
                                do_disarm(&mut a);
                            }
                            verif::take_interrupt_flag();
                            machine = build_machine(&shared, &driver);
                            take_out(&shared);
                            results.push(json!({"o": o, "e": e, "panic": msg, "where": loc}));
                        }
                    }
                }
                json!({"r": results})
            }
            "api" => {
                // an embedding-API history on the current machine
                let empty = vec![];
                let ops = req["ops"].as_array().unwrap_or(&empty);
                let mut results = Vec::new();
                let mut dead = false;
                for o in ops {
                    if dead {
                        results.push(json!({"skipped": true}));
                        continue;
                    }
                    let kind = o["k"].as_str().unwrap_or("");
                    let r = catch_unwind(AssertUnwindSafe(|| match kind {
                        "query" => {
                            let text = o["text"].as_str().unwrap_or("").to_string();
                            let take = o["take"].as_u64();
                            let mut answers = Vec::new();
                            let mut it = machine.run_query(text);
                            let mut ended = false;
                            loop {
                                if let Some(t) = take {
                                    if answers.len() as u64 >= t {
                                        break;
                                    }
                                }
                                if answers.len() > 1000 {
                                    break;
                                }
                                match it.next() {
                                    Some(a) => answers.push(answer_to_json(&a)),
                                    None => {
                                        ended = true;
                                        break;
                                    }
                                }
                            }
                            let mut after_end = Value::Null;
                            if ended {
                                // an exhausted iterator must stay exhausted
                                after_end = match it.next() {
                                    None => json!("none"),
                                    Some(a) => answer_to_json(&a),
                                };
                            }
                            drop(it);
                            json!({"answers": answers, "ended": ended, "after_end": after_end})
                        }
                        "load" => {
                            machine.load_module_string(
                                o["module"].as_str().unwrap_or("user"),
                                o["text"].as_str().unwrap_or("").to_string(),
                            );
                            json!({"ok": true})
                        }
                        "consult" => {
                            machine.consult_module_string(
                                o["module"].as_str().unwrap_or("user"),
                                o["text"].as_str().unwrap_or("").to_string(),
                            );
                            json!({"ok": true})
                        }
                        "footprint" => {
                            footprint_json(&machine, o["prefix"].as_str().unwrap_or("zzvx_"))
                        }
                        _ => json!({"bad_op": kind}),
                    }));
                    let (so, se) = take_out(&shared);
                    match r {
                        Ok(mut v) => {
                            v["o"] = json!(so);
                            v["e"] = json!(se);
                            results.push(v);
                        }
                        Err(p) => {
                            let msg = panic_msg(p);
                            let loc = LAST_PANIC_LOC.with(|c| c.borrow().clone());
                            results.push(json!({"panic": msg, "where": loc, "o": so, "e": se}));
                            dead = true;
                        }
                    }
                }
                if dead || req["fresh_after"].as_bool().unwrap_or(true) {
                    machine = build_machine(&shared, &driver);
                    take_out(&shared);
                }
                json!({"r": results})
            }
            _ => json!({"bad_op": op}),
        };
        writeln!(w, "{}", resp).unwrap();
        w.flush().unwrap();
    }
}
