// mc_char: exhaustive in-process exploration of the real CharReader (C18).
//
// usage: mc_char explore <maxlen> <first_byte_index|all> <prefix_len>
//        mc_char replay <hexbytes> <cuts-bitmask> <policy-digits>
//
// For every byte string over the alphabet B (length <= maxlen, first byte
// fixed by the shard), every partition into non-empty read chunks and every
// consumption policy, the item sequence delivered by the reader is compared
// with the chunk-independent reference decoding of the whole string.

use std::io::Read;
use std::panic::{catch_unwind, AssertUnwindSafe};

use scryer_prolog::verif::{VerifCharItem, VerifCharReader};

const ALPHA: [u8; 10] = [b'a', 0xC3, 0xA9, 0xE2, 0x82, 0xAC, 0xF0, 0x9F, 0x80, 0xFF];

struct Chunks {
    chunks: Vec<Vec<u8>>,
    next: usize,
}

impl Read for Chunks {
    fn read(&mut self, buf: &mut [u8]) -> std::io::Result<usize> {
        if self.next >= self.chunks.len() {
            return Ok(0);
        }
        let c = &self.chunks[self.next];
        assert!(c.len() <= buf.len());
        buf[..c.len()].copy_from_slice(c);
        self.next += 1;
        Ok(c.len())
    }
}

#[derive(Debug, Clone, PartialEq, Eq, Hash)]
enum Item {
    Char(char),
    Invalid(Vec<u8>),
}

fn reference(bytes: &[u8]) -> Vec<Item> {
    let mut out = Vec::new();
    let mut p = 0;
    while p < bytes.len() {
        match std::str::from_utf8(&bytes[p..]) {
            Ok(s) => {
                out.extend(s.chars().map(Item::Char));
                break;
            }
            Err(e) => {
                let v = e.valid_up_to();
                let s = std::str::from_utf8(&bytes[p..p + v]).unwrap();
                out.extend(s.chars().map(Item::Char));
                p += v;
                match e.error_len() {
                    Some(n) => {
                        out.push(Item::Invalid(bytes[p..p + n].to_vec()));
                        p += n;
                    }
                    None => {
                        out.push(Item::Invalid(bytes[p..].to_vec()));
                        p = bytes.len();
                    }
                }
            }
        }
    }
    out
}

fn split(bytes: &[u8], cuts: u32) -> Vec<Vec<u8>> {
    // bit i of cuts set: a chunk boundary after byte i
    let mut chunks = Vec::new();
    let mut cur = Vec::new();
    for (i, b) in bytes.iter().enumerate() {
        cur.push(*b);
        if i + 1 < bytes.len() && (cuts >> i) & 1 == 1 {
            chunks.push(std::mem::take(&mut cur));
        }
    }
    if !cur.is_empty() {
        chunks.push(cur);
    }
    chunks
}

fn conv(i: VerifCharItem) -> Result<Item, String> {
    match i {
        VerifCharItem::Char(c) => Ok(Item::Char(c)),
        VerifCharItem::Invalid(b) => Ok(Item::Invalid(b)),
        VerifCharItem::IoError(k) => Err(format!("io error {k}")),
    }
}

// policy digit per item: 0 read; 1 peek,read; 2 peek,peek,read; 3 read,put_back,read
fn execute(bytes: &[u8], cuts: u32, policy: &[u8]) -> Result<Vec<Item>, String> {
    let mut r = VerifCharReader::new(Chunks {
        chunks: split(bytes, cuts),
        next: 0,
    });
    let mut out = Vec::new();
    let mut k = 0usize;
    loop {
        if out.len() > bytes.len() + 2 {
            return Err("reader delivers more items than bytes".into());
        }
        let pol = if policy.is_empty() { 0 } else { policy[k.min(policy.len() - 1)] };
        k += 1;
        let mut peeked: Vec<Option<Item>> = Vec::new();
        let npeek = match pol {
            1 => 1,
            2 => 2,
            _ => 0,
        };
        for _ in 0..npeek {
            peeked.push(match r.peek_char() {
                None => None,
                Some(i) => Some(conv(i)?),
            });
        }
        let mut got = match r.read_char() {
            None => None,
            Some(i) => Some(conv(i)?),
        };
        for p in &peeked {
            if *p != got {
                return Err(format!("peek {:?} differs from following read {:?}", p, got));
            }
        }
        if pol == 3 {
            if let Some(Item::Char(c)) = got {
                r.put_back_char(c);
                let again = match r.read_char() {
                    None => None,
                    Some(i) => Some(conv(i)?),
                };
                if again != got {
                    return Err(format!("put_back {:?} then read gave {:?}", got, again));
                }
                got = again;
            }
        }
        match got {
            None => break,
            Some(Item::Invalid(b)) => {
                if b.is_empty() {
                    return Err("empty invalid sequence".into());
                }
                r.consume(b.len());
                out.push(Item::Invalid(b));
            }
            Some(it) => out.push(it),
        }
    }
    // end of input is stable
    if r.read_char().is_some() {
        return Err("item after end of input".into());
    }
    Ok(out)
}

fn hex(b: &[u8]) -> String {
    b.iter().map(|x| format!("{:02x}", x)).collect()
}

fn items_str(v: &[Item]) -> String {
    v.iter()
        .map(|i| match i {
            Item::Char(c) => format!("U+{:04X}", *c as u32),
            Item::Invalid(b) => format!("bad[{}]", hex(b)),
        })
        .collect::<Vec<_>>()
        .join(" ")
}

fn boundary_inside_multibyte(bytes: &[u8], cuts: u32, refitems: &[Item]) -> bool {
    let mut p = 0;
    for it in refitems {
        let n = match it {
            Item::Char(c) => c.len_utf8(),
            Item::Invalid(b) => b.len(),
        };
        for i in p..p + n - 1 {
            if i + 1 < bytes.len() && (cuts >> i) & 1 == 1 {
                return true;
            }
        }
        p += n;
    }
    false
}

struct Stats {
    strings: u64,
    executions: u64,
    nontrivial: u64,
    outcomes: std::collections::HashSet<u64>,
    violations: Vec<String>,
    nviol: u64,
    sigs: std::collections::HashMap<String, u64>,
}

fn sanitize(msg: &str) -> String {
    let mut s = String::new();
    let mut last_digit = false;
    for ch in msg.chars() {
        if ch.is_ascii_digit() {
            if !last_digit {
                s.push('N');
            }
            last_digit = true;
        } else {
            last_digit = false;
            s.push(ch);
        }
    }
    s.chars().take(100).collect()
}

fn run_one(bytes: &[u8], cuts: u32, policy: &[u8], refitems: &[Item], st: &mut Stats) {
    st.executions += 1;
    if boundary_inside_multibyte(bytes, cuts, refitems) {
        st.nontrivial += 1;
    }
    let r = catch_unwind(AssertUnwindSafe(|| execute(bytes, cuts, policy)));
    let (sig, observed) = match r {
        Ok(Ok(items)) => {
            if items == refitems {
                return;
            }
            ("wrong_items".to_string(), items_str(&items))
        }
        Ok(Err(e)) => (format!("inconsistent: {}", sanitize(&e)), e),
        Err(p) => {
            let msg = if let Some(s) = p.downcast_ref::<&str>() {
                s.to_string()
            } else if let Some(s) = p.downcast_ref::<String>() {
                s.clone()
            } else {
                "?".into()
            };
            (format!("panic: {}", sanitize(&msg)), msg)
        }
    };
    st.nviol += 1;
    let n = st.sigs.entry(sig.clone()).or_insert(0);
    *n += 1;
    if *n <= 2 && st.violations.len() < 40 {
        let pol: String = policy.iter().map(|d| (b'0' + d) as char).collect();
        st.violations.push(format!(
            "{{\"sig\":{:?},\"bytes\":\"{}\",\"cuts\":{},\"policy\":\"{}\",\"expected\":{:?},\"observed\":{:?}}}",
            sig, hex(bytes), cuts, pol, items_str(refitems), observed
        ));
    }
}

fn policies(k: usize) -> Vec<Vec<u8>> {
    let mut out = Vec::new();
    if k == 0 {
        out.push(vec![0]);
        return out;
    }
    if k <= 4 {
        let total = 4usize.pow(k as u32);
        for mut n in 0..total {
            let mut v = Vec::with_capacity(k);
            for _ in 0..k {
                v.push((n % 4) as u8);
                n /= 4;
            }
            out.push(v);
        }
    } else {
        for u in 0..4u8 {
            out.push(vec![u; k]);
            for pos in 0..k {
                for d in 0..4u8 {
                    if d != u {
                        let mut v = vec![u; k];
                        v[pos] = d;
                        out.push(v);
                    }
                }
            }
        }
    }
    out
}

fn explore_string(bytes: &[u8], uniform_only: bool, st: &mut Stats) {
    st.strings += 1;
    let refitems = reference(bytes);
    {
        use std::hash::{Hash, Hasher};
        let mut h = std::collections::hash_map::DefaultHasher::new();
        refitems.hash(&mut h);
        st.outcomes.insert(h.finish());
    }
    let n = bytes.len();
    let ncuts: u32 = if n == 0 { 1 } else { 1 << (n - 1) };
    let pols = if uniform_only {
        (0..4u8).map(|u| vec![u]).collect()
    } else {
        policies(refitems.len())
    };
    // fewest chunk boundaries first
    let mut order: Vec<u32> = (0..ncuts).collect();
    order.sort_by_key(|c| c.count_ones());
    for cuts in order {
        for p in &pols {
            run_one(bytes, cuts, p, &refitems, st);
        }
    }
}

fn gen(prefix: &mut Vec<u8>, len: usize, uniform_only: bool, st: &mut Stats) {
    if prefix.len() == len {
        explore_string(prefix, uniform_only, st);
        return;
    }
    for b in ALPHA {
        prefix.push(b);
        gen(prefix, len, uniform_only, st);
        prefix.pop();
    }
}

fn main() {
    std::panic::set_hook(Box::new(|_| {}));
    let args: Vec<String> = std::env::args().collect();
    if args.len() >= 5 && args[1] == "replay" {
        let bytes: Vec<u8> = (0..args[2].len() / 2)
            .map(|i| u8::from_str_radix(&args[2][2 * i..2 * i + 2], 16).unwrap())
            .collect();
        let cuts: u32 = args[3].parse().unwrap();
        let policy: Vec<u8> = args[4].bytes().map(|c| c - b'0').collect();
        let refitems = reference(&bytes);
        let mut st = Stats {
            strings: 0, executions: 0, nontrivial: 0, outcomes: Default::default(),
            violations: vec![], nviol: 0, sigs: Default::default(),
        };
        run_one(&bytes, cuts, &policy, &refitems, &mut st);
        println!("{{\"chunks\":{:?},\"expected\":{:?},\"violations\":[{}]}}",
                 split(&bytes, cuts).iter().map(|c| hex(c)).collect::<Vec<_>>(),
                 items_str(&refitems), st.violations.join(","));
        return;
    }
    if args.len() < 5 || args[1] != "explore" {
        eprintln!("usage: mc_char explore <len> <first_byte_index> <ascii_prefix_len> | replay <hex> <cuts> <policy>");
        std::process::exit(2);
    }
    let len: usize = args[2].parse().unwrap();
    let first: usize = args[3].parse().unwrap();
    let plen: usize = args[4].parse().unwrap();
    let mut st = Stats {
        strings: 0, executions: 0, nontrivial: 0, outcomes: Default::default(),
        violations: vec![], nviol: 0, sigs: Default::default(),
    };
    if len == 0 {
        explore_string(&[], false, &mut st);
    } else {
        let mut prefix: Vec<u8> = vec![b'x'; plen];
        prefix.push(ALPHA[first]);
        gen(&mut prefix, plen + len, plen > 0, &mut st);
    }
    let sigs: Vec<String> = st.sigs.iter().map(|(k, v)| format!("{:?}:{}", k, v)).collect();
    println!(
        "{{\"strings\":{},\"executions\":{},\"nontrivial\":{},\"distinct_outcomes\":{},\"nviol\":{},\"sigs\":{{{}}},\"violations\":[{}]}}",
        st.strings, st.executions, st.nontrivial, st.outcomes.len(), st.nviol,
        sigs.join(","), st.violations.join(",")
    );
}
