// A global allocator that surrounds every allocation with canary bytes when
// the environment variable PW_REDZONE is set (decided once, at the first
// allocation); otherwise it forwards to the system allocator. The canaries are
// verified whenever a block is freed or reallocated; SMASHED counts blocks
// whose canaries had been overwritten.

use std::alloc::{GlobalAlloc, Layout, System};
use std::sync::atomic::{AtomicU64, AtomicU8, Ordering};

pub const RZ: usize = 128;
const FRONT: u8 = 0xA5;
const BACK: u8 = 0x5A;

pub static SMASHED: AtomicU64 = AtomicU64::new(0);
static MODE: AtomicU8 = AtomicU8::new(0); // 0 unknown, 1 off, 2 on

pub struct RedZone;

#[inline]
fn on() -> bool {
    match MODE.load(Ordering::Relaxed) {
        1 => false,
        2 => true,
        _ => {
            let v = unsafe { libc::getenv(b"PW_REDZONE\0".as_ptr() as *const libc::c_char) };
            let m = if v.is_null() { 1 } else { 2 };
            MODE.store(m, Ordering::Relaxed);
            m == 2
        }
    }
}

pub fn enabled() -> bool {
    on()
}

unsafe fn zone_ok(p: *const u8, n: usize, v: u8) -> bool {
    for i in 0..n {
        if *p.add(i) != v {
            return false;
        }
    }
    true
}

unsafe impl GlobalAlloc for RedZone {
    unsafe fn alloc(&self, l: Layout) -> *mut u8 {
        if !on() || l.align() > RZ {
            return System.alloc(l);
        }
        let base = System.alloc(Layout::from_size_align_unchecked(l.size() + 2 * RZ, l.align().max(16)));
        if base.is_null() {
            return base;
        }
        std::ptr::write_bytes(base, FRONT, RZ);
        std::ptr::write_bytes(base.add(RZ + l.size()), BACK, RZ);
        base.add(RZ)
    }
    unsafe fn dealloc(&self, p: *mut u8, l: Layout) {
        if !on() || l.align() > RZ {
            return System.dealloc(p, l);
        }
        let base = p.sub(RZ);
        if !zone_ok(base, RZ, FRONT) || !zone_ok(p.add(l.size()), RZ, BACK) {
            SMASHED.fetch_add(1, Ordering::SeqCst);
        }
        System.dealloc(base, Layout::from_size_align_unchecked(l.size() + 2 * RZ, l.align().max(16)));
    }
    unsafe fn realloc(&self, p: *mut u8, l: Layout, new_size: usize) -> *mut u8 {
        if !on() || l.align() > RZ {
            return System.realloc(p, l, new_size);
        }
        let np = self.alloc(Layout::from_size_align_unchecked(new_size, l.align()));
        if !np.is_null() {
            std::ptr::copy_nonoverlapping(p, np, l.size().min(new_size));
            self.dealloc(p, l);
        }
        np
    }
}
