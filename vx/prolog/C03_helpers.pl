% helpers for C03 (consulted into module user by vx/props/C03.py)
:- dynamic(c03_dyn/1).

% outcome of a value-producing goal
c03_v(G, X, R) :- catch(( call(G) -> R = v(X) ; R = failed ), error(F, _), R = e(F)).
% outcome of a test goal
c03_t(G, R) :- catch(( call(G) -> R = true ; R = false ), error(F, _), R = e(F)).

% compiled is/2 and comparisons that receive the expression in a variable
c03_is(E, X) :- X is E.
c03_eq(E, V) :- E =:= V.
c03_lt(E, V) :- E < V.
c03_ge(E, V) :- V >= E, E >= V.

% c03_run(BodyGoal, X1, CmpGoal, V, Expr, Build, Built, Rs)
c03_run(BodyGoal, X1, CmpGoal, V, Expr, Build, Built, Rs) :-
    c03_v(BodyGoal, X1, R1),
    c03_v(X2 is Expr, X2, R2),
    call(Build),
    c03_v(c03_is(Built, X3), X3, R3),
    c03_v(findall(X4, X4 is Expr, [X4a]), X4a, R4),
    c03_assert_ctx(Expr, R5),
    ( R2 = v(V0) -> V = V0 ; V = 0 ),
    c03_t(CmpGoal, R6),
    c03_t(c03_eq(Built, V), R7),
    c03_t(Expr =:= V, R8),
    c03_t(c03_lt(Built, V), R9),
    c03_t(c03_ge(Built, V), R10),
    Rs = [R1, R2, R3, R4, R5, R6, R7, R8, R9, R10].

c03_assert_ctx(Expr, R) :-
    catch(( assertz((c03_dyn(X) :- X is Expr)),
            c03_v(c03_dyn(Y), Y, R) ),
          error(F, _), R = e(F)),
    retractall(c03_dyn(_)).
