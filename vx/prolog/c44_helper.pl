% c44_helper.pl — flag history execution and observation for C44.
% Consulted under the default flags.
:- use_module(library(lists)).
:- use_module(library(charsio)).

c44_err(E, R) :- ( nonvar(E), E = error(F, _) -> R = error(F) ; R = ball(E) ).

c44_outcome(G, R) :- catch(( call(G) -> R = true ; R = false ), E, c44_err(E, R)).

c44_state(S) :- findall(F-V, current_prolog_flag(F, V), S).

c44_steps([], []).
c44_steps([t(F,V)|Ts], [step(Out, Holds, S)|Rs]) :-
    c44_outcome(set_prolog_flag(F, V), Out),
    (   nonvar(F), nonvar(V) -> c44_outcome(current_prolog_flag(F, V), Holds) ; Holds = na ),
    c44_state(S),
    c44_steps(Ts, Rs).

c44_restore :-
    catch(set_prolog_flag(double_quotes, chars), _, true),
    catch(set_prolog_flag(unknown, error), _, true),
    catch(set_prolog_flag(occurs_check, false), _, true),
    catch(set_prolog_flag(answer_write_options, []), _, true).

% c44_hist(Transitions, Steps, Inspection, FinalState)
c44_hist(Ts, Steps, Insp, Final) :-
    c44_steps(Ts, Steps),
    catch(c44_inspect(Insp), E, (c44_err(E, X), Insp = failed(X))),
    c44_restore,
    c44_state(Final).

c44_inspect(insp(Given, Right, Wrong, Non, probes(dq(DQ, DQ2), oc(OC, OC2, OC3), UN))) :-
    c44_state(S),
    c44_given(S, Given),
    c44_right(S, Right),
    c44_wrong(S, Wrong),
    c44_outcome(current_prolog_flag(c44_no_such_flag, _), N1),
    c44_outcome(current_prolog_flag(1, _), N2),
    findall(V, current_prolog_flag(max_integer, V), N3),
    findall(V, current_prolog_flag(min_integer, V), N4),
    Non = [N1, N2, N3, N4],
    catch(( read_term_from_chars("\"ab\".", T, []) -> DQ = read(T) ; DQ = failed ), E1, c44_err(E1, DQ)),
    c44_dq_consulted(DQ2),
    c44_outcome(\+ \+ (X = f(X)), OC),
    c44_outcome(\+ \+ c44_oc_body(_), OC2),
    c44_outcome(\+ \+ c44_oc_head(Y, f(Y)), OC3),
    % (unknown=warning makes the machine println! its warning on the process's real
    % stdout; the worker pool skips such non-protocol lines)
    c44_unknown_probes(UN).


% F given, V unbound: all solutions
c44_given([], []).
c44_given([F-_|S], [F-Vs|G]) :-
    catch(findall(V, current_prolog_flag(F, V), Vs), E, c44_err(E, Vs)),
    c44_given(S, G).

% F given, V bound to the enumerated value / to a wrong value
c44_right([], []).
c44_right([F-V|S], [F-R|G]) :- c44_outcome(current_prolog_flag(F, V), R), c44_right(S, G).

c44_wrong([], []).
c44_wrong([F-_|S], [F-R|G]) :- c44_outcome(current_prolog_flag(F, c44_wrong_value), R), c44_wrong(S, G).

% behavioural probes in compiled code ------------------------------------------
% an undefined predicate reached through every call form
c44_p_only :- c44_undef_only.
c44_p_last :- true, c44_undef_last.
c44_p_nonlast :- c44_undef_nonlast, true.
c44_p_extra(X) :- c44_undef_extra(X).
c44_p_ite :- ( c44_undef_ite -> true ; fail ).
c44_p_neg :- \+ c44_undef_neg.

c44_unknown_probes([call-A, only-B, last-C, nonlast-D, calln_clause-E, calln-F, user_q-G, lists_q-H, ite-I]) :-
    c44_outcome(call(c44_undef_call), A),
    c44_outcome(c44_p_only, B),
    c44_outcome(c44_p_last, C),
    c44_outcome(c44_p_nonlast, D),
    c44_outcome(call(c44_p_extra, 1), E),
    c44_outcome(call(c44_undef_calln, 1), F),
    c44_outcome(user:c44_undef_mod, G),
    c44_outcome(lists:c44_undef_mod2, H),
    c44_outcome(c44_p_ite, I).

% occurs_check in compiled code: body unification and head unification
c44_oc_body(X) :- X = f(X).
c44_oc_head(X, X).

% double_quotes takes effect on text read after the change: consult a file
% (written by the explorer) that contains  c44_dq_fact("ab").
% (c44_dq_file/1 is appended to this text by the property module)
c44_dq_consulted(R) :-
    (   c44_dq_file(F) ->
        catch(( consult(F), ( c44_dq_fact(X) -> R = fact(X) ; R = nofact ) ), E, c44_err(E, R))
    ;   R = nofile
    ).
