% c44_helper.pl — flag history execution and observation for C44.
% Consulted under the default flags.
:- use_module(library(lists)).
:- use_module(library(charsio)).

c44_err(E, R) :- ( nonvar(E), E = error(F, _) -> R = error(F) ; R = ball(E) ).

c44_outcome(G, R) :- catch(( call(G) -> R = true ; R = false ), E, c44_err(E, R)).

c44_state(S) :- findall(F-V, current_prolog_flag(F, V), S).

c44_steps([], []).
c44_steps([t(F,V)|Ts], [step(Out, Holds, S)|Rs]) :-
    c44_outcome(set_prolog_flag(F, V), Out),
    (   nonvar(F), nonvar(V) -> c44_outcome(current_prolog_flag(F, V), Holds) ; Holds = na ),
    c44_state(S),
    c44_steps(Ts, Rs).

c44_restore :-
    catch(set_prolog_flag(double_quotes, chars), _, true),
    catch(set_prolog_flag(unknown, error), _, true),
    catch(set_prolog_flag(occurs_check, false), _, true),
    catch(set_prolog_flag(answer_write_options, []), _, true).

% c44_hist(Transitions, Steps, Inspection, FinalState)
c44_hist(Ts, Steps, Insp, Final) :-
    c44_steps(Ts, Steps),
    catch(c44_inspect(Insp), E, (c44_err(E, X), Insp = failed(X))),
    c44_restore,
    c44_state(Final).

c44_inspect(insp(Given, Right, Wrong, Non, probes(DQ, OC, UN))) :-
    c44_state(S),
    c44_given(S, Given),
    c44_right(S, Right),
    c44_wrong(S, Wrong),
    c44_outcome(current_prolog_flag(c44_no_such_flag, _), N1),
    c44_outcome(current_prolog_flag(1, _), N2),
    findall(V, current_prolog_flag(max_integer, V), N3),
    findall(V, current_prolog_flag(min_integer, V), N4),
    Non = [N1, N2, N3, N4],
    catch(( read_term_from_chars("\"ab\".", T, []) -> DQ = read(T) ; DQ = failed ), E1, c44_err(E1, DQ)),
    c44_outcome(\+ \+ (X = f(X)), OC),
    % (unknown=warning makes the machine println! its warning on the process's real
    % stdout; the worker pool skips such non-protocol lines)
    c44_outcome(c44_no_such_predicate_zz(1), UN).

% F given, V unbound: all solutions
c44_given([], []).
c44_given([F-_|S], [F-Vs|G]) :-
    catch(findall(V, current_prolog_flag(F, V), Vs), E, c44_err(E, Vs)),
    c44_given(S, G).

% F given, V bound to the enumerated value / to a wrong value
c44_right([], []).
c44_right([F-V|S], [F-R|G]) :- c44_outcome(current_prolog_flag(F, V), R), c44_right(S, G).

c44_wrong([], []).
c44_wrong([F-_|S], [F-R|G]) :- c44_outcome(current_prolog_flag(F, c44_wrong_value), R), c44_wrong(S, G).
