% helpers for C52 (consulted into module user by vx/props/C52.py)
:- use_module(library(random)).
:- use_module(library(lists)).

c52_try(G, X, V) :- catch(( call(G) -> V = v(X) ; V = failed ), error(F, _), V = e(F)).

c52_op(r, V) :- c52_try(random(X), X, V).
c52_op(m, V) :- catch(( maybe -> V = true ; V = false ), error(F, _), V = e(F)).
c52_op(ri(L, H), V) :- c52_try(random_integer(L, H, X), X, V).

c52_script([], []).
c52_script([Op|Ops], [V|Vs]) :- c52_op(Op, V), c52_script(Ops, Vs).

c52_seed(S, R) :- catch(( set_random(seed(S)) -> R = true ; R = false ), error(F, _), R = e(F)).

% seed, run the script, disturb the generator, seed again, run again
c52_run(S, Script, R0, V1, V2) :-
    c52_seed(S, R0),
    c52_script(Script, V1),
    c52_script([r, m, ri(0, 7), r], _),
    c52_seed(S, _),
    c52_script(Script, V2).

% seed then draw K integers from L..H-1
c52_draws(S, L, H, K, R0, Vs) :-
    c52_seed(S, R0),
    length(Ops, K),
    c52_fill(Ops, L, H),
    c52_script(Ops, Vs).

c52_fill([], _, _).
c52_fill([ri(L, H)|Os], L, H) :- c52_fill(Os, L, H).

c52_set(Arg, R) :- catch(( set_random(Arg) -> R = true ; R = false ), error(F, _), R = e(F)).
