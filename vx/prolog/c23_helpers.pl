% helpers for C23 (term construction / inspection builtins)
:- use_module(library(lists)).
:- use_module(library(dif)).
:- use_module(library(freeze)).
:- dynamic(vx_ts_tmp/2).

c23_bind([]).
c23_bind([zzz|Vs]) :- c23_bind(Vs).

% outcomes of arg(K, T, A) for each K of a list: sol(A) / false / error(F)
c23_args([], _, []).
c23_args([K|Ks], T, [R|Rs]) :- vx_first(A, arg(K, T, A), R), c23_args(Ks, T, Rs).

% copy, then bind every variable of the copy: the original must be untouched
c23_copy_bind(T) :- copy_term(T, C), term_variables(C, Vs), c23_bind(Vs).

c23_subsumes(G, S, R) :- ( subsumes_term(G, S) -> R = 1 ; R = 0 ).

% attributed variables
c23_attr(freeze, X) :- freeze(X, true).
c23_attr(dif, X) :- dif(X, a).
c23_attr(none, _).
% after the copy: is the original constraint still active?  (dif: X = a must fail)
c23_still(dif, X, R) :- ( \+ X = a -> R = 1 ; R = 0 ).
c23_still(freeze, _, 1).
c23_still(none, _, 1).
