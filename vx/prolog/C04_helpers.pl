% helpers for C04 (consulted into module user by vx/props/C04.py)
c04_nop.

c04_t(G, R) :- catch(( call(G) -> R = t ; R = f ), error(F, _), R = e(F)).

% comparison as the last goal of a clause (Execute* instruction), operands in variables
c04x_lt(A, B) :- A < B.
c04x_le(A, B) :- A =< B.
c04x_gt(A, B) :- A > B.
c04x_ge(A, B) :- A >= B.
c04x_eq(A, B) :- A =:= B.
c04x_ne(A, B) :- A =\= B.
% comparison followed by another goal (Call* instruction)
c04c_lt(A, B) :- A < B, c04_nop.
c04c_le(A, B) :- A =< B, c04_nop.
c04c_gt(A, B) :- A > B, c04_nop.
c04c_ge(A, B) :- A >= B, c04_nop.
c04c_eq(A, B) :- A =:= B, c04_nop.
c04c_ne(A, B) :- A =\= B, c04_nop.

% order of the six predicates everywhere: <, =<, >, >=, =:=, =\=
c04_side(A, B, [X1,X2,X3,X4,X5,X6, C1,C2,C3,C4,C5,C6, M1,M2,M3,M4,M5,M6]) :-
    c04_t(c04x_lt(A,B), X1), c04_t(c04x_le(A,B), X2), c04_t(c04x_gt(A,B), X3),
    c04_t(c04x_ge(A,B), X4), c04_t(c04x_eq(A,B), X5), c04_t(c04x_ne(A,B), X6),
    c04_t(c04c_lt(A,B), C1), c04_t(c04c_le(A,B), C2), c04_t(c04c_gt(A,B), C3),
    c04_t(c04c_ge(A,B), C4), c04_t(c04c_eq(A,B), C5), c04_t(c04c_ne(A,B), C6),
    G1 = (A < B), G2 = (A =< B), G3 = (A > B), G4 = (A >= B), G5 = (A =:= B), G6 = (A =\= B),
    c04_t(G1, M1), c04_t(G2, M2), c04_t(G3, M3), c04_t(G4, M4), c04_t(G5, M5), c04_t(G6, M6).

c04_pair(A, B, RAB, RBA) :- c04_side(A, B, RAB), c04_side(B, A, RBA).

c04_lit(G, L, R) :- catch(( call(G) -> R = L ; R = failed ), error(F, _), R = e(F)).
