% helpers for C10 (unification)
:- dynamic(vx_ts_tmp/2).

% side observations, none of which leaves a binding behind:
%   NE  truth of A \= B
%   OC  unify_with_occurs_check: 1 (succeeds and A == B afterwards), 0 (fails), neq
%   FT  (=)/2 under occurs_check = true:   1 / 0 / neq / err(Formal)
%   FE  (=)/2 under occurs_check = error:  1 / 0 / neq / err(Formal)
c10_pre(A, B, p(NE, OC, FT, FE)) :-
    ( A \= B -> NE = 1 ; NE = 0 ),
    ( \+ \+ unify_with_occurs_check(A, B) ->
        ( \+ \+ ( unify_with_occurs_check(A, B), A == B ) -> OC = 1 ; OC = neq )
    ;   OC = 0 ),
    c10_flag(true, A, B, FT),
    c10_flag(error, A, B, FE).

c10_flag(F, A, B, R) :-
    set_prolog_flag(occurs_check, F),
    catch(c10_flag_(A, B, R0), E, R0 = caught(E)),
    set_prolog_flag(occurs_check, false),
    c10_flag_result(R0, R).

c10_flag_(A, B, R) :-
    ( \+ \+ A = B ->
        ( \+ \+ ( A = B, A == B ) -> R = 1 ; R = neq )
    ;   R = 0 ).

c10_flag_result(caught(E), R) :- !,
    ( nonvar(E), E = error(Fm, _) -> R = err(Fm) ; R = ball ).
c10_flag_result(R, R).

% the main unification; its bindings are reported by the driver
c10_u(u, A, B, E) :- ( A = B -> ( A == B -> E = 1 ; E = neq ) ; E = 0 ).
c10_u(oc, A, B, E) :- ( unify_with_occurs_check(A, B) -> ( A == B -> E = 1 ; E = neq ) ; E = 0 ).
