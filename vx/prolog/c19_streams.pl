% c19_streams.pl — operation interpreter for the C19 stream explorer.
% Loaded with consult_module_string into module user by vx/props/C19.py.
%
% c19_read(File, Options, Ops, Obs): opens File for reading with Options,
% executes the operation codes in Ops one after the other on the stream and
% unifies Obs with the list of per-operation observations followed by a final
% snapshot. The stream term never reaches the transport.
%
% observation of one op:  r(Value) | false | e(Formal) | b(Ball)

c19_read(File, Options, Ops, Obs) :-
    open(File, read, S, Options),
    (   catch(stream_property(S, position(P0)), _, fail) -> true ; P0 = none ),
    c19_ops(Ops, S, P0, Obs0),
    c19_do(pr, S, P0, _, Snap),
    catch(close(S), _, true),
    append(Obs0, [Snap], Obs).

c19_ops([], _, _, []).
c19_ops([Op|Ops], S, Saved0, [O|Os]) :-
    c19_do(Op, S, Saved0, Saved, O),
    c19_ops(Ops, S, Saved, Os).

c19_do(Op, S, Saved0, Saved, O) :-
    (   catch(c19_op(Op, S, Saved0, Saved1, V), E, (c19_err(E, O), Saved1 = Saved0)) ->
        (   var(O) -> O = r(V) ; true )
    ;   O = false, Saved1 = Saved0
    ),
    Saved = Saved1.

c19_err(E, O) :- ( nonvar(E), E = error(F, _) -> c19_formal(F, F1), O = e(F1) ; O = b(E) ).

% the culprit of a stream error is the stream itself: drop it
c19_formal(permission_error(A, B, _), permission_error(A, B)) :- !.
c19_formal(existence_error(A, _), existence_error(A)) :- !.
c19_formal(domain_error(A, _), domain_error(A)) :- !.
c19_formal(F, F).

c19_op(gc, S, P, P, C) :- get_char(S, C).
c19_op(pc, S, P, P, C) :- peek_char(S, C).
c19_op(gd, S, P, P, C) :- get_code(S, C).
c19_op(pd, S, P, P, C) :- peek_code(S, C).
c19_op(gb, S, P, P, C) :- get_byte(S, C).
c19_op(pb, S, P, P, C) :- peek_byte(S, C).
c19_op(gn, S, P, P, Cs) :- get_n_chars(S, 2, Cs).
c19_op(rt, S, P, P, T) :- read_term(S, T, []).
c19_op(ae, S, P, P, B) :- ( at_end_of_stream(S) -> B = true ; B = false ).
c19_op(pr, S, _, Pos, p(Pos, E)) :-
    stream_property(S, position(Pos)),
    stream_property(S, end_of_stream(E)).
c19_op(sp, S, P, P, ok) :- set_stream_position(S, P).

% c19_write(File, Type, Items): writes the items one by one with the named writer.
%   c(Char) put_char, d(Code) put_code, b(Byte) put_byte, w(Term) write/2,
%   n nl/1, f(Term) format(S, "~w", [Term]), q(Term) writeq, fa(Atom) format ~a,
%   fs(Chars) format ~s
c19_write(File, Type, Items, Obs) :-
    open(File, write, S, [type(Type)]),
    c19_wr(Items, S, Obs),
    close(S).

c19_wr([], _, []).
c19_wr([I|Is], S, [O|Os]) :-
    (   catch(c19_w(I, S), E, c19_err(E, O)) -> ( var(O) -> O = ok ; true ) ; O = false ),
    c19_wr(Is, S, Os).

c19_w(c(C), S) :- put_char(S, C).
c19_w(d(C), S) :- put_code(S, C).
c19_w(b(B), S) :- put_byte(S, B).
c19_w(w(T), S) :- write(S, T).
c19_w(q(T), S) :- writeq(S, T).
c19_w(n, S) :- nl(S).
c19_w(f(T), S) :- format(S, "~w", [T]).
c19_w(fa(T), S) :- format(S, "~a", [T]).
c19_w(fs(T), S) :- format(S, "~s", [T]).

% c19_mem(Term, Chars): in-memory twin of write/2
c19_mem(T, Cs) :- write_term_to_chars(T, [], Cs).

% c19_memw(File, Writer, Options, Term, Chars): Term written to File with
% Writer/2 and to Chars with write_term_to_chars/3 using the equivalent Options.
c19_memw(File, Writer, Options, T, Cs) :-
    open(File, write, S, []),
    G =.. [Writer, S, T],
    call(G),
    close(S),
    write_term_to_chars(T, Options, Cs).

% c19_memr(File, Term, R): Term is written quoted, followed by an end token,
% to File and to a character list; both are read back. R = same | differ(X, Y).
c19_memr(File, T, R) :-
    write_term_to_chars(T, [quoted(true)], Cs0),
    append(Cs0, ".\n", Cs),
    open(File, write, S, []),
    format(S, "~s", [Cs]),
    close(S),
    open(File, read, S2, []),
    read_term(S2, X, []),
    read_term(S2, E, []),
    close(S2),
    read_term_from_chars(Cs, Y, []),
    (   E == end_of_file,
        \+ \+ ( term_variables(X, Vs), term_variables(Y, Vs), X == Y ),
        \+ \+ ( term_variables(X, Vs1), term_variables(T, Vs1), X == T )
    ->  R = same
    ;   R = differ(X, Y, E)
    ).
