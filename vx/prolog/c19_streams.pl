% c19_streams.pl — operation interpreter for the C19 stream explorer.
% Loaded with consult_module_string into module user by vx/props/C19.py.
%
% c19_read(File, Options, Ops, Obs): opens File for reading with Options,
% executes the operation codes in Ops one after the other on the stream and
% unifies Obs with the list of per-operation observations followed by a final
% snapshot. The stream term never reaches the transport.
%
% observation of one op:  r(Value) | false | e(Formal) | b(Ball)

c19_read(File, Options, Ops, Obs) :-
    open(File, read, S, Options),
    (   catch(stream_property(S, position(P0)), _, fail) -> true ; P0 = none ),
    c19_ops(Ops, S, P0, Obs0),
    c19_do(pr, S, P0, _, Snap),
    catch(close(S), _, true),
    append(Obs0, [Snap], Obs).

c19_ops([], _, _, []).
c19_ops([Op|Ops], S, Saved0, [O|Os]) :-
    c19_do(Op, S, Saved0, Saved, O),
    c19_ops(Ops, S, Saved, Os).

c19_do(Op, S, Saved0, Saved, O) :-
    (   catch(c19_op(Op, S, Saved0, Saved1, V), E, (c19_err(E, O), Saved1 = Saved0)) ->
        (   var(O) -> O = r(V) ; true )
    ;   O = false, Saved1 = Saved0
    ),
    Saved = Saved1.

c19_err(E, O) :- ( nonvar(E), E = error(F, _) -> c19_formal(F, F1), O = e(F1) ; O = b(E) ).

% the culprit of a stream error is the stream itself: drop it
c19_formal(permission_error(A, B, _), permission_error(A, B)) :- !.
c19_formal(existence_error(A, _), existence_error(A)) :- !.
c19_formal(domain_error(A, _), domain_error(A)) :- !.
c19_formal(F, F).

c19_op(gc, S, P, P, C) :- get_char(S, C).
c19_op(pc, S, P, P, C) :- peek_char(S, C).
c19_op(gd, S, P, P, C) :- get_code(S, C).
c19_op(pd, S, P, P, C) :- peek_code(S, C).
c19_op(gb, S, P, P, C) :- get_byte(S, C).
c19_op(pb, S, P, P, C) :- peek_byte(S, C).
c19_op(gn, S, P, P, Cs) :- get_n_chars(S, 2, Cs).
c19_op(rt, S, P, P, T) :- read_term(S, T, []).
c19_op(ae, S, P, P, B) :- ( at_end_of_stream(S) -> B = true ; B = false ).
c19_op(pr, S, _, Pos, p(Pos, E)) :-
    stream_property(S, position(Pos)),
    stream_property(S, end_of_stream(E)).
c19_op(sp, S, P, P, ok) :- set_stream_position(S, P).

% c19_write(File, Type, Items): writes the items one by one with the named writer.
%   c(Char) put_char, d(Code) put_code, b(Byte) put_byte, w(Term) write/2,
%   n nl/1, f(Term) format(S, "~w", [Term]), q(Term) writeq, fa(Atom) format ~a,
%   fs(Chars) format ~s
c19_write(File, Type, Items, Obs) :-
    open(File, write, S, [type(Type)]),
    c19_wr(Items, S, Obs),
    close(S).

c19_wr([], _, []).
c19_wr([I|Is], S, [O|Os]) :-
    (   catch(c19_w(I, S), E, c19_err(E, O)) -> ( var(O) -> O = ok ; true ) ; O = false ),
    c19_wr(Is, S, Os).

c19_w(c(C), S) :- put_char(S, C).
c19_w(d(C), S) :- put_code(S, C).
c19_w(b(B), S) :- put_byte(S, B).
c19_w(w(T), S) :- write(S, T).
c19_w(q(T), S) :- writeq(S, T).
c19_w(n, S) :- nl(S).
c19_w(f(T), S) :- format(S, "~w", [T]).
c19_w(fa(T), S) :- format(S, "~a", [T]).
c19_w(fs(T), S) :- format(S, "~s", [T]).

% c19_mem(Term, Chars): in-memory twin of write/2
c19_mem(T, Cs) :- write_term_to_chars(T, [], Cs).

% c19_memw(File, Writer, Options, Term, Chars): Term written to File with
% Writer/2 and to Chars with write_term_to_chars/3 using the equivalent Options.
c19_memw(File, Writer, Options, T, Cs) :-
    open(File, write, S, []),
    G =.. [Writer, S, T],
    call(G),
    close(S),
    write_term_to_chars(T, Options, Cs).

% c19_memr(File, Term, R): Term is written quoted, followed by an end token,
% to File and to a character list; both are read back. R = same | differ(X, Y).
c19_memr(File, T, R) :-
    write_term_to_chars(T, [quoted(true)], Cs0),
    append(Cs0, ".\n", Cs),
    open(File, write, S, []),
    format(S, "~s", [Cs]),
    close(S),
    open(File, read, S2, []),
    read_term(S2, X, []),
    read_term(S2, E, []),
    close(S2),
    read_term_from_chars(Cs, Y, []),
    (   E == end_of_file,
        \+ \+ ( term_variables(X, Vs), term_variables(Y, Vs), X == Y ),
        \+ \+ ( term_variables(X, Vs1), term_variables(T, Vs1), X == T )
    ->  R = same
    ;   R = differ(X, Y, E)
    ).

% ---------------------------------------------------------------------------
% large payloads (files longer than the reader's 8 KiB chunk)

% c19_bigwrite(File, Writer, Full): writes the characters of Full with
% put_char/2 (one call per character) or with one format/3 call.
c19_bigwrite(File, pc, Full) :-
    open(File, write, S, []), c19_putall(Full, S), close(S).
c19_bigwrite(File, fmt, Full) :-
    open(File, write, S, []), format(S, "~s", [Full]), close(S).

c19_putall([], _).
c19_putall([C|Cs], S) :- put_char(S, C), c19_putall(Cs, S).

% c19_big(File, Full, Readers, Results): Full is the character list the
% explorer wrote. Every reader consumes the whole file, comparing what it gets
% with Full as it goes (so a runaway reader stops at the first difference).
% Result r(Reader, Cmp, AtEnd, Pos) with Cmp = eq(N) (all N characters equal and
% then end of file) | short(I) (end of file after I characters, more expected)
% | diff(I, Got) (different / additional data at index I) | error(F).
c19_big(_, _, [], []).
c19_big(File, Full, [Rd|Rds], [r(Rd, Cmp, AE, Pos)|Rs]) :-
    open(File, read, S, [eof_action(eof_code), reposition(true)]),
    catch(c19_bigread(Rd, S, Full, Cmp), error(E, _), Cmp = error(E)),
    ( catch(at_end_of_stream(S), _, fail) -> AE = true ; AE = false ),
    ( catch(stream_property(S, position(position_and_lines_read(Pos, _))), _, fail) -> true ; Pos = none ),
    close(S),
    c19_big(File, Full, Rds, Rs).

c19_bigread(gc, S, Full, R) :- c19_loop_gc(S, Full, 0, R).
c19_bigread(pgc, S, Full, R) :- c19_loop_pgc(S, Full, 0, R).
c19_bigread(gd, S, Full, R) :- c19_loop_gd(S, Full, 0, R).
c19_bigread(pgd, S, Full, R) :- c19_loop_pgd(S, Full, 0, R).
c19_bigread(gn(K), S, Full, R) :- c19_loop_gn(S, K, Full, 0, R).
c19_bigread(pos(K), S, Full, R) :- c19_take(K, S, Full, 0, R).
c19_bigread(npos(K), S, Full, R) :-
    get_n_chars(S, K, Cs), c19_prefix(Cs, Full, 0, I, _, Ok),
    ( Ok == true -> R = took(I) ; R = Ok ).
c19_bigread(rt, S, Full, R) :-
    read_term(S, T, []),
    (   atom(T) -> atom_chars(T, Cs), c19_prefix(Cs, Full, 0, I, Rest, Ok),
        (   Ok == true -> ( Rest == [] -> R0 = eq(I) ; R0 = short(I) ) ; R0 = Ok ),
        read_term(S, T2, []),
        ( T2 == end_of_file -> R = R0 ; R = second(R0, T2) )
    ;   R = notatom
    ).

c19_loop_gc(S, Full, I, R) :-
    get_char(S, C),
    (   C == end_of_file -> ( Full == [] -> R = eq(I) ; R = short(I) )
    ;   Full = [X|Rest], X == C -> I1 is I + 1, c19_loop_gc(S, Rest, I1, R)
    ;   R = diff(I, C)
    ).

c19_loop_pgc(S, Full, I, R) :-
    peek_char(S, P), get_char(S, C),
    (   P \== C -> R = peekdiff(I, P, C)
    ;   C == end_of_file -> ( Full == [] -> R = eq(I) ; R = short(I) )
    ;   Full = [X|Rest], X == C -> I1 is I + 1, c19_loop_pgc(S, Rest, I1, R)
    ;   R = diff(I, C)
    ).

c19_loop_gd(S, Full, I, R) :-
    get_code(S, C),
    (   C == -1 -> ( Full == [] -> R = eq(I) ; R = short(I) )
    ;   Full = [X|Rest], char_code(X, C) -> I1 is I + 1, c19_loop_gd(S, Rest, I1, R)
    ;   R = diff(I, C)
    ).

c19_loop_pgd(S, Full, I, R) :-
    peek_code(S, P), get_code(S, C),
    (   P \== C -> R = peekdiff(I, P, C)
    ;   C == -1 -> ( Full == [] -> R = eq(I) ; R = short(I) )
    ;   Full = [X|Rest], char_code(X, C) -> I1 is I + 1, c19_loop_pgd(S, Rest, I1, R)
    ;   R = diff(I, C)
    ).

c19_loop_gn(S, K, Full, I, R) :-
    get_n_chars(S, K, Cs),
    (   Cs == [] -> ( Full == [] -> R = eq(I) ; R = short(I) )
    ;   c19_prefix(Cs, Full, I, I1, Rest, Ok),
        (   Ok == true -> c19_loop_gn(S, K, Rest, I1, R) ; R = Ok )
    ).

% exactly K characters with get_char, then stop (position is reported by the caller)
c19_take(0, _, _, I, took(I)) :- !.
c19_take(K, S, Full, I, R) :-
    get_char(S, C),
    (   Full = [X|Rest], X == C -> K1 is K - 1, I1 is I + 1, c19_take(K1, S, Rest, I1, R)
    ;   R = diff(I, C)
    ).

% c19_prefix(Cs, Full, I0, I, Rest, Ok): Cs is a prefix of Full
c19_prefix(Cs, Full, I0, I, Rest, Ok) :-
    (   Cs == [] -> I = I0, Rest = Full, Ok = true
    ;   Cs = [C|Cs1],
        (   nonvar(Full), Full = [X|F1], X == C -> I1 is I0 + 1, c19_prefix(Cs1, F1, I1, I, Rest, Ok)
        ;   I = I0, Rest = Full, Ok = diff(I0, C)
        )
    ).
