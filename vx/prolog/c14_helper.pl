% c14_helper.pl — observation batteries for property C14 (vx/props/C14.py).
% The ORDER of the results is a contract with list_observations/assoc code in
% C14.py. Every observation uses its own fresh variables; L keeps its identity
% (vx_all templates carry a copy of L so that sharing stays visible).

c14_app([], Ys, Ys).
c14_app([X|Xs], Ys, [X|Zs]) :- c14_app(Xs, Ys, Zs).

c14_flat([], []).
c14_flat([G|Gs], Rs) :- c14_flat(Gs, Rs0), c14_app(G, Rs0, Rs).

c14_range(I, J, []) :- I > J, !.
c14_range(I, J, [I|Ks]) :- I1 is I + 1, c14_range(I1, J, Ks).

c14_rev([], A, A).
c14_rev([X|Xs], A, R) :- c14_rev(Xs, [X|A], R).

c14_all(T, G, Cap, all(Sols, St)) :- vx_all(T, G, Cap, Sols, St).

c14_each([], _, _, []).
c14_each([K|Ks], Kind, L, [R|Rs]) :-
    c14_one(Kind, K, L, R),
    c14_each(Ks, Kind, L, Rs).

c14_one(nth0, K, L, R) :- vx_first(E, nth0(K, L, E), R).
c14_one(nth0x, K, L, R) :- vx_first(E-R0, nth0(K, L, E, R0), R).
c14_one(nth0ins, K, L, R) :- vx_first(L2, nth0(K, L2, z, L), R).
c14_one(nth1, K, L, R) :- vx_first(E, nth1(K, L, E), R).
c14_one(nth1x, K, L, R) :- vx_first(E-R0, nth1(K, L, E, R0), R).

% c14_list(+L, +N, +Ps, +Pre, +Suf, +Idx, -Rs)
c14_list(L, N, Ps, Pre, Suf, Idx, Rs) :-
    N1 is N + 1,
    vx_first(S0, sort(L, S0), R1),
    vx_first(S1, list_to_ord_set(L, S1), R2),
    vx_outcome(\+ \+ is_ordset(L), R3),
    vx_first(S3, keysort(Ps, S3), R4),
    vx_first(S4, list_to_set(L, S4), R5),
    vx_first(S5, reverse(L, S5), R6),
    vx_first(S6, reverse(S6, L), R7),
    vx_first(S7, length(L, S7), R8),
    vx_first(S8, same_length(L, S8), R9),
    vx_first(S9, same_length(S9, L), R10),
    c14_range(0, N, K0N), c14_range(0, N1, K0N1),
    c14_each(K0N, nth0, L, G1),
    c14_each(K0N, nth0x, L, G2),
    c14_each(K0N1, nth0ins, L, G3),
    c14_each(K0N1, nth1, L, G4),
    c14_each(K0N1, nth1x, L, G5),
    c14_all(s(L,A1,B1), nth0(A1, L, B1), 300, E1),
    c14_all(s(L,A2,B2), nth1(A2, L, B2), 300, E2),
    c14_all(s(L,A3,B3,C3), nth0(A3, L, B3, C3), 300, E3),
    c14_all(s(L,A4,B4,C4), nth1(A4, L, B4, C4), 300, E4),
    c14_all(s(L,A5,B5), nth0(A5, B5, z, L), 300, E5),
    c14_all(s(L,A6,B6), append(A6, B6, L), 300, E6),
    vx_first(S10, append(L, [z], S10), R11),
    vx_first(S11, append([z], L, S11), R12),
    vx_first(S12, append(Pre, S12, L), R13),
    c14_all(s(L,A7), append(A7, Suf, L), 300, E7),
    vx_first(S13, append([Pre,[],Suf], S13), R14),
    c14_all(s(L,A8,B8), select(A8, L, B8), 300, E8),
    c14_all(s(L,A9), select(z, A9, L), 300, E9),
    c14_all(s(L,A10), select(a, L, A10), 300, E10),
    c14_all(s(L), member(a, L), 300, E11),
    vx_outcome(\+ \+ memberchk(a, L), R15),
    c14_all(s(L,A12), select(1, L, A12), 300, E12),
    c14_all(s(L), member(1, L), 300, E13),
    vx_outcome(\+ \+ memberchk(1, L), R16),
    c14_all(s(L,A14), member(A14, L), 300, E14),
    (   N =< 4 -> c14_all(s(L,A15), permutation(L, A15), 300, E15) ; E15 = skipped ),
    (   N =< 3 -> c14_all(s(L,A16), permutation(A16, L), 300, E16) ; E16 = skipped ),
    vx_first(S14, pairs_keys_values(S14, L, Idx), R17),
    vx_first(S15-T15, pairs_keys_values(Ps, S15, T15), R18),
    vx_first(S16, pairs_keys(Ps, S16), R19),
    vx_first(S17, pairs_values(Ps, S17), R20),
    vx_first(S18-T18, pairs_keys_values(S18, L, T18), R21),
    c14_all(S19-T19, pairs_keys_values(L, S19, T19), 3, R22),
    c14_flat([[R1,R2,R3,R4,R5,R6,R7,R8,R9,R10], G1, G2, G3, G4, G5,
              [E1,E2,E3,E4,E5,E6,R11,R12,R13,E7,R14,E8,E9,E10,E11,R15,E12,E13,R16,E14,E15,E16,
               R17,R18,R19,R20,R21,R22]], Rs).

% ---------------------------------------------------------------- assoc
% c14_assoc_step(+A, +Keys, +Vals, +VLast, +SortedPairs, -Rs): every
% transition from state A, each as all(Sols, Status) with cap 3.
c14_assoc_step(A, Keys, Vals, VLast, Pairs, Rs) :-
    c14_puts(Keys, Vals, A, G1),
    c14_dels(Keys, A, G2),
    c14_all(B1-(K1-V1), del_min_assoc(A, K1, V1, B1), 3, R1),
    c14_all(B2-(K2-V2), del_max_assoc(A, K2, V2, B2), 3, R2),
    c14_repls(Keys, VLast, A, G3),
    c14_rev(Pairs, [], RevPairs),
    c14_all(B3, list_to_assoc(RevPairs, B3), 3, R3),
    c14_all(B4, ord_list_to_assoc(Pairs, B4), 3, R4),
    c14_flat([G1, G2, [R1, R2], G3, [R3, R4]], Rs).

c14_puts([], _, _, []).
c14_puts([K|Ks], Vals, A, Rs) :-
    c14_puts_(Vals, K, A, R0),
    c14_puts(Ks, Vals, A, R1),
    c14_app(R0, R1, Rs).

c14_puts_([], _, _, []).
c14_puts_([V|Vs], K, A, [R|Rs]) :-
    c14_all(B, put_assoc(K, A, V, B), 3, R),
    c14_puts_(Vs, K, A, Rs).

c14_dels([], _, []).
c14_dels([K|Ks], A, [R|Rs]) :-
    c14_all(B-V, del_assoc(K, A, V, B), 3, R),
    c14_dels(Ks, A, Rs).

c14_repls([], _, _, []).
c14_repls([K|Ks], VL, A, [R|Rs]) :-
    c14_all(B-V, get_assoc(K, A, V, B, VL), 3, R),
    c14_repls(Ks, VL, A, Rs).

% c14_assoc_obs(+A, +ProbeKeys, -Rs)
c14_assoc_obs(A, Probe, [R1,R2,R3,R4,R5,R6,R7,R8,R9,R10]) :-
    vx_first(L1, assoc_to_list(A, L1), R1),
    vx_first(L2, assoc_to_keys(A, L2), R2),
    vx_first(L3, assoc_to_values(A, L3), R3),
    vx_first(K1-V1, max_assoc(A, K1, V1), R4),
    vx_first(K2-V2, min_assoc(A, K2, V2), R5),
    c14_all(K3-V3, gen_assoc(K3, A, V3), 40, R6),
    c14_all(K4-V4, (c14_mem(K4, Probe), get_assoc(K4, A, V4)), 40, R7),
    c14_all(K5-V5, (c14_mem(K5, Probe), gen_assoc(K5, A, V5)), 40, R8),
    vx_outcome(is_assoc(A), R9),
    vx_outcome(empty_assoc(A), R10).

c14_mem(X, [X|_]).
c14_mem(X, [_|Xs]) :- c14_mem(X, Xs).

% ---------------------------------------------------------------- long lists
% c14_long(+Pairs, -Rs): stability of keysort/2 and order of sort/2 beyond the
% small-slice paths of the sorting routines. Results in a fixed order.
c14_long(Ps, [R1,R2,R3,R4,R5]) :-
    vx_first(S1, keysort(Ps, S1), R1),
    vx_first(S2, sort(Ps, S2), R2),
    c14_keys(Ps, Ks),
    vx_first(S3, sort(Ks, S3), R3),
    vx_first(S4, list_to_set(Ks, S4), R4),
    c14_rev(Ps, [], Qs),
    vx_first(S5, keysort(Qs, S5), R5).

% the same battery on a list rebuilt at run time (plain list cells made by findall/3)
c14_long_copy(Ps0, Rs) :-
    findall(P, c14_mem(P, Ps0), Ps),
    c14_long(Ps, Rs).

c14_keys([], []).
c14_keys([K-_|Ps], [K|Ks]) :- c14_keys(Ps, Ks).
