% c48_files.pl — history interpreter for the C48 file-system explorer.
% Paths are Base/Name (lists of characters); every answer is reduced to
% true | false | e(ErrorName, FirstArg) so that no path travels back.

:- use_module(library(files)).
:- use_module(library(lists)).

% a name is a list of characters (taken relative to Base) or rel(Path): a path
% relative to the worker's working directory, used as it is
c48_path(_, rel(R), P) :- !, P = R.
c48_path(Base, Name, P) :- append(Base, ['/'|Name], P).

c48_out(G, R) :- catch(( call(G) -> R = true ; R = false ), E, c48_err(E, R)).

c48_err(E, R) :-
    (   nonvar(E), E = error(F, _), nonvar(F) ->
        (   atom(F) -> R = e(F, none)
        ;   F =.. [N, A|_], ( atomic(A) -> R = e(N, A) ; R = e(N, other) )
        )
    ;   R = ball
    ).

% c48_hist(Base, Ops, Obs): run the history, one outcome per operation
c48_hist(_, [], []).
c48_hist(Base, [Op|Ops], [R|Rs]) :-
    c48_op(Op, Base, R),
    c48_hist(Base, Ops, Rs).

c48_op(md(N), B, R) :- c48_path(B, N, P), c48_out(make_directory(P), R).
c48_op(mdp(N), B, R) :- c48_path(B, N, P), c48_out(make_directory_path(P), R).
c48_op(df(N), B, R) :- c48_path(B, N, P), c48_out(delete_file(P), R).
c48_op(dd(N), B, R) :- c48_path(B, N, P), c48_out(delete_directory(P), R).
c48_op(rn(N1, N2), B, R) :- c48_path(B, N1, P1), c48_path(B, N2, P2), c48_out(rename_file(P1, P2), R).
c48_op(cp(N1, N2), B, R) :- c48_path(B, N1, P1), c48_path(B, N2, P2), c48_out(file_copy(P1, P2), R).
c48_op(cr(N, K), B, R) :- c48_path(B, N, P), c48_out(c48_create(P, K), R).

c48_create(P, K) :-
    open(P, write, S, [type(binary)]),
    c48_bytes(K, S),
    close(S).

c48_bytes(0, _) :- !.
c48_bytes(K, S) :- put_byte(S, 0'x), K1 is K - 1, c48_bytes(K1, S).

% c48_query(Base, Names, Answers): the state queries for every name
c48_query(_, [], []).
c48_query(B, [N|Ns], [q(FE, DE, FS, DF, PC)|Qs]) :-
    c48_path(B, N, P),
    c48_out(file_exists(P), FE),
    c48_out(directory_exists(P), DE),
    c48_val(S, file_size(P, S), FS),
    c48_val(Fs, directory_files(P, Fs), DF),
    c48_val(C, path_canonical(P, C), PC),
    c48_query(B, Ns, Qs).

c48_val(T, G, R) :- catch(( call(G) -> R = v(T) ; R = false ), E, c48_err(E, R)).

% history followed by the queries
c48_hist_query(Base, Ops, Names, Obs, Qs) :-
    c48_hist(Base, Ops, Obs),
    c48_query(Base, Names, Qs).
