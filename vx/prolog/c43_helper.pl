% c43_helper.pl — op/3 history execution and observation for C43.
% Consulted under the default operator table; case texts refer to the
% argument alphabets by index so that no tracked operator name ever appears
% in a case text (which is read under the table being explored).
:- use_module(library(lists)).
:- use_module(library(charsio)).

c43_p(1, 0).    c43_p(2, 1).    c43_p(3, 200). c43_p(4, 700). c43_p(5, 1200).
c43_p(6, 1201). c43_p(7, -1).   c43_p(8, foo). c43_p(9, _).
c43_p(10, 1000). c43_p(11, 1001). c43_p(12, 999).

c43_t(1, xfx). c43_t(2, xfy). c43_t(3, yfx). c43_t(4, fy). c43_t(5, fx).
c43_t(6, xf).  c43_t(7, yf).  c43_t(8, bad). c43_t(9, _). c43_t(10, 7).

c43_n(1, foo). c43_n(2, bar). c43_n(3, -). c43_n(4, ','). c43_n(5, '|').
c43_n(6, []).  c43_n(7, {}).  c43_n(8, 7). c43_n(9, _).
c43_n(10, [foo,bar]). c43_n(11, [foo|_]). c43_n(12, [foo,',']). c43_n(13, [bar,foo]). c43_n(14, [foo,7]).

c43_tracked([foo, bar, -, ',', '|', [], {}]).

% tracked part of the full enumeration (in enumeration order) + number of other entries
c43_state(S, Other) :-
    findall(op(P,T,N), current_op(P,T,N), All),
    c43_tracked(Tr),
    c43_split(All, Tr, S, 0, Other).

c43_split([], _, [], O, O).
c43_split([E|Es], Tr, S, O0, O) :-
    E = op(_,_,N),
    (   memberchk(N, Tr) -> S = [E|S1], O1 = O0
    ;   S = S1, O1 is O0 + 1
    ),
    c43_split(Es, Tr, S1, O1, O).

c43_err(E, R) :- ( nonvar(E), E = error(F, _) -> R = error(F) ; R = ball(E) ).

c43_apply(t(I,J,K), Out) :-
    c43_p(I, P), c43_t(J, T), c43_n(K, N),
    catch(( op(P, T, N) -> Out = true ; Out = false ), E, c43_err(E, Out)).

c43_steps([], []).
c43_steps([T|Ts], [step(Out, S, Other)|Rs]) :-
    c43_apply(T, Out),
    c43_state(S, Other),
    c43_steps(Ts, Rs).

% restore the default entries of the tracked names. The table is also put in a
% canonical HIDDEN condition: op(0,T,N) leaves a priority-0 entry carrying the
% removed specifier in the op directory, so the same zero entries (xfx, fy, xf
% for foo and bar; xf for -) are written here, whatever was removed before.
c43_restore(BarDefault) :-
    c43_clear(foo), c43_clear(bar), c43_clear(-), c43_clear('|'),
    c43_zero(foo), c43_zero(bar),
    catch(op(0, xf, -), _, true),
    catch(op(200, fy, -), _, true),
    catch(op(500, yfx, -), _, true),
    (   BarDefault = op(P, T) -> catch(op(P, T, '|'), _, true)
    ;   catch(op(0, xfy, '|'), _, true)
    ).

c43_zero(N) :-
    catch(op(0, xfx, N), _, true),
    catch(op(0, fy, N), _, true),
    catch(op(0, xf, N), _, true).

c43_clear(N) :-
    findall(T, current_op(_, T, N), Ts),
    c43_clear_(Ts, N).
c43_clear_([], _).
c43_clear_([T|Ts], N) :- catch(op(0, T, N), _, true), c43_clear_(Ts, N).

% c43_hist(Transitions, BarDefault, Steps, Final): run a history from the
% (restored) default table, observe after every step, restore, observe again.
c43_hist(Ts, BarDefault, Steps, final(S, Other)) :-
    c43_restore(BarDefault),          % canonical start, whatever ran before on this machine
    c43_steps(Ts, Steps),
    c43_restore(BarDefault),
    c43_state(S, Other).

% c43_inspect: replay a history, then run the current_op pattern queries and
% the parse probes in the reached state, then restore.
c43_inspect(Ts, BarDefault, PIdx, Probes, insp(Steps, All, Qs, Parses), final(S, Other)) :-
    c43_restore(BarDefault),
    c43_steps(Ts, Steps),
    findall(op(P,T,N), current_op(P,T,N), All),
    c43_queries(PIdx, Qs),
    c43_probes(Probes, Parses),
    c43_restore(BarDefault),
    c43_state(S, Other).

% all instantiation patterns: priority from PIdx (indices into c43_p) or unbound (0),
% specifier 1..7 or 0, name = tracked name 1..7 or 0; all-unbound excluded
c43_queries(PIdx, Qs) :-
    findall(q(I,J,K,Sols),
            ( member(I, [0|PIdx]), member(J, [0,1,2,3,4,5,6,7]), member(K, [0,1,2,3,4,5,6,7]),
              \+ (I == 0, J == 0, K == 0),
              c43_arg(p, I, P), c43_arg(t, J, T), c43_arg(n, K, N),
              catch(findall(op(P,T,N), current_op(P,T,N), Sols), E, c43_err(E, Sols)) ),
            Qs).

c43_arg(_, 0, _) :- !.
c43_arg(p, I, P) :- c43_p(I, P).
c43_arg(t, J, T) :- c43_t(J, T).
c43_arg(n, K, N) :- c43_n(K, N).

c43_probes([], []).
c43_probes([Cs|Css], [R|Rs]) :-
    c45ish_chars(Cs, Chars),
    catch(( read_term_from_chars(Chars, T, []) -> R = ok(T) ; R = failed ), E, c43_err(E, R)),
    c43_probes(Css, Rs).

c45ish_chars([], []).
c45ish_chars([C|Cs], [Ch|Chs]) :- char_code(Ch, C), c45ish_chars(Cs, Chs).
