% helpers for C16 (consulted into module user by vx/props/C16.py)
:- use_module(library(lists)).
:- use_module(library(charsio)).
:- use_module(library(format)).
:- use_module(library(dcgs)).

c16_try(G, N, R) :- catch(( call(G) -> R = ok(N) ; R = failed ), error(F, _), R = e(F)).

c16_codes([], []).
c16_codes([C|Cs], [D|Ds]) :- char_code(C, D), c16_codes(Cs, Ds).

% one text through the three entry points
c16_one(Chars, r(RC, RD, RR)) :-
    c16_try(number_chars(N1, Chars), N1, RC),
    c16_codes(Chars, Codes),
    c16_try(number_codes(N2, Codes), N2, RD),
    append(Chars, " .", T),
    c16_try(read_term_from_chars(T, N3, []), N3, RR).

c16_many([], []).
c16_many([S|Ss], [R|Rs]) :- c16_one(S, R), c16_many(Ss, Rs).

% number -> text -> number through every conversion
c16_back(A, [R1, R2, R3, R4, R5]) :-
    c16_try(( number_codes(A, Cs), number_codes(B1, Cs) ), B1, R1),
    c16_try(( number_chars(A, Ch), number_chars(B2, Ch) ), B2, R2),
    c16_try(( write_term_to_chars(A, [quoted(true)], T), append(T, " .", T2), read_term_from_chars(T2, B3, []) ), B3, R3),
    c16_try(( phrase(format_("~w", [A]), F1), append(F1, " .", F2), read_term_from_chars(F2, B4, []) ), B4, R4),
    c16_try(( phrase(format_("~q", [A]), G1), append(G1, " .", G2), read_term_from_chars(G2, B5, []) ), B5, R5).

% a double built exactly as M * 2^E, its round trips, and its decimal spellings read back
c16_dbl(M, E, Spellings, r(A, Back, Reads)) :-
    A is M * 2.0 ** E,
    c16_back(A, Back),
    c16_spell(Spellings, Reads).

c16_spell([], []).
c16_spell([S|Ss], [RC-RR|Rs]) :-
    c16_try(number_chars(N1, S), N1, RC),
    append(S, " .", T),
    c16_try(read_term_from_chars(T, N2, []), N2, RR),
    c16_spell(Ss, Rs).

c16_num(Expr, r(A, Back)) :- A is Expr, c16_back(A, Back).
