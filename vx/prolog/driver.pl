% driver.pl — in-machine driver for the pworker transport (DESIGN.md §2.2).
%
% vx(Chars): Chars is the text of one command term. The command is read with
% read_term_from_chars/3 (so a syntax error in a case is an ordinary caught
% error), executed, and its observations are printed on user_output as
% records framed by control characters:
%     \x1e\ <kind> <payload> \x1f\
% Terms are printed by an emitter that depends only on functor/3, arg/3,
% atom_chars/2, put_char/1 and write/1 of numbers (prefix encoding):
%     v<n>;            variable number n (first occurrence order in the record)
%     i<digits>;       integer
%     f<text>;         float (shortest round-trip text as printed by write/1)
%     r<num>/<den>;    rational
%     a<len>:<chars>   atom, len = number of characters
%     c<arity>;<atom><args...>  compound
%     l<n>;<elems...><tail>     list cells (n >= 1) with tail term
%     y;               a cyclic term (not expanded)

:- use_module(library(lists)).
:- use_module(library(charsio)).
:- use_module(library(iso_ext)).
:- use_module(library(error)).
:- use_module(library(arithmetic)).

vx(Chars) :-
    catch(vx_read(Chars, Cmd, VNs), E, (vx_rec_term('X', E), Cmd = '$vx_none')),
    ( Cmd == '$vx_none' -> true ; vx_dispatch(Cmd, VNs) ),
    flush_output(user_output),
    !.
vx(_) :- flush_output(user_output).

vx_read(Chars, Cmd, VNs) :-
    read_term_from_chars(Chars, Cmd, [variable_names(VNs)]).

% commands
vx_dispatch(Cmd, _) :- var(Cmd), !, vx_rec_term('X', instantiation).
vx_dispatch(g(G), VNs) :- !, vx_solve(G, VNs, 64).
vx_dispatch(g(G, Cap), VNs) :- !, vx_solve(G, VNs, Cap).
vx_dispatch(multi(Gs), VNs) :- !, vx_multi(Gs, VNs).
vx_dispatch(quiet(G), _) :- !, ( catch(G, E, (vx_rec_term('X', E), Thrown = true)) -> ( Thrown == true -> true ; vx_rec_atom('E', done) ) ; vx_rec_atom('E', failed) ).
vx_dispatch(G, VNs) :- vx_solve(G, VNs, 64).

% multi([G1,G2,...]): each goal solved independently (no bindings shared).
vx_multi([], _).
vx_multi([G|Gs], VNs) :-
    \+ \+ vx_solve(G, VNs, 64),
    vx_multi(Gs, VNs).

vx_solve(G, VNs, Cap) :-
    bb_put(vx_n, 0),
    catch(vx_loop(G, VNs, Cap, St), Ex, St = exc(Ex)),
    vx_status(St).

vx_loop(G, VNs, Cap, St) :-
    call(G),
    vx_solution(VNs),
    bb_get(vx_n, N0), N is N0 + 1, bb_put(vx_n, N),
    N >= Cap, !,
    St = cap.
vx_loop(_, _, _, done).

vx_status(done) :- vx_rec_atom('E', done).
vx_status(cap) :- vx_rec_atom('E', cap).
vx_status(exc(Ex)) :- vx_rec_term('X', Ex).

% one solution: the list of Name=Value pairs
vx_solution(VNs) :- vx_rec_term('S', VNs).

vx_rec_atom(Kind, A) :-
    put_char('\x1e\'), put_char(Kind), put_char(' '), write(A), put_char('\x1f\').

vx_rec_term(Kind, T) :-
    put_char('\x1e\'), put_char(Kind), put_char(' '),
    vx_emit_top(T),
    put_char('\x1f\').

% The emitter never calls acyclic_term/1 (on the pinned tree it corrupts
% terms that contain strings); cyclic terms are cut off by a depth budget.
vx_emit_top(T) :-
    catch(( vx_depth_ok(T, 400) ->
              term_variables(T, Vs), vx_emit(T, Vs)
          ;   put_char(y), put_char(;) ),
          vx_too_deep, (put_char(y), put_char(;))).

% succeeds iff T has nesting depth (through non-tail arguments) =< D and no
% list spine longer than 100000 cells.
vx_depth_ok(T, _) :- var(T), !.
vx_depth_ok(T, _) :- atomic(T), !.
vx_depth_ok(_, D) :- D =< 0, !, fail.
vx_depth_ok(T, D) :- T = [_|_], !,
    D1 is D - 1,
    vx_spine_ok(T, 0, D1).
vx_depth_ok(T, D) :-
    functor(T, _, A),
    D1 is D - 1,
    vx_args_ok(1, A, T, D1).

vx_spine_ok(T, N, D) :-
    ( nonvar(T), T = [H|T1] ->
        N < 100000,
        vx_depth_ok(H, D),
        N1 is N + 1,
        vx_spine_ok(T1, N1, D)
    ;   vx_depth_ok(T, D)
    ).

vx_args_ok(I, A, _, _) :- I > A, !.
vx_args_ok(I, A, T, D) :- arg(I, T, X), vx_depth_ok(X, D), I1 is I + 1, vx_args_ok(I1, A, T, D).

vx_emit(T, Vs) :- var(T), !, vx_var_index(Vs, T, 0, N), put_char(v), write(N), put_char(;).
vx_emit(T, _) :- integer(T), !, put_char(i), write(T), put_char(;).
vx_emit(T, _) :- float(T), !, put_char(f), write(T), put_char(;).
vx_emit(T, _) :- number(T), !, % rational
    rational_numerator_denominator(T, N, D),
    put_char(r), write(N), put_char(/), write(D), put_char(;).
vx_emit(T, _) :- atom(T), !, vx_emit_atom(T).
vx_emit(T, Vs) :- T = [_|_], !,
    vx_list_cells(T, 0, N, Tail),
    put_char(l), write(N), put_char(;),
    vx_emit_elems(T, N, Vs),
    vx_emit(Tail, Vs).
vx_emit(T, Vs) :-
    functor(T, F, A),
    put_char(c), write(A), put_char(;),
    vx_emit_atom(F),
    vx_emit_args(1, A, T, Vs).

% atom_chars/2 fails on the atoms inside some system-built error terms of
% the pinned tree (e.g. the argument of syntax_error/1); fall back to
% atom_length/2 + write/1 there so that the transport never loses a record.
vx_emit_atom(A) :-
    (   atom_chars(A, Cs) ->
        length(Cs, L),
        put_char(a), write(L), put_char(:),
        vx_put_chars(Cs)
    ;   catch(write_term_to_chars(A, [], Cs1), _, fail) ->
        % length and text taken from the same character list, so that the
        % record stays parsable whatever the cell really holds
        length(Cs1, L1),
        put_char(a), write(L1), put_char(:),
        vx_put_chars(Cs1)
    ;   put_char(a), write(1), put_char(:), put_char(?)
    ).

vx_put_chars([]).
vx_put_chars([C|Cs]) :- put_char(C), vx_put_chars(Cs).

vx_list_cells(T, N0, N, Tail) :-
    ( nonvar(T), T = [_|T1] -> N1 is N0 + 1, vx_list_cells(T1, N1, N, Tail)
    ; N = N0, Tail = T ).

vx_emit_elems(_, 0, _) :- !.
vx_emit_elems([H|T], N, Vs) :- vx_emit(H, Vs), N1 is N - 1, vx_emit_elems(T, N1, Vs).

vx_emit_args(I, A, _, _) :- I > A, !.
vx_emit_args(I, A, T, Vs) :- arg(I, T, X), vx_emit(X, Vs), I1 is I + 1, vx_emit_args(I1, A, T, Vs).

vx_var_index([V|Vs], T, I, N) :-
    ( V == T -> N = I ; I1 is I + 1, vx_var_index(Vs, T, I1, N) ).

% helpers available to cases ------------------------------------------------

% emit an extra observation record from inside a goal
vx_obs(T) :- vx_rec_term('O', T).

% outcome of a goal as a term: true / false / error(Formal)
vx_outcome(G, R) :-
    catch(( call(G) -> R = true ; R = false ), E, vx_err(E, R)).

vx_err(E, R) :- ( nonvar(E), E = error(F, _) -> R = error(F) ; R = ball(E) ).

% first solution's instance of Template, or false / error(F)
vx_first(Template, G, R) :-
    catch(( call(G) -> R = sol(Template) ; R = false ), E, vx_err(E, R)).

% all solutions (capped) with a terminal status
vx_all(Template, G, Cap, Sols, St) :-
    bb_put(vx_all_acc, []), bb_put(vx_all_n, 0),
    catch(vx_all_loop(Template, G, Cap, St), E, vx_err(E, St)),
    bb_get(vx_all_acc, Rev), reverse(Rev, Sols).

vx_all_loop(Template, G, Cap, St) :-
    call(G),
    bb_get(vx_all_acc, Acc), bb_put(vx_all_acc, [Template|Acc]),
    bb_get(vx_all_n, N0), N is N0 + 1, bb_put(vx_all_n, N),
    N >= Cap, !, St = cap.
vx_all_loop(_, _, _, done).

% markers seen by the worker's output callback (fault / interrupt arming)
% (one write/1 call, so that the marker reaches the callback in one piece)
vx_mark(M) :- vx_marker(M, A), write(A), flush_output(user_output).
vx_marker('ARM', '\x1d\ARM\x1d\').
vx_marker('DISARM', '\x1d\DISARM\x1d\').
vx_marker('W0', '\x1d\W0\x1d\').
vx_marker('W1', '\x1d\W1\x1d\').

% fault / interrupt enumeration (C30, C31): the counters are armed by the
% worker when it sees the ARM marker and disarmed at DISARM; W0 / W1 bracket
% the workload proper. The result is reported with O records.
vx_flt(G) :-
    vx_mark('ARM'),
    catch(( vx_mark('W0'), call(G), vx_mark('W1') ), B, true),
    vx_mark('DISARM'),
    ( var(B) -> vx_obs(completed) ; vx_obs(ball(B)) ).

% the same with all solutions of G collected as instances of T
vx_flt(T, G) :-
    vx_mark('ARM'),
    catch(( vx_mark('W0'), findall(T, G, L), vx_mark('W1') ), B, true),
    vx_mark('DISARM'),
    ( var(B) -> vx_obs(completed(L)) ; vx_obs(ball(B)) ).
