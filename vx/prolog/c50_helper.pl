% c50_helper.pl — in-memory vs stream writing for C50 (needs c15_helper.pl and c45_helper.pl).
:- use_module(library(lists)).
:- use_module(library(charsio)).

% option sets by index; V is the variable_names list to add (or [])
c50_opts(1, VN, Os) :- c50_vn(VN, [], Os).
c50_opts(2, VN, Os) :- c50_vn(VN, [quoted(true)], Os).
c50_opts(3, VN, Os) :- c50_vn(VN, [ignore_ops(true)], Os).
c50_opts(4, VN, Os) :- c50_vn(VN, [quoted(true), max_depth(3)], Os).
c50_opts(5, VN, Os) :- c50_vn(VN, [numbervars(true)], Os).
c50_opts(6, VN, Os) :- c50_vn(VN, [quoted(true), ignore_ops(true), numbervars(true), double_quotes(true)], Os).
c50_opts(7, VN, Os) :- c50_vn(VN, [max_depth(1)], Os).

c50_vn([], Os, Os) :- !.
c50_vn(VN, Os, [variable_names(VN)|Os]).

% names X1, X2, ... for all variables of T
c50_names(T, VN) :- term_variables(T, Vs), c50_names_(Vs, 1, VN).
c50_names_([], _, []).
c50_names_([V|Vs], I, [N=V|VN]) :-
    number_codes(I, Cs), atom_codes(N, [0'X|Cs]),
    I1 is I + 1,
    c50_names_(Vs, I1, VN).

c50_err(E, R) :- ( nonvar(E), E = error(F, _), nonvar(F) -> functor(F, N, _), R = err(N) ; R = err(ball) ).

% c50_write(Desc, Path, Idxs, Named, Rs): Rs = texts (char lists) by write_term_to_chars/3;
% the same terms/options are written with write_term/3 to the file Path, each followed by \x2\.
c50_write(D, Path, Idxs, Named, Rs) :-
    c15_build(D, T),
    ( Named == true -> c50_names(T, VN) ; VN = [] ),
    c50_mem(Idxs, T, VN, Rs),
    open(Path, write, S),
    catch(c50_stream(Idxs, T, VN, S), E, (close(S), throw(E))),
    close(S).

c50_mem([], _, _, []).
c50_mem([I|Is], T, VN, [R|Rs]) :-
    c50_opts(I, VN, Os),
    catch(( write_term_to_chars(T, Os, Cs) -> R = Cs ; R = failed ), E, c50_err(E, R)),
    c50_mem(Is, T, VN, Rs).

c50_stream([], _, _, _).
c50_stream([I|Is], T, VN, S) :-
    c50_opts(I, VN, Os),
    catch(( write_term(S, T, Os) -> true ; put_char(S, '\x4\') ), E, (c50_err(E, err(N)), put_char(S, '\x3\'), write(S, N))),
    put_char(S, '\x2\'),
    c50_stream(Is, T, VN, S).
