% helpers for C05 (consulted into module user by vx/props/C05.py, after the
% generated fact tables c05s/2, c05t/2, c05m/2, c05v/2)
:- use_module(library(lists)).
:- use_module(library(assoc)).
:- use_module(library(format)).
:- use_module(library(dcgs)).
:- use_module(library(charsio)).
:- use_module(library(between)).
:- use_module(library(dif)).
:- use_module(library(iso_ext)).

:- dynamic(c05d/2).
:- dynamic(c05e/2).
:- dynamic(c05r/1).

% all solutions (at most 4) of G as instances of T, or e(Formal)
c05_o(T, G, R) :-
    catch(( findall(T, c05_lim(G), L), R = L ), error(F, _), R = e(F)).

c05_lim(G) :- bb_put(c05_cnt, 0), call(G), bb_get(c05_cnt, N0), N is N0 + 1, bb_put(c05_cnt, N),
    ( N >= 4 -> ! ; true ).

% c05_case(Name, Class, I, X, Y, Template, Goal): Class = all | small (0 =< V =< 255)
c05_case(unify, all, _, X, Y, t, X = Y).
c05_case(not_unify, all, _, X, Y, t, X \= Y).
c05_case(identical, all, _, X, Y, t, X == Y).
c05_case(not_identical, all, _, X, Y, t, X \== Y).
c05_case(uwoc, all, _, X, Y, t, unify_with_occurs_check(X, Y)).
c05_case(compare, all, _, X, Y, O, compare(O, X, Y)).
c05_case(sort, all, _, X, Y, L, sort([X, Y, X], L)).
c05_case(keysort, all, _, X, Y, L, keysort([X-a, Y-b, X-c], L)).
c05_case(keysort_mixed, all, _, X, Y, L, keysort([Y-1, 0-2, X-3], L)).
c05_case(sort_mixed, all, _, X, Y, L, sort([1.0, c, Y, X, 0, f(X)], L)).
c05_case(term_lt, all, _, X, Y, t, X @< Y).
c05_case(term_le, all, _, X, Y, t, X @=< Y).
c05_case(term_gt, all, _, X, Y, t, X @> Y).
c05_case(term_ge, all, _, X, Y, t, X @>= Y).
c05_case(nested_unify, all, _, X, Y, t, f(X, g(X)) = f(Y, g(Y))).
c05_case(nested_identical, all, _, X, Y, t, [X|T] == [Y|T]).
c05_case(arith_eq, all, _, X, Y, t, X =:= Y).
c05_case(arith_sub, all, _, X, Y, Z, Z is X - Y).
c05_case(arith_succ, all, _, X, _, Z, Z is X + 1).
c05_case(is_unify, all, _, X, Y, t, X is Y).
c05_case(integer, all, _, X, _, t, integer(X)).
c05_case(number, all, _, X, _, t, number(X)).
c05_case(atomic, all, _, X, _, t, atomic(X)).
c05_case(callable, all, _, X, _, t, callable(X)).
c05_case(ground, all, _, X, _, t, ground(X)).
c05_case(dif, all, _, X, Y, t, dif(X, Y)).
c05_case(succ_fwd, all, _, X, _, S, succ(X, S)).
c05_case(succ_bwd, all, _, X, _, P, succ(P, X)).
c05_case(between_bounds, all, _, X, Y, Z, between(X, Y, Z)).
c05_case(between_test, all, _, X, Y, t, between(X, Y, X)).
c05_case(number_codes, all, _, X, _, Cs, number_codes(X, Cs)).
c05_case(number_chars, all, _, X, _, Cs, number_chars(X, Cs)).
c05_case(number_chars_back, all, _, X, Y, t, (number_chars(X, Cs), number_chars(Z, Cs), Z == Y)).
c05_case(atom_chars, all, _, X, _, Cs, atom_chars(X, Cs)).
c05_case(atom_length_of, all, _, X, _, L, atom_length(X, L)).
c05_case(format_d, all, _, X, Y, Cs, phrase(format_("~d ~w ~a", [X, Y, x]), Cs)).
c05_case(write_chars, all, _, X, _, Cs, write_term_to_chars(X, [], Cs)).
c05_case(static_first, all, _, X, _, W, c05s(X, W)).
c05_case(static_second, all, _, X, _, K, c05t(K, X)).
c05_case(static_multi, all, _, X, _, W, c05m(X, W)).
c05_case(static_value, all, I, _, Y, t, c05v(I, Y)).
c05_case(dyn_first, all, _, X, Y, W,
         ( retractall(c05d(_, _)), assertz(c05d(X, first)), assertz(c05d(zz, other)), assertz(c05d(X, again)), c05d(Y, W) )).
c05_case(dyn_second, all, _, X, Y, K,
         ( retractall(c05e(_, _)), assertz(c05e(k1, X)), assertz(c05e(k2, zz)), c05e(K, Y) )).
c05_case(dyn_retract, all, _, X, Y, t,
         ( retractall(c05d(_, _)), assertz(c05d(X, a)), retract(c05d(Y, a)) )).
c05_case(dyn_clause, all, _, X, Y, B,
         ( retractall(c05d(_, _)), assertz((c05d(X, q) :- true)), clause(c05d(Y, _), B) )).
c05_case(dyn_body, all, _, X, Y, t,
         ( retractall(c05d(_, _)), assertz((c05d(Z, q) :- Z == X)), c05d(Y, q) )).
c05_case(bb, all, _, X, Y, t, ( bb_put(c05k, X), bb_get(c05k, Z), Z == Y )).
c05_case(findall_copy, all, _, X, Y, t, ( findall(X, true, [Z]), Z == Y, Z = Y )).
c05_case(copy_term, all, _, X, Y, t, ( copy_term(f(X), f(Z)), Z == Y )).
c05_case(assoc_get, all, _, X, Y, Val, ( list_to_assoc([X-v], A), get_assoc(Y, A, Val) )).
c05_case(assoc_put, all, _, X, Y, L,
         ( list_to_assoc([], A0), put_assoc(X, A0, 1, A1), put_assoc(Y, A1, 2, A2), assoc_to_list(A2, L) )).
c05_case(memberchk, all, _, X, Y, t, memberchk(X, [a, Y])).
c05_case(member, all, _, X, Y, t, member(X, [Y, Y])).
c05_case(list_to_set, all, _, X, Y, L, list_to_set([X, Y, X], L)).
c05_case(nth0_find, all, _, X, Y, N, nth0(N, [a, Y, b], X)).
c05_case(univ, all, _, X, Y, t, ( T =.. [f, X], T == f(Y) )).
c05_case(arg_index, all, _, X, _, A, arg(X, f(a, b, c, d, e, f, g, h), A)).
c05_case(nth0_index, all, _, X, _, E, nth0(X, [a, b, c], E)).
c05_case(nth1_index, all, _, X, _, E, nth1(X, [a, b, c], E)).
c05_case(length_test, all, _, X, _, t, length([a, b], X)).
c05_case(atom_length_test, all, _, X, _, t, atom_length(abc, X)).
c05_case(char_code, all, _, X, _, C, char_code(C, X)).
c05_case(functor_test, all, _, X, _, t, functor(g(a, b), g, X)).
c05_case(functor_make, small, _, X, _, T, functor(T, f, X)).
c05_case(length_make, small, _, X, _, N, ( length(L, X), length(L, N) )).
c05_case(numlist, small, _, X, _, L, ( numlist(1, X, L0), length(L0, L) )).
c05_case(between_count, small, _, X, _, N, ( findall(Z, between(1, X, Z), Zs), length(Zs, N) )).
c05_case(sub_atom, small, _, X, _, S, sub_atom(abcdef, X, 1, _, S)).
c05_case(nth0_make, small, _, X, _, E, ( length(L, 300), nth0(X, L, E0), E0 = hit, nth0(X, L, E) )).

c05_applies(all, _).
c05_applies(small, small).

% every applicable context except those named in Excl
c05_consume(I, Cls, X, Y, Excl, Rs) :-
    findall(Name-R,
            ( c05_case(Name, C, I, X, Y, T, G), c05_applies(C, Cls), \+ memberchk(Name, Excl), c05_o(T, G, R) ),
            Rs).

% one context only (used to attribute a panic to a context)
c05_consume_only(I, Cls, X, Y, Name, Rs) :-
    findall(Name-R,
            ( c05_case(Name, C, I, X, Y, T, G), c05_applies(C, Cls), c05_o(T, G, R) ),
            Rs).

c05_names(Cls, Names) :- findall(Name, ( c05_case(Name, C, _, _, _, _, _), c05_applies(C, Cls) ), Names).
