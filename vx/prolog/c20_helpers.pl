% helpers for C20 (strings vs. the character lists they denote)
:- use_module(library(dcgs)).
:- use_module(library(lists)).
:- use_module(library(charsio)).
:- dynamic(vx_ts_tmp/2).
:- dynamic(c20_tmp/1).

% all suffixes obtained by [_|T] destructuring (stops at a non-list tail)
c20_sfx(S, [S|R]) :- nonvar(S), S = [_|T], !, c20_sfx(T, R).
c20_sfx(S, [S]).

% relation of a subject to a (near-)twin: r(Eq, Cmp, CmpRev, Unify, NotUnify)
c20_rel(S, W, r(E, O, P, U, N)) :-
    ( S == W -> E = 1 ; E = 0 ),
    compare(O, S, W),
    compare(P, W, S),
    ( \+ \+ S = W -> ( \+ \+ ( S = W, S == W ) -> U = 1 ; U = neq ) ; U = 0 ),
    ( S \= W -> N = 1 ; N = 0 ).

c20_first_two([A,B|_], A, B).
