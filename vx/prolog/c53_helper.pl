% c53_helper.pl — observation battery for property C53 (vx/props/C53.py).
% The order of the results is a contract with C53.py (battery_plan/…).

c53_all(T, G, all(Sols, St)) :- vx_all(T, G, 3, Sols, St).

c53_each([], _, _, []).
c53_each([X|Xs], Kind, G, [R|Rs]) :-
    c53_one(Kind, X, G, R),
    c53_each(Xs, Kind, G, Rs).

c53_one(neighbours, V, G, R) :- c53_all(N, neighbours(V, G, N), R).
c53_one(neighbors, V, G, R) :- c53_all(N, neighbors(V, G, N), R).
c53_one(reachable, V, G, R) :- c53_all(N, reachable(V, G, N), R).
c53_one(del_vertices, Vs, G, R) :- c53_all(NG, del_vertices(G, Vs, NG), R).
c53_one(add_vertices, Vs, G, R) :- c53_all(NG, add_vertices(G, Vs, NG), R).
c53_one(add_edges, Es, G, R) :- c53_all(NG, add_edges(G, Es, NG), R).
c53_one(del_edges, Es, G, R) :- c53_all(NG, del_edges(G, Es, NG), R).
c53_one(compose, H, G, R) :- c53_all(NG, compose(G, H, NG), R).
c53_one(compose_rev, H, G, R) :- c53_all(NG, compose(H, G, NG), R).
c53_one(ugraph_union, H, G, R) :- c53_all(NG, ugraph_union(G, H, NG), R).
c53_one(build, Vs-Es, _, R) :- c53_all(NG, vertices_edges_to_ugraph(Vs, Es, NG), R).

% c53_battery(+G, +Vs, +VSubs, +ESubs, -Rs)
c53_battery(G, Vs, VSubs, ESubs, [R1,R2,R3,R4,R5,R6,R7,R8,R9,N1,N2,N3,D1,A1,A2,D2]) :-
    c53_all(X1, vertices(G, X1), R1),
    c53_all(X2, edges(G, X2), R2),
    c53_all(X3, transpose_ugraph(G, X3), R3),
    c53_all(X4, transitive_closure(G, X4), R4),
    c53_all(X5, complement(G, X5), R5),
    c53_all(X6, top_sort(G, X6), R6),
    c53_all(X7, top_sort(G, X7, [end]), R7),
    c53_all(S8-X8, connect_ugraph(G, S8, X8), R8),
    c53_all(X9, top_sort(G, [end], X9), R9),
    c53_each(Vs, neighbours, G, N1),
    c53_each(Vs, neighbors, G, N2),
    c53_each(Vs, reachable, G, N3),
    c53_each(VSubs, del_vertices, G, D1),
    c53_each(VSubs, add_vertices, G, A1),
    c53_each(ESubs, add_edges, G, A2),
    c53_each(ESubs, del_edges, G, D2).

% c53_pairs(+G, +Hs, -Rs): compose both ways and union with every H
c53_pairs(G, Hs, [C1,C2,U]) :-
    c53_each(Hs, compose, G, C1),
    c53_each(Hs, compose_rev, G, C2),
    c53_each(Hs, ugraph_union, G, U).

% c53_builds(+Inputs, -Rs): Inputs = [Vs-Es, ...]
c53_builds(Inputs, Rs) :- c53_each(Inputs, build, none, Rs).
