% c17_helper.pl — reader robustness loop for C17 (and the file-reading leg of C50).
:- use_module(library(lists)).

% c17_run(Path, Codes, Cap, Rs): write Codes to the file Path, then read it
% with read_term/2 until end_of_file or Cap reads. Rs is the list of read
% classes: t (a term), s(N) (the term sentinel(N)), eof, se(Kind) (syntax error),
% oe(Formal) (any other error), ball(B); a trailing `cap` if the cap was hit.
c17_run(Path, Codes, Cap, Rs) :-
    open(Path, write, S),
    c17_put(Codes, S),
    close(S),
    c17_read_file(Path, Cap, Rs).

c17_read_file(Path, Cap, Rs) :-
    open(Path, read, R),
    catch(c17_loop(R, Cap, Rs0), E, Rs0 = [loop_ball(E)]),
    close(R),
    Rs = Rs0.

c17_put([], _).
c17_put([C|Cs], S) :- char_code(Ch, C), put_char(S, Ch), c17_put(Cs, S).

c17_loop(_, 0, [cap]) :- !.
c17_loop(R, N, [X|Xs]) :-
    catch(( read_term(R, T, []) -> c17_cls(T, X) ; X = failed ), E, c17_err(E, X)),
    (   X == eof -> Xs = []
    ;   N1 is N - 1, c17_loop(R, N1, Xs)
    ).

c17_cls(T, t) :- var(T), !.
c17_cls(end_of_file, eof) :- !.
c17_cls(sentinel(N), s(N)) :- integer(N), !.
c17_cls(_, t).

c17_err(E, X) :-
    (   nonvar(E), E = error(F, _), nonvar(F) ->
        ( F = syntax_error(K) -> ( atom(K) -> X = se(K) ; X = se(other) ) ; X = oe(F) )
    ;   X = ball(E)
    ).

% operator-table variants: c17_ops(List) applies op(P,T,NameCodes) in order
c17_ops([]).
c17_ops([op(P,T,Cs)|Os]) :- atom_codes(N, Cs), op(P, T, N), c17_ops(Os).
