% helpers for C13 (compare/3 and the standard order predicates)
:- dynamic(vx_ts_tmp/2).

% c13(A, B, r(O, P, Bits, Modes)):
%   O, P    results of compare/3 in both argument orders
%   Bits    truth of  @<  @=<  @>  @>=  ==  \==  (compiled inline)
%   Modes   truth of compare(<,A,B), compare(=,A,B), compare(>,A,B)
c13(A, B, r(O, P, [B1,B2,B3,B4,B5,B6], [M1,M2,M3])) :-
    compare(O, A, B),
    compare(P, B, A),
    ( A @< B -> B1 = 1 ; B1 = 0 ),
    ( A @=< B -> B2 = 1 ; B2 = 0 ),
    ( A @> B -> B3 = 1 ; B3 = 0 ),
    ( A @>= B -> B4 = 1 ; B4 = 0 ),
    ( A == B -> B5 = 1 ; B5 = 0 ),
    ( A \== B -> B6 = 1 ; B6 = 0 ),
    ( compare(<, A, B) -> M1 = 1 ; M1 = 0 ),
    ( compare(=, A, B) -> M2 = 1 ; M2 = 0 ),
    ( compare(>, A, B) -> M3 = 1 ; M3 = 0 ).

% full comparison matrix of a list of terms (row-major list of lists)
c13_matrix(Ts, M) :- c13_rows(Ts, Ts, M).
c13_rows([], _, []).
c13_rows([A|As], Ts, [R|Rs]) :- c13_row(Ts, A, R), c13_rows(As, Ts, Rs).
c13_row([], _, []).
c13_row([B|Bs], A, [O|Os]) :- compare(O, A, B), c13_row(Bs, A, Os).
