% c34_terms.pl — large-term builders and operations for the C34 explorer.
% Everything here is iterative on the Prolog side (tail calls); the deep
% recursion under test is the one inside the Rust builtins.

:- use_module(library(lists)).
:- use_module(library(charsio)).
:- use_module(library(iso_ext)).
:- use_module(library(format)).
:- use_module(library(dcgs)).
:- use_module(library(files)).

:- dynamic(c34_fact/1).
:- discontiguous(c34_build/4).
:- discontiguous(c34_leaf/2).
:- discontiguous(c34_size/3).
:- discontiguous(c34_op/6).

% c34_build(Shape, N, Leaf, T)
c34_build(list, N, Leaf, T) :- c34_list(N, Leaf, T).          % [1,...,N|Leaf]  (Leaf = [] for the ground term)
c34_build(rdeep, N, Leaf, T) :- c34_wrap(N, Leaf, T).         % f(f(...Leaf...))
c34_build(ldeep, N, Leaf, T) :- c34_plus(N, Leaf, T).         % ((Leaf+1)+1)+...
c34_build(nest, N, Leaf, T) :- c34_nest(N, Leaf, T).          % [[[...Leaf...]]]
c34_build(wide, N, Leaf, T) :- D is N // 255, c34_widen(D, Leaf, T).   % g(a,...,a,g(...)) 255 args per level

c34_leaf(list, []).
c34_leaf(rdeep, a).
c34_leaf(ldeep, a).
c34_leaf(nest, []).
c34_leaf(wide, z).

c34_list(0, L, L) :- !.
c34_list(K, L0, L) :- K1 is K - 1, c34_list(K1, [K|L0], L).

c34_wrap(0, T, T) :- !.
c34_wrap(K, T0, T) :- K1 is K - 1, c34_wrap(K1, f(T0), T).

c34_plus(0, T, T) :- !.
c34_plus(K, T0, T) :- K1 is K - 1, c34_plus(K1, T0+1, T).

c34_nest(0, T, T) :- !.
c34_nest(K, T0, T) :- K1 is K - 1, c34_nest(K1, [T0], T).

c34_widen(0, T, T) :- !.
c34_widen(K, T0, T) :-
    functor(T1, g, 255),
    c34_fill(254, T1),
    arg(255, T1, T0),
    K1 is K - 1,
    c34_widen(K1, T1, T).

c34_fill(0, _) :- !.
c34_fill(I, T) :- arg(I, T, a), I1 is I - 1, c34_fill(I1, T).

% c34_size(Shape, T, N): the N the term was built with, recovered iteratively
c34_size(list, T, N) :- length(T, N).
c34_size(rdeep, T, N) :- c34_unwrap(T, 0, N).
c34_size(ldeep, T, N) :- c34_unplus(T, 0, N).
c34_size(nest, T, N) :- c34_unnest(T, 0, N).
c34_size(wide, T, N) :- c34_unwiden(T, 0, D), N is D * 255.

c34_unwrap(T, N0, N) :- ( nonvar(T), T = f(T1) -> N1 is N0 + 1, c34_unwrap(T1, N1, N) ; N = N0 ).
c34_unplus(T, N0, N) :- ( nonvar(T), T = T1+1 -> N1 is N0 + 1, c34_unplus(T1, N1, N) ; N = N0 ).
c34_unnest(T, N0, N) :- ( nonvar(T), T = [T1] -> N1 is N0 + 1, c34_unnest(T1, N1, N) ; N = N0 ).
c34_unwiden(T, N0, N) :- ( nonvar(T), functor(T, g, 255) -> arg(255, T, T1), N1 is N0 + 1, c34_unwiden(T1, N1, N) ; N = N0 ).

% c34_cell(Shape, N, Op, File, V)
c34_cell(Shape, N, Op, File, V) :-
    c34_leaf(Shape, Leaf),
    c34_build(Shape, N, Leaf, T),
    c34_op(Op, Shape, N, T, File, V).

c34_op(build, Sh, _, T, _, V) :- c34_size(Sh, T, V).
c34_op(copy, Sh, _, T, _, V) :- copy_term(T, T2), c34_size(Sh, T2, V).
c34_op(eq, Sh, N, T, _, V) :- c34_leaf(Sh, L), c34_build(Sh, N, L, T2), ( T == T2 -> V = true ; V = false ).
c34_op(compare, Sh, N, T, _, V) :- c34_leaf(Sh, L), c34_build(Sh, N, L, T2), compare(V, T, T2).
c34_op(unify, Sh, N, T, _, V) :- c34_build(Sh, N, X, T2), T = T2, V = X.
c34_op(subsumes, Sh, N, T, _, V) :- c34_build(Sh, N, _, T2), ( subsumes_term(T2, T) -> V = true ; V = false ).
c34_op(ground, _, _, T, _, V) :- ( ground(T) -> V = true ; V = false ).
c34_op(tvars, Sh, N, _, _, V) :- c34_build(Sh, N, _, T2), term_variables(T2, Vs), length(Vs, V).
c34_op(acyclic, _, _, T, _, V) :- ( acyclic_term(T) -> V = true ; V = false ).
c34_op(findall, Sh, _, T, _, V) :- findall(T, true, [T2]), c34_size(Sh, T2, V).
% twelve copies collected by ONE findall/3: the result is copied back with a single reservation that is
% many times the size of everything the heap held before
c34_op(findall12, Sh, _, T, _, V) :-
    findall(T, c34_member(_, [1,2,3,4,5,6,7,8,9,10,11,12]), Ts), Ts = [T1|_], c34_last(Ts, T12),
    c34_size(Sh, T1, V), c34_size(Sh, T12, V).
c34_member(X, [X|_]).
c34_member(X, [_|T]) :- c34_member(X, T).
c34_last([X], X) :- !.
c34_last([_|T], X) :- c34_last(T, X).
c34_op(assert, Sh, _, T, _, V) :-
    assertz(c34_fact(T)), c34_fact(T2), c34_size(Sh, T2, V), retract(c34_fact(_)).
c34_op(bb, Sh, _, T, _, V) :- bb_put(c34_key, T), bb_get(c34_key, T2), c34_size(Sh, T2, V).
c34_op(throw, Sh, _, T, _, V) :- catch(throw(T), B, true), c34_size(Sh, B, V).
c34_op(write, _, _, T, _, V) :- write_term_to_chars(T, [quoted(true)], Cs), length(Cs, V).
c34_op(read, Sh, _, T, _, V) :-
    write_term_to_chars(T, [quoted(true)], Cs0),
    append(Cs0, " .", Cs),
    read_term_from_chars(Cs, T2, []),
    c34_size(Sh, T2, V).
c34_op(formatq, _, _, T, _, V) :- phrase(format_("~q", [T]), Cs), length(Cs, V).
c34_op(wcanon, _, _, T, File, V) :-
    open(File, write, S), write_canonical(S, T), close(S),
    file_size(File, Sz), ( Sz > 0 -> V = written ; V = empty ).
c34_op(pclause, _, _, T, File, V) :-
    open(File, write, S), portray_clause(S, c34_pc(T)), close(S),
    file_size(File, Sz), ( Sz > 0 -> V = written ; V = empty ).
c34_op(fread, Sh, _, T, File, V) :-
    open(File, write, S), writeq(S, T), write(S, ' .'), nl(S), close(S),
    open(File, read, S2), read(S2, T2), close(S2),
    c34_size(Sh, T2, V).
c34_op(consult, Sh, _, T, File, V) :-
    open(File, write, S), writeq(S, c34_loaded(T)), write(S, ' .'), nl(S), close(S),
    atom_chars(A, File),
    consult(A),
    c34_loaded(T2),
    c34_size(Sh, T2, V).
c34_op(univ, _, _, T, _, V) :- T =.. L, length(L, V).
c34_op(length, _, _, T, _, V) :- length(T, V).
c34_op(sort, _, _, T, _, V) :- sort(T, S), length(S, V).
c34_op(append, _, _, T, _, V) :- append(T, [x], T2), length(T2, V).

% ---------------------------------------------------------------------------
% shapes with massive sharing: the same compound cell referenced N times
%   shlist   [X,X,...,X]            X = f(a,b), one cell
%   shlist2  [X,Y,X,Y,...]          X, Y two separately built f(a,b)
%   shlist3  [X,X,...,X]            X = [p,q,r], one cell
%   shchain  g(X,g(X,...g(X,e)))    X = f(a,b), one cell
c34_build(shlist, N, _, T) :- X = f(a,b), c34_shlist(N, X, X, [], T).
c34_build(shlist2, N, _, T) :- X = f(a,b), c34_mk(Y), c34_shlist(N, X, Y, [], T).
c34_build(shlist3, N, _, T) :- X = [p,q,r], c34_shlist(N, X, X, [], T).
c34_build(shchain, N, _, T) :- X = f(a,b), c34_shchain(N, X, e, T).

c34_mk(f(A,B)) :- A = a, B = b.

c34_leaf(shlist, []).
c34_leaf(shlist2, []).
c34_leaf(shlist3, []).
c34_leaf(shchain, e).

c34_shlist(0, _, _, L, L) :- !.
c34_shlist(K, X, Y, L0, L) :- K1 is K - 1, c34_shlist(K1, Y, X, [X|L0], L).

c34_shchain(0, _, T, T) :- !.
c34_shchain(K, X, T0, T) :- K1 is K - 1, c34_shchain(K1, X, g(X,T0), T).

c34_size(shlist, T, N) :- length(T, N).
c34_size(shlist2, T, N) :- length(T, N).
c34_size(shlist3, T, N) :- length(T, N).
c34_size(shchain, T, N) :- c34_unchain(T, 0, N).

c34_unchain(T, N0, N) :- ( nonvar(T), T = g(_, T1) -> N1 is N0 + 1, c34_unchain(T1, N1, N) ; N = N0 ).

% comparing / ordering operations (the twin is built the same way, with its own shared cell)
c34_op(neq, Sh, N, T, _, V) :- c34_build(Sh, N, _, T2), ( T \== T2 -> V = true ; V = false ).
c34_op(lt, Sh, N, T, _, V) :- c34_build(Sh, N, _, T2), ( T @< T2 -> V = true ; V = false ).
c34_op(eqself, _, _, T, _, V) :- ( T == T -> V = true ; V = false ).
c34_op(unify2, Sh, N, T, _, V) :- c34_build(Sh, N, _, T2), ( T = T2 -> V = true ; V = false ).
c34_op(copyeq, _, _, T, _, V) :- copy_term(T, T2), ( T == T2 -> V = true ; V = false ).
c34_op(keysort, _, _, T, _, V) :-
    c34_pairs(T, 1, Ps), keysort(Ps, S), length(S, L),
    S = [_-First|_], c34_last(S, _-Last),
    V = k(L, First, Last).

c34_pairs([], _, []).
c34_pairs([X|Xs], I, [X-I|Ps]) :- I1 is I + 1, c34_pairs(Xs, I1, Ps).

c34_last([X], X) :- !.
c34_last([_|Xs], X) :- c34_last(Xs, X).
