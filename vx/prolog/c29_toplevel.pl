% c29_toplevel.pl — drives the toplevel's own answer machinery (src/toplevel.pl)
% for the C29 explorer.

:- use_module(library(dif)).
:- use_module(library(freeze)).
:- use_module(library(lists)).
:- use_module(library(between)).
:- use_module(library(charsio)).
:- use_module(library(iso_ext)).

% c29_top(QueryChars): what the toplevel does for a query typed at the prompt
% when the user answers the first prompt with `a` (all solutions):
% submit_query_and_print_results/2 is reproduced with '$report_all' = true, so
% that read_input/2 takes its own `report all` branch instead of calling
% get_single_char/1 (which needs a terminal). run_query_goal/4,
% toplevel_query_callback/3, write_leaf_answer/2, write_eq/3, gather_equations/3
% and attribute projection are the real code; the failure-driven loop is the
% one repl/0 uses.
c29_top(QChars) :-
    read_term_from_chars(QChars, Q, [variable_names(VNs)]),
    bb_put('$answer_count', 0),
    bb_put('$report_all', true),
    bb_put('$report_n_more', 0),
    (   '$toplevel':run_query_goal(Q, VNs, toplevel_query_callback, []), fail
    ;   true
    ).

% c29_answer(QChars, AChars, I, Probes, R): AChars is the text of the I-th
% printed answer (with an end token appended). R = r(Bs, Bits, QA, AQ):
%   Bs    Name=Value for the query's variables after running the answer alone
%   Bits  for every probe (a list of values for the query variables) whether
%         the answer state is consistent with it (1/0)
%   QA    the I-th solution of the query followed by the answer succeeds
%   AQ    the answer followed by the query succeeds
% or unreadable(Formal) / answer_failed.
c29_answer(QChars, AChars, I, Probes, R) :-
    catch(c29_answer_(QChars, AChars, I, Probes, R), error(E, _), R = unreadable(E)).

c29_answer_(QChars, AChars, I, Probes, R) :-
    c29_read(QChars, AChars, _, A1, QVNs1),
    (   call(A1) ->
        c29_values(QVNs1, Vs),
        c29_probes(Probes, Vs, Bits),
        c29_read(QChars, AChars, Q2, A2, _),
        ( c29_nth(Q2, I), call(A2) -> QA = true ; QA = false ),
        c29_read(QChars, AChars, Q3, A3, _),
        ( call(A3), call(Q3) -> AQ = true ; AQ = false ),
        R = r(QVNs1, Bits, QA, AQ)
    ;   R = answer_failed
    ).

c29_read(QChars, AChars, Q, A, QVNs) :-
    read_term_from_chars(QChars, Q, [variable_names(QVNs)]),
    read_term_from_chars(AChars, A, [variable_names(AVNs)]),
    c29_link(AVNs, QVNs).

c29_link([], _).
c29_link([N=V|AVNs], QVNs) :-
    ( member(N=V0, QVNs) -> V = V0 ; true ),
    c29_link(AVNs, QVNs).

c29_values([], []).
c29_values([_=V|VNs], [V|Vs]) :- c29_values(VNs, Vs).

c29_probes([], _, []).
c29_probes([P|Ps], Vs, [B|Bs]) :-
    ( \+ \+ Vs = P -> B = 1 ; B = 0 ),
    c29_probes(Ps, Vs, Bs).

% succeeds exactly once, at the I-th solution of G (fails if there are fewer)
c29_nth(G, I) :-
    bb_put(c29_n, 0),
    call(G),
    bb_get(c29_n, N0), N is N0 + 1, bb_put(c29_n, N),
    N >= I, !.
