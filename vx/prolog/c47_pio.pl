% c47_pio.pl — grammar runner for the C47 explorer (phrase_from_file vs phrase).

:- use_module(library(pio)).
:- use_module(library(dcgs)).
:- use_module(library(lists)).
:- use_module(library(iso_ext)).

% c47_file(File, Full, Opts, Kinds, Results)
%   Full   the file's character list (sent by the explorer, read by Python)
%   Opts   none (phrase_from_file/2) or an option list (phrase_from_file/3)
%   Results = one r(Kind, FromFile, FromList, Same) per kind, where FromFile and
%   FromList are summaries of the outcome on the lazy list and on Full, and
%   Same says whether the complete (unsummarised) outcomes were identical.
c47_file(_, _, _, [], []).
c47_file(File, Full, Opts, [K|Ks], [r(K, S1, S2, Same)|Rs]) :-
    c47_outcome(K, file(File, Opts), O1),
    c47_outcome(K, list(Full), O2),
    ( O1 == O2 -> Same = same ; Same = differ ),
    c47_summary(O1, Full, S1),
    c47_summary(O2, Full, S2),
    c47_file(File, Full, Opts, Ks, Rs).

c47_outcome(K, Src, O) :-
    c47_goal(K, G, T, Mode),
    catch(c47_solve(Mode, T, G, Src, O), E, c47_err(E, O)).

c47_err(E, O) :- ( nonvar(E), E = error(F, _) -> O = error(F) ; O = ball ).

c47_solve(once, T, G, Src, O) :- ( c47_phrase(G, Src) -> O = sol(T) ; O = none ).
c47_solve(all, T, G, Src, sols(L)) :- findall(T, c47_phrase(G, Src), L).

c47_phrase(G, file(F, none)) :- phrase_from_file(G, F).
c47_phrase(G, file(F, Opts)) :- Opts \== none, phrase_from_file(G, F, Opts).
c47_phrase(G, list(L)) :- phrase(G, L).

% kind -> grammar body, template, mode
c47_goal(all, seq(Cs), Cs, once).
c47_goal(needle(N), (..., seq(N), ...), found, once).
c47_goal(prefix(P), (seq(P), ...), yes, once).
c47_goal(last, (..., [X]), X, once).
c47_goal(endq, (..., "\x1\"), yes, once).
c47_goal(count(C), c47_count(C, 0, N), N, once).
c47_goal(back, ( ..., "\x1\" | seq(Cs) ), Cs, once).
c47_goal(back2(K), ( c47_skip(K), "\x1\" | seq(Cs) ), Cs, once).
c47_goal(positions(N), (seq(A), seq(N), ...), L, all) :- L = A.   % summarised as lengths
c47_goal(len, c47_len(0, N), N, once).
c47_goal(nth(K), (c47_skip(K), [X], ...), X, once).
c47_goal(splits, (seq(A), seq(_)), A, all).
c47_goal(empty, [], yes, once).
c47_goal(alt, ( "a" | "b" | [] ), yes, all).
c47_goal(neg, ( c47_nota, ... ), yes, once).
c47_goal(two, ( [X], [Y] ), X-Y, all).
c47_goal(call, call(c47_any, Cs), Cs, once).

% a non-a character is next (semicontext / pushback)
c47_nota, [X] --> [X], { X \== a }.

c47_any(Cs, Cs0, Cs1) :- phrase(seq(Cs), Cs0, Cs1), Cs1 = [].

c47_count(C, N0, N) --> [X], !, { ( X == C -> N1 is N0 + 1 ; N1 = N0 ) }, c47_count(C, N1, N).
c47_count(_, N, N) --> [].

c47_len(N0, N) --> [_], !, { N1 is N0 + 1 }, c47_len(N1, N).
c47_len(N, N) --> [].

c47_skip(0) --> !, [].
c47_skip(K) --> [_], { K1 is K - 1 }, c47_skip(K1).

% summaries: long character lists are compared with Full here and reported
% as eq(Len) or diff(FirstDifferingIndex, Len)
c47_summary(sol(T), Full, sol(S)) :- !, c47_sum_term(T, Full, S).
c47_summary(sols(L), Full, sols(Ss)) :- !, c47_sum_list(L, Full, Ss).
c47_summary(O, _, O).

c47_sum_list([], _, []).
c47_sum_list([T|Ts], Full, [S|Ss]) :- c47_sum_term(T, Full, S), c47_sum_list(Ts, Full, Ss).

c47_sum_term(T, Full, S) :-
    (   T == [] -> c47_cmp(T, Full, 0, S)
    ;   nonvar(T), T = [_|_] ->
        c47_cmp(T, Full, 0, S)
    ;   S = T
    ).

% chars(Len, eq) the list equals Full; chars(Len, prefix) a proper prefix of
% Full; diff(I) first difference at index I
c47_cmp(T, F, I, S) :-
    (   T == [] -> ( F == [] -> S = chars(I, eq) ; S = chars(I, prefix) )
    ;   var(T) -> S = partial(I)
    ;   T = [X|T1],
        (   nonvar(F), F = [Y|F1], X == Y -> I1 is I + 1, c47_cmp(T1, F1, I1, S)
        ;   S = diff(I)
        )
    ).
