% c15_helper.pl — run-time term builder, writers and read-back used by the
% C15 / C55 / C50 property modules. Terms reach the printer only through this
% builder (atom_codes/2, =../2, arithmetic), never through a literal in the
% case text, so that the printer under test is the only thing between the
% abstract term and the text. Descriptions are op-free: integers, code
% lists and plain functors only.
%
%   a(Codes)        atom with these character codes
%   i(N)            non-negative integer N;  n(N) its negation
%   p(B,E) / q(B,E) B^E / -(B^E) (bignums)
%   fl(N,D) / nfl(N,D)   float(N)/float(D) and its negation; nz = -0.0
%   r(N,D) / nr(N,D)     rational N rdiv D / its negation
%   v(K)            K-th variable of the case's variable vector (1..6)
%   c(Codes, Args)  compound built with =..
%   l(Elems, Tail)  list cells built by the clause body (Lis cells)
%   s(Codes, Tail)  characters produced by atom_chars/2 (partial string) + tail
%   k(Desc)         copy_term/2 of the built term (variables then live inside the term)

:- use_module(library(lists)).
:- use_module(library(charsio)).
:- use_module(library(iso_ext)).

c15_build(D, T) :- c15_b(D, vs(_,_,_,_,_,_), T).

c15_b(a(Cs), _, A) :- atom_codes(A, Cs).
c15_b(i(N), _, N).
c15_b(n(N), _, M) :- M is 0 - N.
c15_b(p(B,E), _, M) :- M is B ^ E.
c15_b(q(B,E), _, M) :- M is 0 - B ^ E.
c15_b(fl(N,D), _, M) :- M is float(N) / float(D).
c15_b(nfl(N,D), _, M) :- M is 0 - float(N) / float(D).
c15_b(nz, _, M) :- M is float(0) * (0 - 1).
c15_b(r(N,D), _, M) :- M is N rdiv D.
c15_b(nr(N,D), _, M) :- M is 0 - (N rdiv D).
c15_b(v(K), Vs, V) :- arg(K, Vs, V).
c15_b(c(Cs, Ds), Vs, T) :- atom_codes(F, Cs), c15_bl(Ds, Vs, As), T =.. [F|As].
c15_b(l(Ds, TD), Vs, L) :- c15_bl(Ds, Vs, Es), c15_b(TD, Vs, Tail), c15_cells(Es, Tail, L).
c15_b(s(Cs, TD), Vs, L) :-
    c15_b(TD, Vs, Tail),
    (   Cs == [] -> L = Tail
    ;   atom_codes(A, Cs), atom_chars(A, Chars), c15_app(Chars, Tail, L)
    ).

c15_b(k(D), Vs, T) :- c15_b(D, Vs, T0), copy_term(T0, T).

c15_bl([], _, []).
c15_bl([D|Ds], Vs, [T|Ts]) :- c15_b(D, Vs, T), c15_bl(Ds, Vs, Ts).

c15_cells([], T, T).
c15_cells([E|Es], T, [E|L]) :- c15_cells(Es, T, L).

c15_app(Chars, Tail, L) :- ( Tail == [] -> L = Chars ; partial_string(Chars, L, Tail) ).

% writers -------------------------------------------------------------------
c15_write(wq, T) :- writeq(T).
c15_write(wr, T) :- write(T).
c15_write(wc, T) :- write_canonical(T).
c15_write(tq, T) :- write_term(T, [quoted(true)]).
c15_write(tqi, T) :- write_term(T, [quoted(true), ignore_ops(true)]).
c15_write(tqin, T) :- write_term(T, [quoted(true), ignore_ops(true), numbervars(true)]).
c15_write(tqd, T) :- write_term(T, [quoted(true), double_quotes(true)]).
c15_write(tqm, T) :- write_term(T, [quoted(true), max_depth(0)]).
c15_write(tw, T) :- write_term(T, []).

% c15a(Desc, Writers): print \x2\ <text of writer 1> \x2\ <text of writer 2> ...
% (a writer that raises prints \x3\ followed by the error class)
c15a(D, Ws) :- c15_build(D, T), c15a_(Ws, T).

c15a_([], _).
c15a_([W|Ws], T) :-
    put_char('\x2\'),
    catch(c15_write(W, T), E, (put_char('\x3\'), c15_errname(E, N), write(N))),
    c15a_(Ws, T).

c15_errname(E, N) :- ( nonvar(E), E = error(F, _), nonvar(F) -> functor(F, N, _) ; N = ball ).

% c15b(Descs, Texts, Rs): Descs and Texts are parallel lists; each text (a
% code list, without end token) is read back with the machine's own reader
% and compared with the term rebuilt from its description.
c15b([], [], []).
c15b([D|Ds], [Codes|Cs], [R|Rs]) :-
    c15_build(D, T),
    c15_readback(Codes, T, R),
    c15b(Ds, Cs, Rs).

c15_readback(Codes, T, R) :-
    c15_chars(Codes, Chars0),
    append(Chars0, " .", Chars),
    catch(( read_term_from_chars(Chars, T2, []) -> Rd = read(T2) ; Rd = failed ), E, Rd = exc(E)),
    c15_judge(Rd, T, R).

c15_judge(read(T2), T, R) :- ( c15_variant(T, T2) -> R = ok ; R = diff(T2) ).
c15_judge(failed, _, failed).
c15_judge(exc(E), _, R) :- ( nonvar(E), E = error(F, _) -> R = err(F) ; R = ball(E) ).

c15_chars([], []).
c15_chars([C|Cs], [Ch|Chs]) :- char_code(Ch, C), c15_chars(Cs, Chs).

% variant check: the variable lists (first-occurrence order) are unified
% pairwise, then the terms must be structurally the same. A rational in T
% may come back as rdiv(N,D) (this tree has no literal syntax for them).
c15_variant(T, T2) :-
    \+ \+ ( term_variables(T, V1), term_variables(T2, V2),
            c15_samelen(V1, V2), V1 = V2,
            c15_same(T, T2) ).

c15_samelen([], []).
c15_samelen([_|A], [_|B]) :- c15_samelen(A, B).

c15_same(A, B) :- A == B, !.
c15_same(A, B) :-
    number(A), \+ integer(A), \+ float(A), nonvar(B), B = rdiv(N, D),
    integer(N), integer(D), !,
    A =:= N rdiv D.
c15_same(A, B) :-
    compound(A), compound(B),
    functor(A, F, N), functor(B, F, N),
    c15_same_args(N, A, B).

c15_same_args(0, _, _) :- !.
c15_same_args(I, A, B) :-
    arg(I, A, X), arg(I, B, Y),
    c15_same(X, Y),
    I1 is I - 1,
    c15_same_args(I1, A, B).

% operator tables -------------------------------------------------------------
% c15_ops(List): list of op(P,T,NameCodes) applied in order
c15_ops([]).
c15_ops([op(P,T,Cs)|Os]) :- atom_codes(N, Cs), op(P, T, N), c15_ops(Os).

% c15_optable(L): the full table as o(P,T,NameCodes)
c15_optable(L) :-
    findall(o(P,T,Cs), (current_op(P,T,N), atom_codes(N,Cs)), L).

% C55 -------------------------------------------------------------------------
% c55a(Codes): the atom alone, as f(A) and as [A], each through
% writeq/1, write/1, write_canonical/1, write_term/2 [quoted(true)]; texts
% separated by \x2\.
c55a(Cs) :-
    atom_codes(A, Cs),
    F =.. [f, A],
    c15_cells([A], [], L),
    c55w(A), c55w(F), c55w(L).

c55w(T) :-
    put_char('\x2\'), writeq(T),
    put_char('\x2\'), write(T),
    put_char('\x2\'), write_canonical(T),
    put_char('\x2\'), write_term(T, [quoted(true)]).

% c55b(AtomCodes, TextCodes, R): the text reads back to exactly that atom
c55b(ACs, TCs, R) :-
    atom_codes(A, ACs),
    c15_readback(TCs, A, R).
