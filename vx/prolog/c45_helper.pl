% c45_helper.pl — read_term option observation for C45 (and the reading leg of C50).
:- use_module(library(lists)).
:- use_module(library(charsio)).

c45_chars([], []).
c45_chars([C|Cs], [Ch|Chs]) :- char_code(Ch, C), c45_chars(Cs, Chs).

% Spec: list of v / n / s in the order the options are to be passed
c45_mk([], [], _, _, _).
c45_mk([v|Sp], [variables(V)|Os], V, N, S) :- c45_mk(Sp, Os, V, N, S).
c45_mk([n|Sp], [variable_names(N)|Os], V, N, S) :- c45_mk(Sp, Os, V, N, S).
c45_mk([s|Sp], [singletons(S)|Os], V, N, S) :- c45_mk(Sp, Os, V, N, S).

c45_res(Spec, T, V, N, S, r(T, V1, N1, S1)) :-
    ( memberchk(v, Spec) -> V1 = V ; V1 = (-) ),
    ( memberchk(n, Spec) -> N1 = N ; N1 = (-) ),
    ( memberchk(s, Spec) -> S1 = S ; S1 = (-) ).

c45_err(E, R) :- ( nonvar(E), E = error(F, _) -> R = err(F) ; R = ball(E) ).

% in-memory entry point
c45_read_chars(Codes, Spec, R) :-
    c45_chars(Codes, Chars),
    c45_mk(Spec, Opts, V, N, S),
    catch(( read_term_from_chars(Chars, T, Opts) -> c45_res(Spec, T, V, N, S, R) ; R = failed ),
          E, c45_err(E, R)).

% read_from_chars/2 (no options)
c45_read_from_chars(Codes, R) :-
    c45_chars(Codes, Chars),
    catch(( read_from_chars(Chars, T) -> R = r(T, -, -, -) ; R = failed ), E, c45_err(E, R)).

% stream entry point: Count successive reads from one file, each with fresh option variables
c45_read_file(Path, Spec, Count, Rs) :-
    open(Path, read, St),
    catch(c45_file_loop(Count, St, Spec, Rs0), E, (c45_err(E, X), Rs0 = [loop(X)])),
    close(St),
    Rs = Rs0.

c45_file_loop(0, _, _, []) :- !.
c45_file_loop(K, St, Spec, [R|Rs]) :-
    c45_mk(Spec, Opts, V, N, S),
    catch(( read_term(St, T, Opts) -> c45_res(Spec, T, V, N, S, R) ; R = failed ), E, c45_err(E, R)),
    K1 is K - 1,
    c45_file_loop(K1, St, Spec, Rs).
