"""C02 — float and mixed evaluation follows IEEE-754 with the ISO checks (DESIGN §6 C02).

Space: every unary functor x (FLT u INT(both encodings) u RAT u {2^1024}); every
binary functor x all ordered pairs of FLT u 12 ints u RAT u {two bignum-encoded
ints, 2^1024}; the unary space again as *compiled clause bodies*; thorough adds
depth-2 nests over a 10-value alphabet. Oracle: vx.model.numbers2 (Python
float / Fraction, glibc libm within 1 ulp), set-valued where the statement
leaves a choice.
"""
import itertools
import sys
from fractions import Fraction

from vx.core import px
from vx.model import numbers as N
from vx.model import numbers2 as M

if hasattr(sys, "set_int_max_str_digits"):
    sys.set_int_max_str_digits(0)   # results such as (2^70)^4096 have > 4300 digits

ID = "C02"
LEVEL = "exploration"
ENGINE = "PEX"
TECHNIQUE = "bounded exhaustive input-space exploration against an IEEE-754 reference (Python float/Fraction + glibc libm)"
LEVEL_TEXT = ("every (functor, operand...) combination over a boundary-value alphabet is executed on the real "
              "evaluator and compared bitwise with an independent reference; exhaustive over the alphabet, "
              "not over all doubles")
RULE = ("all (functor, operand) and (functor, operand, operand) combinations over FLT(%d) u INT u RAT u {2^1024}; "
        "unary space also as compiled clause bodies; thorough adds depth-2 nests over 10 values. Non-trivial: an "
        "operand or the reference result is +-0.0, subnormal, >= 2^53 in magnitude, the operand kinds differ, or an "
        "error is among the acceptable outcomes." % len(M.FLT))
ASSUMPTIONS = [
    "Python float + - * / sqrt and int/Fraction -> float conversions are correctly rounded (IEEE-754 RNE)",
    "glibc libm (ctypes) is the transcendental reference; results within 1 ulp of it are accepted",
    "driver transport: floats are printed by write/1 as shortest round-trip text and parsed with Python float()",
    "-0.0 and 0.0 are not distinguished in results (the float table of the implementation merges them)",
    "round/1 on exact ties may follow ISO floor(x+1/2) or round-half-away-from-zero; int**int may be exact or float; "
    "log(0) and 0**negative may raise undefined or float_overflow; max/min of numerically equal mixed operands may return either",
]
MIN_OUTCOMES = 5

U_OPERANDS = ([("f", f) for f in M.FLT] + [("i", v) for v in N.INT] + [("a", v) for v in N.INT]
              + [("r", r) for r in N.RAT] + [("i", M.HUGE), ("i", -M.HUGE)])
B_OPERANDS = ([("f", f) for f in M.FLT] + [("i", v) for v in N.INT_SMALL] + [("r", r) for r in N.RAT]
              + [("a", 7), ("a", 2 ** 53 + 1), ("i", M.HUGE)])
U_ENC = None
NEST = [("f", 0.0), ("f", -0.0), ("f", 0.5), ("f", -2.5), ("f", 1e300), ("f", 5e-324),
        ("i", 3), ("i", -7), ("i", 2 ** 70), ("r", Fraction(1, 2))]
INNER = ["+", "-", "*", "/", "min", "max"]   # inner functors with an exact (0 ulp) reference
B_GROUPS = 4


def bound_text(tier):
    return ("%d unary functors x %d operands (run-time and compiled), %d binary functors x %d^2 operand pairs"
            % (len(M.UNARY), len(U_OPERANDS), len(M.BINARY), len(B_OPERANDS))
            + ("; depth-2 nests op1(op2(a,b),c), op1(c,op2(a,b)), u(op2(a,b)) over 10 values" if tier == "thorough" else ""))


# ---- operand encoding (JSON-able) ------------------------------------------

def enc(o):
    k, v = o
    if k == "f":
        return "f:" + v.hex()
    if k == "r":
        return "r:%d/%d" % (v.numerator, v.denominator)
    return "%s:%d" % (k, v)


def dec(s):
    k, v = s.split(":", 1)
    if k == "f":
        return float.fromhex(v)
    if k == "r":
        a, b = v.split("/")
        return Fraction(int(a), int(b))
    if k == "a":
        return M.A(int(v))
    return int(v)


def val(o):
    return dec(enc(o))


U_ENC = [enc(o) for o in U_OPERANDS]


# ---- enumeration -------------------------------------------------------------

def shards(tier):
    sh = [("un", op) for op in M.UNARY]
    sh += [("unbody", op) for op in M.UNARY]
    for op in M.BINARY:
        for g in range(B_GROUPS):
            sh.append(("bin", op, g))
    if tier == "thorough":
        for op1 in M.BINARY:
            for op2 in INNER:
                sh.append(("nestl", op1, op2))
                sh.append(("nestr", op1, op2))
        for u in M.UNARY:
            sh.append(("nestu", u))
    return sh


def gen(shard):
    """yields case lists: [kind, route, tree-spec...]"""
    k = shard[0]
    if k in ("un", "unbody"):
        op = shard[1]
        for o in U_OPERANDS:
            if k == "unbody" and o[0] == "f" and o[1] == 0.0 and M.bits(o[1]) < 0:
                continue   # a compiled -0.0 is an intermediate of (0.0 * -1) and loses its sign in a register
            yield [k, op, enc(o)]
    elif k == "bin":
        _, op, g = shard
        for i, a in enumerate(B_OPERANDS):
            if i % B_GROUPS != g:
                continue
            for b in B_OPERANDS:
                yield ["bin", op, enc(a), enc(b)]
    elif k in ("nestl", "nestr"):
        _, op1, op2 = shard
        for a, b, c in itertools.product(NEST, NEST, NEST):
            yield [k, op1, op2, enc(a), enc(b), enc(c)]
    elif k == "nestu":
        u = shard[1]
        for op2 in INNER:
            for a, b in itertools.product(NEST, NEST):
                yield ["nestu", u, op2, enc(a), enc(b)]


def tree_of(case):
    k = case[0]
    if k in ("un", "unbody"):
        return (case[1], dec(case[2]))
    if k == "bin":
        return (case[1], dec(case[2]), dec(case[3]))
    if k == "nestl":
        return (case[1], (case[2], dec(case[3]), dec(case[4])), dec(case[5]))
    if k == "nestr":
        return (case[1], dec(case[5]), (case[2], dec(case[3]), dec(case[4])))
    if k == "nestu":
        return (case[1], (case[2], dec(case[3]), dec(case[4])))
    raise KeyError(k)


def leaves(t):
    if not isinstance(t, tuple):
        return [t]
    out = []
    for x in t[1:]:
        out += leaves(x)
    return out


def interesting(x):
    if isinstance(x, float):
        return x == 0 or M.is_subnormal(x) or abs(x) >= 2.0 ** 53
    return abs(x) >= 2 ** 53


def nontrivial(tree, alts):
    ls = leaves(tree)
    if any(interesting(x) for x in ls):
        return True
    if len({M.kind(x) == "f" for x in ls}) > 1:
        return True
    for a in alts:
        if a[0] == "e" or interesting(a[1]):
            return True
    return False


# ---- execution ---------------------------------------------------------------

def setup(w, tier):
    """The float table keeps whichever of +0.0 / -0.0 is created first (finding F-C03-1); reading the
    literal 0.0 first pins the usual state, also after a worker restart."""
    w.setup_cases.append("g(X = 0.0) .")
    px.run_goals(w, ["g(X = 0.0)"])


def judge(res, alts):
    """-> (label, violation kind | None, observed text)"""
    if res.abn:
        return ("abnormal", "abnormal:" + res.abn, res.abn)
    if res.status == "exc":
        f = res.formal()
        if M.match(alts, "e", f):
            return ("error:" + px.formal_sig(f), None, f)
        if any(a[0] == "e" for a in alts) and not any(a[0] == "v" for a in alts):
            return ("wrong_error", "wrong_error:" + px.formal_sig(f), f)
        return ("unexpected_error", "unexpected_error:" + px.formal_sig(f), f)
    if len(res.sols) != 1:
        return ("nosol", "no_single_solution:%d" % len(res.sols), "solutions=%d" % len(res.sols))
    x = res.sols[0].get("X")
    if isinstance(x, bool) or not isinstance(x, (int, float, Fraction)):
        return ("not_number", "not_number", repr(x))
    if M.match(alts, "v", x):
        return ("ok:" + M.kind(x), None, x)
    if not any(a[0] == "v" for a in alts):
        return ("missing_error", "missing_error:got_" + M.nclass(x), x)
    want_float = all(isinstance(a[1], float) for a in alts if a[0] == "v")
    if want_float != isinstance(x, float):
        return ("wrong_type", "wrong_type:got_" + M.kind(x), x)
    if isinstance(x, float):
        d = min(M.ulp_dist(a[1], x) for a in alts if a[0] == "v" and isinstance(a[1], float))
        return ("wrong_value", "wrong_value:%s" % ("off_by_%dulp" % d if d <= 4 else "far"), x)
    return ("wrong_value", "wrong_value:got_" + M.nclass(x), x)


def sig_of(case, vk):
    k = case[0]
    if k in ("un", "unbody"):
        return "%s %s a=%s %s" % (k, case[1], M.nclass(dec(case[2])), vk)
    if k == "bin":
        return "bin %s a=%s b=%s %s" % (case[1], M.nclass(dec(case[2])), M.nclass(dec(case[3])), vk)
    if k in ("nestl", "nestr"):
        return "%s %s(%s) %s" % (k, case[1], case[2], vk)
    return "nestu %s(%s) %s" % (case[1], case[2], vk)


def run_cases(w, cases):
    """-> list of (case, text, alts, Res)"""
    out = []
    ref = {}
    for c in cases:
        ref[id(c)] = M.ref_eval(tree_of(c))
    cases = [c for c in cases if M.SKIP not in ref[id(c)]]
    plain = [c for c in cases if c[0] != "unbody"]
    body = [c for c in cases if c[0] == "unbody"]
    if plain:
        texts = [M.tree_text(tree_of(c)) for c in plain]
        rs = px.run_goals(w, ["g(X is %s)" % t for t in texts])
        for c, t, r in zip(plain, texts, rs):
            out.append((c, "X is " + t, ref[id(c)], r))
    if body:
        texts = [M.tree_text(tree_of(c)) for c in body]
        names = ["c02b_%d_%d" % (M.UNARY.index(c[1]), U_ENC.index(c[2])) for c in body]
        prog = "".join("%s(X) :- X is %s.\n" % (n, t) for n, t in zip(names, texts))
        w.consult(prog)
        rs = px.run_goals(w, ["g(%s(X))" % n for n in names])
        for c, t, r in zip(body, texts, rs):
            out.append((c, "p(X) :- X is %s.  ?- p(X)" % t, ref[id(c)], r))
    return out


def run_shard(w, shard, tier):
    acc = px.ShardAcc()
    for batch in px.chunked(gen(shard), 400):
        for case, text, alts, r in run_cases(w, batch):
            label, vk, obs = judge(r, alts)
            acc.case(nontrivial(tree_of(case), alts), label,
                     sample={"goal": text, "expected": M.show_alts(alts), "observed": str(obs)})
            if vk:
                acc.violation(sig_of(case, vk), {"case": case, "goal": text},
                              expected=M.show_alts(alts), observed=str(obs))
    return acc.result()


def recheck(w, case, tier):
    c = case["case"]
    rs = run_cases(w, [c])
    if not rs:
        return None
    (_, text, alts, r), = rs
    label, vk, obs = judge(r, alts)
    if vk:
        return {"sig": sig_of(c, vk), "case": case, "expected": M.show_alts(alts), "observed": str(obs)}
    return None
