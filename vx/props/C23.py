"""C23 — term construction and inspection builtins match a term model (DESIGN §6 C23).

Families:
  inspect   every term of TERM(k) in every applicable route: functor/3, =../2,
            arg/3 (N unbound: instantiation_error; N from a boundary list), copy_term/2
            (variant, fresh variables, sharing preserved, original unchanged
            after binding every variable of the copy), term_variables/2
            (depth-first left-to-right first occurrences), ground/1
  functor   construction mode: names x arities (0,1,2,255,256,-1,2^70,...)
  univ      construction mode and nonvar mode over well- and ill-formed lists
  tvlist    term_variables/2 with bound / partial / non-list second argument
  subsumes  subsumes_term/2 on all ordered pairs of TERM(2) shapes (joint
            sharing patterns)
  attr      copy_term/2,3 on terms containing attributed variables
  nvars     write_term(numbervars(true)) naming of '$VAR'(N)
Oracle: Python term model (vx.model.termspace / unify); ISO error table as sets.
"""
import os
from fractions import Fraction

from vx.core import px
from vx.core.terms import V, NIL, mklist, unlist, show
from vx.model import termspace as T
from vx.model import unify as U
from vx.props import C13 as _C13

ID = "C23"
LEVEL = "exploration"
ENGINE = "PEX"
TECHNIQUE = "bounded exhaustive enumeration of terms x routes x argument modes against a Python term model and the ISO error table"
LEVEL_TEXT = ("input-space exploration: the builtins are functions/relations of small terms; every term of a size-bounded "
              "alphabet with every variable-sharing pattern, in several heap encodings, and every argument mode is executed")
RULE = ("TERM(k) (k=3 quick, 4 thorough for copy_term/term_variables/ground) x routes {lit,dq,univ,chars,copy,sfx1} x 8 "
        "inspection goals; functor/3 construction 10 names x 12 arities; =../2 over 40 lists x {unbound, matching, "
        "non-matching term}; subsumes_term/2 on all ordered TERM(2) shape pairs x sharing patterns; attributed-variable "
        "copies; '$VAR' naming. Non-trivial: the term has a repeated variable or a string component, or an error is expected.")
ASSUMPTIONS = ["termspace/unify Python term model", "ISO 13211-1 error clauses for functor/3, arg/3, =../2, term_variables/2; "
               "several applicable errors -> any of them accepted",
               "arg/3 with unbound N raises instantiation_error (ISO 8.5.2.3 a; this tree does not enumerate)"]
MIN_OUTCOMES = 4

HELPERS = open(os.path.join(os.path.dirname(__file__), "..", "prolog", "c23_helpers.pl"), encoding="utf-8").read()
BIG = 2 ** 70
R_INSPECT = ["lit", "dq", "univ", "chars", "copy", "sfx1"]
ARG_KS = [0, 1, 2, 3, -1, BIG, "a", 1.5]


def setup(w, tier):
    w.consult(HELPERS, persist=True)


def bound_text(tier):
    k = 3 if tier == "quick" else 4
    return "inspect TERM(%d) (%d terms) x routes; functor/univ/term_variables modes; subsumes_term on TERM(2)^2; attr; nvars" % (
        k, len(T.terms(k)))


def shards(tier):
    sh = []
    n3 = len(T.terms(3))
    for i in range(0, n3, 25):
        sh.append(("inspect", 3, i, min(n3, i + 25), "all"))
    if tier == "thorough":
        n4 = len(T.terms(4))
        for i in range(n3, n4, 60):
            sh.append(("inspect", 4, i, min(n4, i + 60), "copytv"))
    sh.append(("functor",))
    sh.append(("univ", 0))
    sh.append(("univ", 1))
    sh.append(("tvlist",))
    n2 = len(T.shapes(2))
    for i in range(0, n2, 6):
        sh.append(("subsumes", i, min(n2, i + 6)))
    sh.append(("attr",))
    sh.append(("nvars",))
    return sh


# ---------------------------------------------------------------------------
# helpers

def vmap(abs_t, obs_t):
    """mapping observed variable -> abstract variable if obs_t is a variant of abs_t, else None"""
    m1, m2 = {}, {}
    stack = [(abs_t, obs_t)]
    while stack:
        x, y = stack.pop()
        if isinstance(x, V) or isinstance(y, V):
            if not (isinstance(x, V) and isinstance(y, V)):
                return None
            if m1.setdefault(x, y) != y or m2.setdefault(y, x) != x:
                return None
        elif U.is_compound(x) or U.is_compound(y):
            if not (U.is_compound(x) and U.is_compound(y)) or x[0] != y[0] or len(x) != len(y):
                return None
            stack.extend(zip(x[1:], y[1:]))
        elif not U.same_atomic(x, y):
            return None
    return m2


def rename(t, m):
    """observed term -> abstract names; unmapped variables become V(('fresh', n))"""
    if isinstance(t, V):
        return m.get(t, V(("fresh", t.n)))
    if U.is_compound(t):
        return (t[0],) + tuple(rename(a, m) for a in t[1:])
    return t


def same(a, b):
    return U.tkey(a) == U.tkey(b)


def fs(res):
    return px.formal_sig(res.formal()) if res.status == "exc" else None


def name_arity(t):
    if U.is_compound(t):
        return t[0], len(t) - 1
    return t, 0


class Out:
    """judgement of one goal"""

    def __init__(self, label, vk=None, exp="", obs=""):
        self.label, self.vk, self.exp, self.obs = label, vk, exp, obs


def err_out(res, errors, what):
    """expect an error whose formal is in `errors`"""
    exp = "error in {%s}" % "; ".join(show(e) for e in errors)
    if res.abn:
        return Out("abnormal", "abnormal:" + res.abn, exp, res.abn)
    if res.status != "exc":
        return Out("missing_error", "%s: missing error" % what, exp, "status=%s nsols=%d" % (res.status, len(res.sols)))
    f = res.formal()
    if any(U.variant(f, e) for e in errors):
        return Out("error:" + px.formal_sig(f))
    return Out("wrong_error", "%s: wrong error %s" % (what, px.formal_sig(f)), exp, show(f))


def one_sol(res, what, exp=""):
    """-> (sol dict, None) or (None, Out)"""
    if res.abn:
        return None, Out("abnormal", "abnormal:" + res.abn, exp, res.abn)
    if res.status == "exc":
        return None, Out("unexpected_error", "%s: unexpected error %s" % (what, fs(res)), exp, show(res.formal()))
    if res.status != "done" or len(res.sols) != 1:
        return None, Out("wrong_count", "%s: %d solutions" % (what, len(res.sols)), exp, "status=%s" % res.status)
    return res.sols[0], None


def te(kind, c):
    return ("type_error", kind, c)


INST = "instantiation_error"


# ---------------------------------------------------------------------------
# inspect family: goals and judges for one (term, realisation)

def inspect_goals(pre, txt, which):
    base = ",".join(pre + ["T0 = " + txt])
    gs = []
    if which == "all":
        gs.append(("functor", "g((%s,functor(T0,N,A)))" % base))
        gs.append(("univ", "g((%s,T0 =.. L))" % base))
        gs.append(("arg_enum", "g((%s,arg(N,T0,A)),300)" % base))
        ks = "[" + ",".join(T.atom_text(k) if isinstance(k, str) else ("(%s)" % k if isinstance(k, int) and k < 0 else str(k))
                            for k in ARG_KS) + "]"
        gs.append(("arg_k", "g((%s,c23_args(%s,T0,Rs)))" % (base, ks)))
    gs.append(("copy", "g((%s,copy_term(T0,C)))" % base))
    gs.append(("copy_bind", "g((%s,c23_copy_bind(T0)))" % base))
    gs.append(("tvars", "g((%s,term_variables(T0,Vs)))" % base))
    gs.append(("ground", "g((%s,(ground(T0) -> G = 1 ; G = 0)))" % base))
    return gs


def judge_inspect(op, res, t):
    isvar = isinstance(t, V)
    comp = U.is_compound(t)
    if op == "functor":
        if isvar:
            return err_out(res, [INST], op)
        sol, bad = one_sol(res, op)
        if bad:
            return bad
        n, a = name_arity(t)
        m = vmap(t, sol.get("T0"))
        if m is None:
            return Out("term_changed", "functor: term changed", show(t), show(sol.get("T0")))
        if not (same(sol.get("N"), n) and sol.get("A") == a):
            return Out("wrong", "functor: wrong name/arity", "%s/%d" % (show(n), a), "%s/%s" % (show(sol.get("N")), sol.get("A")))
        return Out("ok")
    if op == "univ":
        if isvar:
            return err_out(res, [INST], op)
        sol, bad = one_sol(res, op)
        if bad:
            return bad
        m = vmap(t, sol.get("T0"))
        if m is None:
            return Out("term_changed", "univ: term changed", show(t), show(sol.get("T0")))
        want = mklist([t[0]] + list(t[1:])) if comp else mklist([t])
        got = rename(sol.get("L"), m)
        if not same(got, want):
            return Out("wrong", "univ: wrong list", show(want), show(got))
        return Out("ok")
    if op == "arg_enum":
        # ISO 8.5.2.3 a): N unbound -> instantiation_error (this tree does not enumerate)
        errs = [INST]
        if not isvar and not comp:
            errs.append(te("compound", t))
        return err_out(res, errs, op)
    if op == "arg_k":
        sol, bad = one_sol(res, op)
        if bad:
            return bad
        m = vmap(t, sol.get("T0"))
        if m is None:
            return Out("term_changed", "arg_k: term changed", show(t), show(sol.get("T0")))
        rs, _ = unlist(sol.get("Rs"))
        for k, r in zip(ARG_KS, rs):
            errs = set()
            if isvar:
                errs.add(INST)
            elif not comp:
                errs.add(te("compound", t))
            if not isinstance(k, int):
                errs.add(te("integer", k))
            elif k < 0:
                errs.add(("domain_error", "not_less_than_zero", k))
            rr = rename(r, m)
            if errs:
                ok = isinstance(rr, tuple) and rr[0] == "error" and any(U.variant(rr[1], e) for e in errs)
                if not ok:
                    return Out("wrong", "arg_k: k=%s expected error" % T.kind(k), "error in %s" % [show(e) for e in errs], show(rr))
            elif 1 <= k <= len(t) - 1:
                if not (isinstance(rr, tuple) and rr[0] == "sol" and same(rr[1], t[k])):
                    return Out("wrong", "arg_k: wrong argument", "sol(%s)" % show(t[k]), show(rr))
            else:
                if rr != "false":
                    return Out("wrong", "arg_k: k=%s out of range should fail" % T.kind(k), "false", show(rr))
        return Out("ok")
    if op == "copy":
        sol, bad = one_sol(res, op)
        if bad:
            return bad
        m = vmap(t, sol.get("T0"))
        if m is None:
            return Out("term_changed", "copy: original changed", show(t), show(sol.get("T0")))
        c = sol.get("C")
        if not U.variant(t, c):
            return Out("wrong", "copy: not a variant", show(t), show(c))
        if set(U.term_vars(c)) & set(U.term_vars(sol.get("T0"))):
            return Out("wrong", "copy: shares a variable with the original", "fresh variables", show(("t", sol.get("T0"), c)))
        return Out("ok")
    if op == "copy_bind":
        sol, bad = one_sol(res, op)
        if bad:
            return bad
        if vmap(t, sol.get("T0")) is None:
            return Out("wrong", "copy_bind: original changed after binding the copy", show(t), show(sol.get("T0")))
        return Out("ok")
    if op == "tvars":
        sol, bad = one_sol(res, op)
        if bad:
            return bad
        m = vmap(t, sol.get("T0"))
        if m is None:
            return Out("term_changed", "tvars: term changed", show(t), show(sol.get("T0")))
        want = mklist(T.variables(t))
        got = rename(sol.get("Vs"), m)
        if not same(got, want):
            return Out("wrong", "tvars: wrong variable list", show(want), show(got))
        return Out("ok")
    if op == "ground":
        sol, bad = one_sol(res, op)
        if bad:
            return bad
        want = 0 if T.variables(t) else 1
        if sol.get("G") != want:
            return Out("wrong", "ground: gives %s" % sol.get("G"), str(want), str(sol.get("G")))
        return Out("ok")
    raise KeyError(op)


def nontrivial_term(t):
    vs = []
    stack = [t]
    rep = False
    while stack:
        x = stack.pop()
        if isinstance(x, V):
            if x in vs:
                rep = True
            vs.append(x)
        elif isinstance(x, tuple):
            stack.extend(x[1:])
    return rep or T.has_string(t)


def run_inspect(w, shard, acc):
    _, k, lo, hi, which = shard
    terms = T.terms(k)[lo:hi]
    cases = []
    for t in terms:
        for (r, pre, txt) in _C13.variants(t, R_INSPECT, "_B"):
            for (op, g) in inspect_goals(pre, txt, which):
                cases.append((t, r, op, g))
    for batch in px.chunked(cases, 400):
        rs = px.run_goals(w, [c[3] for c in batch])
        for (t, r, op, g), res in zip(batch, rs):
            o = judge_inspect(op, res, t)
            acc.case(nontrivial_term(t) or o.label.startswith("error"), op + ":" + o.label,
                     sample={"goal": g, "expected": o.exp, "observed": o.obs})
            if o.vk:
                acc.violation("inspect %s via %s: %s" % (T.kind(t), r, o.vk),
                              {"fam": "inspect", "t": T.tj(t), "route": r, "op": op, "goal": g}, expected=o.exp, observed=o.obs)


# ---------------------------------------------------------------------------
# functor construction

F_NAMES = [V("N"), "a", "[]", "", "é", 1, 1.5, BIG, ("f", "x"), T.str_term("ab"), "."]
F_ARITIES = [V("A"), 0, 1, 2, 3, 255, 256, -1, BIG, -BIG, "a", 1.5, ("f", "x")]


def functor_expect(name, ar):
    """-> ('err', set) | ('term', name, arity)"""
    errs = set()
    if isinstance(name, V) or isinstance(ar, V):
        errs.add(INST)
    if not isinstance(name, V) and U.is_compound(name):
        errs.add(te("atomic", name))
    if not isinstance(ar, V):
        if not (isinstance(ar, int)):
            errs.add(te("integer", ar))
        else:
            if ar > 255:
                errs.add(("representation_error", "max_arity"))
            if ar < 0:
                errs.add(("domain_error", "not_less_than_zero", ar))
            if ar > 0 and not isinstance(name, V) and not U.is_compound(name) and not isinstance(name, str):
                errs.add(te("atom", name))
                errs.add(te("atomic", name))
    if errs:
        return ("err", errs)
    return ("term", name, ar)


def run_functor(w, acc):
    cases = []
    for n in F_NAMES:
        for a in F_ARITIES:
            ctx = T.Ctx("_K")
            pre = []
            nt = T._lit(n, ctx, pre)
            at = T._lit(a, ctx, pre)
            cases.append((n, a, "g((%s))" % ",".join(pre + ["functor(T0,%s,%s)" % (nt, at)])))
    rs = px.run_goals(w, [c[2] for c in cases])
    for (n, a, g), res in zip(cases, rs):
        e = functor_expect(n, a)
        if e[0] == "err":
            o = err_out(res, e[1], "functor")
        else:
            sol, o = one_sol(res, "functor")
            if not o:
                t0 = sol.get("T0")
                if a == 0:
                    ok = same(t0, n)
                else:
                    ok = (U.is_compound(t0) and t0[0] == n and len(t0) - 1 == a and all(isinstance(x, V) for x in t0[1:])
                          and len(set(t0[1:])) == a)
                o = Out("ok") if ok else Out("wrong", "functor: wrong term built", "%s/%s with distinct fresh variables" % (show(n), a),
                                              show(t0)[:200])
        acc.case(e[0] == "err" or a in (255,), "functor_c:" + o.label, sample={"goal": g, "expected": o.exp, "observed": o.obs})
        if o.vk:
            acc.violation("functor_c name=%s arity=%s: %s" % (T.kind(n), T.kind(a), o.vk),
                          {"fam": "functor", "n": T.tj(n), "a": T.tj(a), "goal": g}, expected=o.exp, observed=o.obs)


# ---------------------------------------------------------------------------
# univ

def univ_lists():
    X, Y = V("X"), V("Y")
    heads = ["f", "[]", "", ".", 1, 1.5, BIG, ("f", "x"), T.str_term("ab"), X]
    out = [NIL, "a", 1, ("f", "x"), X, mklist(["f"], "a"), mklist(["f", "a"], "b"), mklist(["f"], Y), mklist(["f", "a"], Y)]
    for h in heads:
        out.append(mklist([h]))
        out.append(mklist([h, "a"]))
        out.append(mklist([h, X, X]))
        out.append(mklist([h, T.str_term("ab"), Y]))
    return out


def univ_expect_unbound(L):
    """Term unbound"""
    el, tail = unlist(L)
    errs = set()
    if isinstance(L, V) or isinstance(tail, V):
        errs.add(INST)
        # other conditions on the visible part may also be reported
        if el and not isinstance(el[0], V) and len(el) > 1 and not isinstance(el[0], str):
            errs.add(te("atom", el[0]))
        return ("err", errs)
    if tail != NIL:
        return ("err", {te("list", L)})
    if not el:
        return ("err", {("domain_error", "non_empty_list", NIL)})
    h = el[0]
    if isinstance(h, V):
        return ("err", {INST})
    if len(el) > 1:
        if not isinstance(h, str):
            return ("err", {te("atom", h)} | ({te("atomic", h)} if U.is_compound(h) else set()))
        return ("term", (h,) + tuple(el[1:]))
    if U.is_compound(h):
        return ("err", {te("atomic", h)})
    return ("term", h)


def run_univ(w, part, acc):
    cases = []
    lists = univ_lists()
    subjects = [None] if part == 0 else [("f", "a"), ("f", V("X"), V("X")), "f", 1.5, mklist(["a", "b"]), T.str_term("ab")]
    for s in subjects:
        for L in lists:
            ctx = T.Ctx("_K")
            pre = []
            lt = T._lit(L, ctx, pre)
            if s is None:
                g = "g((%s))" % ",".join(pre + ["T0 =.. %s" % lt, "L0 = %s" % lt])
            else:
                st = T._lit(s, ctx, pre)
                g = "g((%s))" % ",".join(pre + ["T0 = %s" % st, "L0 = %s" % lt, "T0 =.. L0"])
            cases.append((s, L, g))
    rs = px.run_goals(w, [c[2] for c in cases])
    for (s, L, g), res in zip(cases, rs):
        if s is None:
            e = univ_expect_unbound(L)
            if e[0] == "err":
                o = err_out(res, e[1], "univ")
            else:
                sol, o = one_sol(res, "univ")
                if not o:
                    # T0 and L0 share the list's variables: [name|args] of T0 must equal L0
                    t0, l0 = sol.get("T0"), sol.get("L0")
                    want = mklist([t0[0]] + list(t0[1:])) if U.is_compound(t0) else mklist([t0])
                    ok = same(want, l0) and U.variant(l0, L)
                    o = Out("ok") if ok else Out("wrong", "univ: wrong term built", show(e[1]), show(t0))
        else:
            # nonvar term: error b) for non-lists, otherwise plain unification of [name|args] with L
            el, tail = unlist(L)
            want_list = mklist([s[0]] + list(s[1:])) if U.is_compound(s) else mklist([s])
            if not isinstance(L, V) and not isinstance(tail, V) and tail != NIL:
                o = err_out(res, {te("list", L)}, "univ")
            else:
                errs = set()
                if el and len(el) > 1 and not isinstance(el[0], V) and not isinstance(el[0], str):
                    errs.add(te("atom", el[0]))
                if el and len(el) == 1 and tail == NIL and U.is_compound(el[0]):
                    errs.add(te("atomic", el[0]))
                cls, rt = U.classify(want_list, L)
                if res.status == "exc" and errs:
                    o = err_out(res, errs, "univ")
                elif cls == "clash":
                    if res.abn:
                        o = Out("abnormal", "abnormal:" + res.abn, "", res.abn)
                    elif res.status == "done" and not res.sols:
                        o = Out("fail")
                    else:
                        o = Out("wrong", "univ: should fail", "failure", "status=%s %s nsols=%d" % (res.status, fs(res), len(res.sols)))
                elif cls == "cyclic":
                    # the unifier is an infinite tree: success (cyclic) or failure are both acceptable; no crash
                    o = Out("abnormal", "abnormal:" + res.abn, "", res.abn) if res.abn else Out("cyclic")
                else:
                    sol, o = one_sol(res, "univ")
                    if not o:
                        got = ("t", sol.get("T0"), sol.get("L0"))
                        ref = rt.resolve(("t", s, L)) if cls == "finite" else None
                        ok = ref is not None and U.variant(ref, got)
                        o = Out("ok") if ok else Out("wrong", "univ: wrong unifier", show(ref), show(got))
        acc.case(True, "univ:" + o.label, sample={"goal": g, "expected": o.exp, "observed": o.obs})
        if o.vk:
            acc.violation("univ %s list=%s: %s" % ("unbound" if s is None else T.kind(s), T.kind(L), o.vk),
                          {"fam": "univ", "s": None if s is None else T.tj(s), "L": T.tj(L), "goal": g}, expected=o.exp, observed=o.obs)


# ---------------------------------------------------------------------------
# term_variables with a second argument

def run_tvlist(w, acc):
    X, Y, Z = V("X"), V("Y"), V("Z")
    terms = [("f", X, Y, X), ("g", Y, ("f", X)), "a", T.str_term("ab", X), mklist([X, Y, X], Z)]
    seconds = [V("Vs"), NIL, mklist([V("P")]), mklist([V("P"), V("Q")]), mklist([V("P"), V("Q"), V("R")]), mklist([V("P")], V("Q")),
               mklist([X, Y]), mklist([Y, X]), "a", 1, ("f", "x"), mklist([V("P")], "a"), mklist(["a", "b"])]
    cases = []
    for t in terms:
        for s in seconds:
            ctx = T.Ctx("_K")
            pre = []
            tt = T._lit(t, ctx, pre)
            st = T._lit(s, ctx, pre)
            cases.append((t, s, "g((%s))" % ",".join(pre + ["T0 = %s" % tt, "S0 = %s" % st, "term_variables(T0,S0)"])))
    rs = px.run_goals(w, [c[2] for c in cases])
    for (t, s, g), res in zip(cases, rs):
        el, tail = unlist(s)
        if not isinstance(s, V) and not isinstance(tail, V) and tail != NIL:
            o = err_out(res, {te("list", s)}, "term_variables")
        else:
            want = mklist(T.variables(t))
            cls, rt = U.classify(want, s)
            if cls == "clash":
                if res.abn:
                    o = Out("abnormal", "abnormal:" + res.abn, "", res.abn)
                elif res.status == "done" and not res.sols:
                    o = Out("fail")
                else:
                    o = Out("wrong", "term_variables: should fail", "failure", "status=%s %s nsols=%d" % (res.status, fs(res), len(res.sols)))
            else:
                sol, o = one_sol(res, "term_variables")
                if not o:
                    ref = rt.resolve(("t", t, s))
                    got = ("t", sol.get("T0"), sol.get("S0"))
                    o = Out("ok") if U.variant(ref, got) else Out("wrong", "term_variables: wrong result", show(ref), show(got))
        acc.case(True, "tvlist:" + o.label, sample={"goal": g, "expected": o.exp, "observed": o.obs})
        if o.vk:
            acc.violation("tvlist second=%s: %s" % (T.kind(s), o.vk), {"fam": "tvlist", "t": T.tj(t), "s": T.tj(s), "goal": g},
                          expected=o.exp, observed=o.obs)


# ---------------------------------------------------------------------------
# subsumes_term

def subsumes_goal(pa, ta, pb, tb):
    return "g((" + ",".join(pa + pb + ["G0 = %s" % ta, "S0 = %s" % tb, "c23_subsumes(G0,S0,R)"]) + "))"


def judge_subsumes(res, a, b):
    want = 1 if U.subsumes(a, b) else 0
    sol, bad = one_sol(res, "subsumes_term", str(want))
    if bad:
        return bad
    if sol.get("R") != want:
        return Out("wrong", "subsumes_term gives %s expected %s" % (sol.get("R"), want), str(want), str(sol.get("R")))
    if not U.variant(("t", a, b), ("t", sol.get("G0"), sol.get("S0"))):
        return Out("wrong", "subsumes_term left a binding", show(("t", a, b)), show(("t", sol.get("G0"), sol.get("S0"))))
    return Out("subsumes:%d" % want)


def run_subsumes(w, shard, acc):
    _, lo, hi = shard
    S = T.shapes(2)
    cases = []
    for s1 in S[lo:hi]:
        for s2 in S:
            for (a, b) in T.fillings([s1, s2], 3):
                for (ra, pa, ta) in _C13.variants(a, ["lit", "univ", "chars"], "_A"):
                    for (rb, pb, tb) in _C13.variants(b, ["lit", "univ", "chars"], "_B"):
                        cases.append((a, b, ra, rb, subsumes_goal(pa, ta, pb, tb)))
    for batch in px.chunked(cases, 400):
        rs = px.run_goals(w, [c[4] for c in batch])
        for (a, b, ra, rb, g), res in zip(batch, rs):
            o = judge_subsumes(res, a, b)
            acc.case(bool(T.variables(a)) or T.has_string(a) or T.has_string(b), o.label, sample={"goal": g, "expected": o.exp, "observed": o.obs})
            if o.vk:
                acc.violation("subsumes %s/%s via %s/%s: %s" % (T.kind(a), T.kind(b), ra, rb, o.vk),
                              {"fam": "subsumes", "a": T.tj(a), "b": T.tj(b), "ra": ra, "rb": rb, "goal": g}, expected=o.exp, observed=o.obs)


# ---------------------------------------------------------------------------
# attributed variables

def attr_cases():
    X, Y = V("X"), V("Y")
    out = []
    for kind in ("dif", "freeze", "none"):
        for t in (X, ("f", X), ("f", X, X), ("g", X, Y), mklist([X, "a"], Y), T.str_term("ab", X)):
            ctx = T.Ctx("_K")
            pre = []
            tt = T._lit(t, ctx, pre)
            for arity in (2, 3):
                cp = "copy_term(T0,C)" if arity == 2 else "copy_term(T0,C,Gs)"
                g = "g((c23_attr(%s,X),T0 = %s,%s,term_variables(C,CVs),c23_still(%s,X,St)))" % (kind, tt, cp, kind)
                out.append((kind, t, arity, g))
    return out


def run_attr(w, acc):
    cases = attr_cases()
    rs = px.run_goals(w, [c[3] for c in cases])
    for (kind, t, arity, g), res in zip(cases, rs):
        sol, o = one_sol(res, "copy_term/%d" % arity)
        if not o:
            c = sol.get("C")
            t0 = sol.get("T0")
            if vmap(t, t0) is None:
                o = Out("wrong", "attr copy: original changed", show(t), show(t0))
            elif not U.variant(t, c):
                o = Out("wrong", "attr copy: not a variant", show(t), show(c))
            elif set(U.term_vars(c)) & set(U.term_vars(t0)):
                o = Out("wrong", "attr copy: shares a variable", "fresh", show(("t", t0, c)))
            elif unlist(sol.get("CVs"))[1] != NIL or unlist(sol.get("CVs"))[0] != U.term_vars(c):
                # term_variables/2 of the copy: each variable once, in order of first occurrence
                # (a copied attributed variable is reached through references of two kinds)
                o = Out("wrong", "attr copy: term_variables of the copy", show(mklist(U.term_vars(c))), show(sol.get("CVs")))
            elif sol.get("St") != 1:
                o = Out("wrong", "attr copy: constraint on the original lost", "1", str(sol.get("St")))
            elif arity == 3 and unlist(sol.get("Gs"))[1] != NIL:
                o = Out("wrong", "copy_term/3: goals not a list", "list", show(sol.get("Gs")))
            elif arity == 3 and kind == "none" and sol.get("Gs") != NIL:
                o = Out("wrong", "copy_term/3: goals for a plain term", "[]", show(sol.get("Gs")))
            elif arity == 3 and kind == "dif" and sol.get("Gs") == NIL:
                o = Out("wrong", "copy_term/3: no residual goal for dif", "non-empty", "[]")
            else:
                o = Out("ok")
        acc.case(True, "attr:" + o.label, sample={"goal": g, "expected": o.exp, "observed": o.obs})
        if o.vk:
            acc.violation("attr %s copy_term/%d %s: %s" % (kind, arity, T.kind(t), o.vk),
                          {"fam": "attr", "goal": g, "i": [c[3] for c in cases].index(g)}, expected=o.exp, observed=o.obs)


# ---------------------------------------------------------------------------
# '$VAR' naming

NV = [0, 1, 25, 26, 27, 51, 52, 701, 702]


def nv_name(n):
    return chr(65 + n % 26) + (str(n // 26) if n >= 26 else "")


def run_nvars(w, acc):
    cases = []
    for n in NV:
        cases.append((n, "g(write_term(f('$VAR'(%d),x),[numbervars(true),quoted(true)]))" % n, "f(%s,x)" % nv_name(n)))
        cases.append((n, "g(write_term(f('$VAR'(%d),x),[numbervars(false),quoted(true)]))" % n, "f('$VAR'(%d),x)" % n))
        cases.append((n, "g(write_canonical(f('$VAR'(%d),x)))" % n, "f('$VAR'(%d),x)" % n))
        cases.append((n, "g(print_message_lines_absent_so_writeq(f('$VAR'(%d),x)))" % n, None))
    cases = [c for c in cases if c[2] is not None]
    for n in (-1, "a", BIG, 1.5):
        cases.append((n, "g(write_term(f('$VAR'(%s),x),[numbervars(true),quoted(true)]))" % (T._lit(n, T.Ctx(), [])), None))
    rs = px.run_goals(w, [c[1] for c in cases])
    for (n, g, want), res in zip(cases, rs):
        if res.abn:
            o = Out("abnormal", "abnormal:" + res.abn, str(want), res.abn)
        elif want is None:
            o = Out("impl_defined")
        elif res.status != "done" or res.text != want:
            o = Out("wrong", "nvars: wrong text", want, "%s %r" % (res.status, res.text))
        else:
            o = Out("ok")
        acc.case(True, "nvars:" + o.label, sample={"goal": g, "expected": o.exp, "observed": o.obs})
        if o.vk:
            acc.violation("nvars n=%s: %s" % (T.kind(n), o.vk), {"fam": "nvars", "goal": g, "want": want}, expected=o.exp, observed=o.obs)


def run_shard(w, shard, tier):
    acc = px.ShardAcc()
    k = shard[0]
    if k == "inspect":
        run_inspect(w, shard, acc)
    elif k == "functor":
        run_functor(w, acc)
    elif k == "univ":
        run_univ(w, shard[1], acc)
    elif k == "tvlist":
        run_tvlist(w, acc)
    elif k == "subsumes":
        run_subsumes(w, shard, acc)
    elif k == "attr":
        run_attr(w, acc)
    elif k == "nvars":
        run_nvars(w, acc)
    return acc.result()


def recheck(w, case, tier):
    """re-run the family member that produced the violation and return its violation (same goal) if it recurs"""
    fam = case["fam"]
    acc = px.ShardAcc(max_viol=100000)
    acc.violation_orig = acc.violation
    if fam == "inspect":
        t = T.jt(case["t"])
        pre, txt = T.render(t, case["route"], T.Ctx("_B"))
        g = dict(inspect_goals(pre, txt, "all"))[case["op"]]
        res = px.run_goals(w, [g])[0]
        o = judge_inspect(case["op"], res, t)
        if o.vk:
            return {"sig": "inspect %s via %s: %s" % (T.kind(t), case["route"], o.vk), "case": case, "expected": o.exp, "observed": o.obs}
        return None
    if fam == "subsumes":
        a, b = T.jt(case["a"]), T.jt(case["b"])
        pa, ta = T.render(a, case["ra"], T.Ctx("_A"))
        pb, tb = T.render(b, case["rb"], T.Ctx("_B"))
        res = px.run_goals(w, [subsumes_goal(pa, ta, pb, tb)])[0]
        o = judge_subsumes(res, a, b)
        if o.vk:
            return {"sig": "subsumes %s/%s via %s/%s: %s" % (T.kind(a), T.kind(b), case["ra"], case["rb"], o.vk), "case": case,
                    "expected": o.exp, "observed": o.obs}
        return None
    # small families: re-run the whole family and pick the violation with the same goal
    acc = px.ShardAcc(max_viol=100000)
    acc._per_sig.clear()
    if fam == "functor":
        run_functor(w, acc)
    elif fam == "univ":
        run_univ(w, 0, acc)
        run_univ(w, 1, acc)
    elif fam == "tvlist":
        run_tvlist(w, acc)
    elif fam == "attr":
        run_attr(w, acc)
    elif fam == "nvars":
        run_nvars(w, acc)
    for v in acc.violations:
        if v["case"].get("goal") == case.get("goal"):
            return v
    return None
