"""C17 — malformed input never crashes or desynchronises the reader (DESIGN §6 C17).

(a) every string of length <= 4 (quick) over a 26-character soup alphabet,
followed by " .\\nsentinel(1).\\nsentinel(2).\\n"; (b) every single-character
deletion / insertion / substitution of a corpus of valid clauses. Each input
is written to a file and read with read_term/2 until end_of_file (capped).
Oracle: every read is a term or a syntax_error; end_of_file is reached; and
where a conservative reference tokenizer finds the clause end tokens
unambiguously, there is exactly one read per clause and the sentinels are
read back exactly.
"""
import itertools
import os
import re

from vx.core import px, pool, terms

ID = "C17"
LEVEL = "exploration"
ENGINE = "PEX"
TECHNIQUE = "bounded exhaustive enumeration of input texts; read loop on the real reader; reference end-token segmentation"
SOUP = ["a", "X", "_", "0", "'", '"', "`", "\\", "(", ")", "[", "]", "{", "}", ",", "|", ".", " ", "\n", "%", "/",
        "*", "-", ":", "é", "\x01"]
TAIL = " .\nsentinel(1).\nsentinel(2).\n"
RULE = ("(a) quick: all strings of length <= 3 plus length 4 over a 16-character sub-alphabet; thorough: all of length <= 4 "
        "plus length 5 over a 11-character sub-alphabet, "
        "over the 26-character soup alphabet, each followed by ' .\\nsentinel(1).\\nsentinel(2).\\n'; (b) every single-character "
        "deletion, insertion and substitution (quick: 10 replacement characters; thorough: all 26) of a 68-clause corpus of (mostly valid) "
        "text, followed by the sentinels; and, under each of the operator tables default + op(1100,xfy,'|'), op(700,xfx,a), "
        "op(200,xfy,a), op(200,fy,a), op(200,xf,a), op(0,yfx,-): all strings of length <= 4 over a 10-character (thorough 12) "
        "sub-alphabet and the corpus mutations with 4 (thorough 10) replacement characters. Inputs are files read with read_term/2 until end_of_file (cap 16/24 reads). "
        "Non-trivial: at least one read raises a syntax error.")
LEVEL_TEXT = ("bounded exhaustive exploration of the real lexer/parser/stream stack in worker subprocesses (a panic, crash or "
              "hang is attributed to the input)")
ASSUMPTIONS = ["driver transport; input files are written byte-exactly by the explorer process",
               "reference segmentation is only applied to texts without quotes, back-quotes, %, /*, 0' and control characters",
               "an end token is a '.' that starts a token and is followed by layout or end of file (ISO 6.4.8)"]
MIN_OUTCOMES = 3
SUB5 = ["a", "0", "'", '"', "\\", "(", ")", ",", ".", " ", "\n"]
SUB4 = ["a", "X", "0", "'", '"', "\\", "(", ")", "[", ",", "|", ".", " ", "\n", "%", "\x01"]
MUT_Q = ["a", "X", "0", "'", '"', "\\", "(", ".", " ", "\x01"]

# operator-table variants: name -> (ops applied on top of the default table, ops undoing them)
TABLES = {
    "default": ([], []),
    "bar_xfy1100": ([(1100, "xfy", "|")], [(0, "xfy", "|")]),
    "a_xfx700": ([(700, "xfx", "a")], [(0, "xfx", "a")]),
    "a_xfy200": ([(200, "xfy", "a")], [(0, "xfy", "a")]),
    "a_fy200": ([(200, "fy", "a")], [(0, "fy", "a")]),
    "a_xf200": ([(200, "xf", "a")], [(0, "xf", "a")]),
    "no_infix_minus": ([(0, "yfx", "-")], [(500, "yfx", "-")]),
}
VARIANTS = [t for t in TABLES if t != "default"]
# reduced families run under each variant table
VSOUP = {"quick": ["a", "X", "(", ")", "[", ",", "|", ".", " ", "-"],
         "thorough": ["a", "X", "0", "(", ")", "[", "]", ",", "|", ".", " ", "-"]}
VMUT = {"quick": ["a", "|", "(", "-"], "thorough": MUT_Q}

CORPUS = [
    "foo.", "foo(bar, Baz).", "p :- q, r.", "p(X) :- q(X, _), \\+ r(X).", "a :- b ; c -> d.",
    "x = [1,2,3|T].", "l([]).", "l([H|T]) :- l(T).", "s(\"abc\").", "s(\"a\\nb\\\\c\").",
    "q('hello world').", "q('don''t').", "q('a\\'b').", "q('\\x41\\').", "c(0'a, 0' , 0''').",
    "n(42, -7, 3.14, 1.0e10, 1.5E-3).", "n(0x1F, 0b101, 0o17).", "n(1_000_000).", "t :- X is 1 + 2 * 3 - 4 / 5.",
    "t :- X is -(1), Y is - 1, Z = a- -1.", "t :- X = f(A, B, A).", "{a, b}.", "g --> [a], g, {x}.",
    ":- dynamic(foo/1).", ":- op(700, xfx, ===).", "a % comment\n .", "a /* block */ .", "/* lead */ a.",
    "f((a,b), (c:-d)).", "f(;, '|', '[]', {}).", "f(- , + , *).", "- - a.", "\\+ \\+ a.", "f(a;b).",
    "p :- ( a -> b ; c ).", "p :- [X|Y] = [1|2].", "f(`abc`).", "f('').", "f(\"\").", "X = 'a b'(1).",
    "a:b:c.", "f(A) :- A = \"x\", !.", "_ = _A.", "f([a|b]).", "f( [ ] , { } ).", "f(1.0e+5).",
    "f(- 1).", "f(-a).", "f(a- 1).", "f(1 - 1).", "f(2**3, 2^3).", "f(a@<b, a=..b).", "f(\\).", "f(a\\b).",
    "f(\"a\\\nb\").", "f('a\\\nb').", "f(0.5).", "f(é, 'É', \"é\").", "f(\"\\x41\\\\\").", "a.\nb.",
    # escapes at and beyond the code-point limits (some of these are invalid as they stand)
    "f('\\x10FFFF\\').", "f('\\xD800\\').", "f('\\x110000\\').", "f(0'\\xD7FF\\).", "f(\"\\xDC00\\\").",
    "f('\\777777777\\').", "f('\\0\\').", "f(`a\\x41\\`).",
]


def soups(tier):
    if tier == "thorough":
        for n in range(0, 5):
            for t in itertools.product(SOUP, repeat=n):
                yield "".join(t)
        for t in itertools.product(SUB5, repeat=5):
            yield "".join(t)
    else:
        for n in range(0, 4):
            for t in itertools.product(SOUP, repeat=n):
                yield "".join(t)
        for t in itertools.product(SUB4, repeat=4):
            yield "".join(t)


def mutations(clause, alpha):
    n = len(clause)
    seen = set()
    for i in range(n):
        m = clause[:i] + clause[i + 1:]
        if m not in seen:
            seen.add(m)
            yield ("del", i, "", m)
    for i in range(n + 1):
        for c in alpha:
            m = clause[:i] + c + clause[i:]
            if m not in seen:
                seen.add(m)
                yield ("ins", i, c, m)
    for i in range(n):
        for c in alpha:
            if c != clause[i]:
                m = clause[:i] + c + clause[i + 1:]
                if m not in seen:
                    seen.add(m)
                    yield ("sub", i, c, m)


def vsoups(tier):
    for n in range(0, 5):
        for t in itertools.product(VSOUP[tier], repeat=n):
            yield "".join(t)


def ops_text(ops):
    return "[" + ",".join("op(%d,%s,[%s])" % (p, t, ",".join(str(ord(c)) for c in n)) for (p, t, n) in ops) + "]"


def set_table(w, table):
    ops, _ = TABLES[table]
    if ops:
        r = px.run_goals(w, ["g(c17_ops(%s))" % ops_text(ops)])[0]
        if r.status != "done" or len(r.sols) != 1:
            raise pool.MachineryError("cannot set operator table %s: %r" % (table, r))


def restore_table(w, table):
    _, undo = TABLES[table]
    if undo:
        r = px.run_goals(w, ["g(c17_ops(%s))" % ops_text(undo)])[0]
        if r.abn or r.status != "done" or len(r.sols) != 1:
            w.new_machine()


def bound_text(tier):
    nv = sum(1 for _ in vsoups(tier))
    nvm = sum(1 + sum(1 for _ in mutations(c, VMUT[tier])) for c in CORPUS)
    return _bound_default(tier) + "; under each of %d operator-table variants (%s): %d soup strings (length <= 4 over %d characters) + %d corpus mutations" % (
        len(VARIANTS), ", ".join(VARIANTS), nv, len(VSOUP[tier]), nvm)


def _bound_default(tier):
    ns = sum(1 for _ in soups(tier))
    alpha = SOUP if tier == "thorough" else MUT_Q
    nm = sum(1 + sum(1 for _ in mutations(c, alpha)) for c in CORPUS)
    return "%d soup strings (%s) + %d corpus mutations (%d clauses, %d replacement characters)" % (
        ns, "length <= 4, and length 5 over 11 characters" if tier == "thorough" else "length <= 3, and length 4 over 16 characters",
        nm, len(CORPUS), len(alpha))


NSOUP = {"quick": 32, "thorough": 64}

# family "bq": token strings with back-quoted tokens (a lexical error in the default flag setting) next to
# each other, to other tokens and to the end dot, so that a clause holds several lexical errors
BQ_TOKENS = ["a", "X", "1", "`x`", "`y`", "(", ")", ",", "=", " ", ":-", "1_", "[", "|"]


def bq_soups(tier):
    for n in range(1, 5 if tier == "quick" else 6):
        for t in itertools.product(BQ_TOKENS if n <= 4 else BQ_TOKENS[:9], repeat=n):
            if any(x.startswith("`") for x in t):
                yield "".join(t)
                yield "".join(t) + " "      # no layout before the end dot / layout before it comes from TAIL


NVSOUP = {"quick": 4, "thorough": 8}


def shards(tier):
    sh = [("soup", k, NSOUP[tier], "default") for k in range(NSOUP[tier])]
    sh += [("bq", k, 8, "default") for k in range(8)]
    for i in range(0, len(CORPUS), 4):
        sh.append(("mut", i, min(i + 4, len(CORPUS)), "default"))
    for tb in VARIANTS:
        for k in range(NVSOUP[tier]):
            sh.append(("soup", k, NVSOUP[tier], tb))
        for i in range(0, len(CORPUS), 17):
            sh.append(("mut", i, min(i + 17, len(CORPUS)), tb))
    return sh


def helper_text():
    with open(os.path.join(pool.ROOT, "vx", "prolog", "c17_helper.pl")) as f:
        return f.read()


def setup(w, tier):
    w.consult(helper_text(), persist=True)


def path(i=0):
    d = os.path.join(pool.WORK, "agentC")
    os.makedirs(d, exist_ok=True)
    return os.path.join(d, "c17_%d_%d.pl" % (os.getpid(), i))


# --------------------------------------------------------------------------
# reference end-token segmentation (only for unambiguous texts)
SYMBOL = set("#$&*+-./:<=>?@^~\\")
LAYOUT = set(" \t\n\r")


# a back-quoted token whose content is alphanumeric: its extent is unambiguous (no escapes, no dots)
_BQ = re.compile(r"`[A-Za-z0-9]*`")


def flags(text):
    f = []
    if "\x01" in text:
        f.append("ctrl")
    if any(c in text for c in "'\"") or "`" in _BQ.sub("", text):
        f.append("quote")
    if "%" in text or "/*" in text:
        f.append("comment")
    return f


def unambiguous(text):
    return not flags(text)


def segments(text):
    """-> (list of clause texts each ending in its end token, leftover text)"""
    segs = []
    i, start, n = 0, 0, len(text)
    while i < n:
        c = text[i]
        if c in SYMBOL:
            j = i
            while j < n and text[j] in SYMBOL:
                j += 1
            if text[i:j] == "." and (j == n or text[j] in LAYOUT):
                segs.append(text[start:j])
                start = j
            i = j
        elif c == "`":
            i = _BQ.match(text, i).end()
        elif c.isdigit():
            j = i
            while j < n and text[j].isdigit():
                j += 1
            if j + 1 < n and text[j] == "." and text[j + 1].isdigit():
                j += 1
                while j < n and text[j].isdigit():
                    j += 1
            i = j
        elif c.isalnum() or c == "_":
            j = i
            while j < n and (text[j].isalnum() or text[j] == "_"):
                j += 1
            i = j
        else:
            i += 1
    return segs, text[start:]


def expectation(text):
    """-> list of sets of acceptable read classes (one per read), or None if ambiguous"""
    if not unambiguous(text):
        return None
    segs, rest = segments(text)
    exp = []
    for s in segs:
        st = s.strip()
        if st == "sentinel(1).":
            exp.append({("s", 1)})
        elif st == "sentinel(2).":
            exp.append({("s", 2)})
        else:
            exp.append({"t", "se"})
    if rest.strip():
        exp.append({"se"})
    exp.append({"eof"})
    return exp


FIRST_KIND = [None]


def classes(res):
    """Res of c17_run -> list of read classes (hashable)"""
    if res.abn:
        return None
    if res.status != "done" or len(res.sols) != 1:
        return [("driver", terms.show(res.exc) if res.status == "exc" else str(res.status))]
    out = []
    for x in terms.unlist(res.sols[0]["R"])[0]:
        if isinstance(x, tuple) and x[0] == "se":
            out.append("se")
            if str(x[1]) != "incomplete_reduction":
                FIRST_KIND.append(str(x[1]))
        elif isinstance(x, tuple) and x[0] == "s":
            out.append(("s", x[1]))
        elif isinstance(x, tuple) and x[0] == "oe":
            out.append(("oe", px.formal_sig(x[1])))
        elif isinstance(x, tuple):
            out.append((x[0], terms.show(x[1])[:60]))
        else:
            out.append(x)
    return out


def show_classes(cl):
    return " ".join(c if isinstance(c, str) else "%s(%s)" % c for c in cl)


def judge(text, res):
    """-> (label, violation kind or None, observed text)"""
    if res.abn:
        return ("abnormal", "abn:" + res.abn, res.abn)
    del FIRST_KIND[1:]
    cl = classes(res)
    obs = show_classes(cl)
    fk = ",".join(sorted(set(FIRST_KIND[1:]))) or "-"   # lexer-level error kinds seen
    bad = [c for c in cl if not (c in ("t", "se", "eof") or (isinstance(c, tuple) and c[0] == "s"))]
    if bad:
        b = bad[0]
        if b == "cap":
            kind = "no_eof errors=%s" % fk
            if cl[:-1] and all(c == "se" for c in cl[:-1]):
                kind = "no_eof:all_reads_syntax_error errors=%s" % fk
            return ("no_eof", kind, obs)
        return ("bad_read", "bad_read:%s" % (b if isinstance(b, str) else "%s(%s)" % b), obs)
    if not cl or cl[-1] != "eof":
        return ("no_eof", "no_eof:loop_ended", obs)
    exp = expectation(text)
    nse = sum(1 for c in cl if c == "se")
    tag = "allterms" if nse == 0 else ("se_first" if cl[0] == "se" else "se_later")
    if exp is None:
        return ("ambiguous:" + tag, None, obs)
    if len(cl) != len(exp):
        return ("desync", "desync:%s_reads errors=%s" % ("more" if len(cl) > len(exp) else "fewer", fk), obs)
    for c, e in zip(cl, exp):
        if c not in e:
            return ("desync", "desync:wrong_read errors=%s" % fk, obs)
    return ("segmented:" + tag, None, obs)


def expected_text(text):
    exp = expectation(text)
    if exp is None:
        return "every read a term or syntax_error; end_of_file reached"
    return " ".join("|".join(sorted(x if isinstance(x, str) else "s(%d)" % x[1] for x in e)) for e in exp)


def text_class(text):
    """coarse class of the first offending character for signatures"""
    f = flags(text)
    return "+".join(f) if f else "plain"


BATCH = 250


def run_texts(w, texts, cap):
    """each text is written (exact UTF-8 bytes, by the worker's put_file) to its
    own file and read by c17_read_file/3"""
    out = []
    for k in range(0, len(texts), BATCH):
        part = texts[k:k + BATCH]
        for i, t in enumerate(part):
            # (worker.put_file costs one RPC round trip per file; the explorer
            # writes the same bytes itself)
            with open(path(i), "wb") as f:
                f.write(t.encode("utf-8"))
        out.extend(px.run_goals(w, ["g(c17_read_file('%s',%d,R))" % (path(i), cap) for i in range(len(part))]))
    return out


def sig_of(part, text, vk, table="default"):
    return "%s%s %s %s" % (part, "" if table == "default" else "@" + table, vk, text_class(text))


def run_shard(w, shard, tier):
    table = shard[3]
    set_table(w, table)
    try:
        return _run_shard(w, shard, tier, table)
    finally:
        restore_table(w, table)


def _run_shard(w, shard, tier, table):
    acc = px.ShardAcc()
    variant = table != "default"
    if shard[0] == "soup":
        _, k, n, _t = shard
        src = vsoups(tier) if variant else soups(tier)
        items = (("soup", s, s + TAIL) for i, s in enumerate(src) if i % n == k)
        cap = 16
    elif shard[0] == "bq":
        _, k, n, _t = shard
        # the end dot directly after the last token, and after a blank
        items = (("bq", s, s + TAIL[1:]) for i, s in enumerate(bq_soups(tier)) if i % n == k)
        cap = 16
    else:
        _, lo, hi, _t = shard
        alpha = VMUT[tier] if variant else (SOUP if tier == "thorough" else MUT_Q)

        def gen():
            for ci in range(lo, hi):
                c = CORPUS[ci]
                yield (("mut", ci, "orig", 0, ""), c + "\nsentinel(1).\nsentinel(2).\n")
                for (op, i, ch, m) in mutations(c, alpha):
                    yield (("mut", ci, op, i, ch), m + "\nsentinel(1).\nsentinel(2).\n")
        items = ((x[0][0], x[0], x[1]) for x in gen())
        cap = 24
    for batch in px.chunked(items, BATCH):
        rs = run_texts(w, [b[2] for b in batch], cap)
        if variant and any(r.abn for r in rs):
            set_table(w, table)      # a panic/crash rebuilt the machine with the default table
        for (part, ident, text), r in zip(batch, rs):
            label, vk, obs = judge(text, r)
            nt = "se" in obs.split() or vk is not None
            acc.case(nt, label, sample=None if len(acc.samples) >= 3 else {"input": text, "table": table, "reads": obs})
            if vk:
                acc.violation(sig_of(part, text, vk, table), {"part": part, "text": text, "cap": cap, "table": table},
                              expected=expected_text(text), observed=obs)
    return acc.result()


def recheck(w, case, tier):
    text = case["text"]
    table = case.get("table", "default")
    set_table(w, table)
    try:
        r = run_texts(w, [text], case.get("cap", 16))[0]
    finally:
        restore_table(w, table)
    label, vk, obs = judge(text, r)
    if vk:
        return {"sig": sig_of(case["part"], text, vk, table), "case": case, "expected": expected_text(text), "observed": obs}
    return None
