"""C29 — Toplevel answers are faithful and re-executable (DESIGN §6 C29).

Seam.  get_single_char/1 needs a terminal (crossterm raw mode), so the only
replaced step is the key press: vx/prolog/c29_toplevel.pl reproduces the four
lines of submit_query_and_print_results/2 with '$report_all' = true, which makes
the toplevel's own read_input/2 take its "report all solutions" branch (what
typing `a` at the first prompt selects) instead of reading a key.  Everything
that computes and prints answers is the real src/toplevel.pl code:
run_query_goal/4 (choice-point test, call_residue_vars, attribute projection,
extend_var_list, gather_equations), toplevel_query_callback/3,
write_leaf_answer/2, write_eq/3, and the failure-driven loop of repl/0.

Space.  Queries are conjunctions of goals whose solutions a small Python
solver knows exactly: member/2, between/3, disjunctions (also with failing
branches), unifications with answer-shape stressors (operators that need
brackets, strings, partial and improper lists, quoted atoms, aliasing,
anonymous variables, nesting), dif/2 and freeze/2 residues, true/fail.
Singles and ordered pairs over all goals x two variable patterns, triples over a
core alphabet x three variable patterns, and X = T for every operator term T of
depth <= 2 over {-, +, \\} x {-, ^, *, =, ',', :-} x {a, 1, -, -1}.

Oracle, per query:
  * the printed text splits (on newline+";  ") into exactly as many answers as
    the model has solutions, in order; a trailing `false` must appear when the
    model has a definite untried alternative after the last solution, must not
    appear when no choice point can exist, and is not judged when the only
    possible choice point belongs to member/between (library-dependent);
  * every answer text reads back with read_term_from_chars using the query's
    variable names; run alone it yields bindings that are a variant of the
    model's i-th solution, and it is consistent with exactly the same ground
    probes (every assignment of {a, b, 1} to the query variables) as the
    model's solution + residual constraints -- this compares residual goals
    semantically, not textually;
  * (i-th solution of Query, Answer_i) and (Answer_i, Query) succeed.
"""
import itertools

from vx.core import px
from vx.core.terms import V, S, fmt, mklist, unlist, list_to_str

ID = "C29"
LEVEL = "exploration"
ENGINE = "PEX"
CLAIMED = True
TECHNIQUE = "exhaustive enumeration of queries over a goal alphabet; printed answers re-read, re-executed and compared with a Python solver"
RULE = ("all single goals, all ordered pairs, triples over a core alphabet x variable patterns, all operator terms of depth <= 2; "
        "non-trivial: the query has >= 2 answers or an answer carries a residual goal")
LEVEL_TEXT = "bounded exhaustive exploration of the query space through the real toplevel answer code (key press replaced)"
ASSUMPTIONS = ["typing `a` at the first prompt is equivalent to '$report_all' = true from the start (read_input/2, by inspection)",
               "the Python solver for =, member, between, ;, dif, freeze(_, true)",
               "read_term_from_chars/3 and the driver transport (C15/C45)",
               "answers are split on newline + ';  ' (no answer in the space prints a raw newline)"]
MIN_OUTCOMES = 5

X, Y, Z, W = V("X"), V("Y"), V("Z"), V("_W")
PROBE_VALUES = ["a", "b", 1]

NO, MAYBE, YES = 0, 1, 2


# ---------------------------------------------------------------------------
# goal alphabet: functions of (v, w) -> goal term

def L(*xs, tail="[]"):
    return mklist(list(xs), tail)


def gens(v, w):
    return [
        ("mem2", ("member", v, L("a", "b"))),
        ("mem3", ("member", v, L(1, 2, 3))),
        ("or2", (";", ("=", v, "a"), ("=", v, "b"))),
        ("or2f", (";", ("=", v, "a"), (";", ("=", v, "b"), "fail"))),
        ("orf2", (";", ("=", v, "a"), (";", "fail", ("=", v, "b")))),
        ("btw", ("between", 1, 3, v)),
    ]


def constraints(v, w):
    return [
        ("difa", ("dif", v, "a")),
        ("difvw", ("dif", v, w)),
        ("diff", ("dif", ("f", v, w), ("f", "a", "b"))),
        ("frz", ("freeze", v, "true")),
        ("alias", ("=", v, w)),
    ]


def control(v, w):
    return [("true", "true"), ("fail", "fail"), ("tt", (";", "true", "true")), ("tf", (";", "true", "fail"))]


SHAPES_CORE = [
    ("s_f", lambda v, w: ("f", w)),
    ("s_str", lambda v, w: S("ab")),
    ("s_plist", lambda v, w: L(1, 2, tail=w)),
    ("s_conj", lambda v, w: (",", "a", "b")),
    ("s_neg", lambda v, w: ("-", 1)),
    ("s_qatom", lambda v, w: "A b"),
]

SHAPES_MORE = [
    ("s_clause", lambda v, w: (":-", "a", "b")),
    ("s_plus", lambda v, w: ("+", 1, 2)),
    ("s_minusr", lambda v, w: ("-", 1, ("-", 2, 3))),
    ("s_minusl", lambda v, w: ("-", ("-", 1, 2), 3)),
    ("s_negneg", lambda v, w: ("-", ("-", 1))),
    ("s_nega", lambda v, w: ("-", "a")),
    ("s_negnum", lambda v, w: -1),
    ("s_negnegnum", lambda v, w: ("-", -1)),
    ("s_minusneg", lambda v, w: ("-", 1, -1)),
    ("s_improper", lambda v, w: L("a", tail="b")),
    ("s_nil", lambda v, w: "[]"),
    ("s_curly", lambda v, w: "{}"),
    ("s_curlya", lambda v, w: ("{}", "a")),
    ("s_str1", lambda v, w: S("a")),
    ("s_strq", lambda v, w: S('a"b')),
    ("s_strsp", lambda v, w: S("a b")),
    ("s_float", lambda v, w: 1.0),
    ("s_bigf", lambda v, w: 1.0e10),
    ("s_big", lambda v, w: 2 ** 70),
    ("s_anon", lambda v, w: ("f", V("_"))),
    ("s_eq", lambda v, w: ("=", "a", "b")),
    ("s_dir", lambda v, w: (":-", "a")),
    ("s_not", lambda v, w: ("\\+", "a")),
    ("s_lconj", lambda v, w: L((",", "a", "b"))),
    ("s_fconj", lambda v, w: ("f", (",", "a", "b"))),
    ("s_or", lambda v, w: (";", "a", "b")),
    ("s_ite", lambda v, w: ("->", "a", "b")),
    ("s_nl", lambda v, w: "\n"),
    ("s_empty", lambda v, w: ""),
    ("s_semi", lambda v, w: ";"),
    ("s_fsemi", lambda v, w: ("f", ";")),
    ("s_quote", lambda v, w: "it's"),
    ("s_share", lambda v, w: ("f", w, V("Z"), w)),
    ("s_deep", lambda v, w: ("f", ("f", ("f", ("f", ("f", ("f", "a"))))))),
    ("s_deepl", lambda v, w: L(L(L("a")))),
    ("s_pow", lambda v, w: ("**", 2, 3)),
    ("s_colon", lambda v, w: (":", "a", (":", "b", "c"))),
    ("s_bar", lambda v, w: "|"),
    ("s_comma", lambda v, w: ","),
    ("s_dot", lambda v, w: "."),
    ("s_plusatom", lambda v, w: "+"),
    ("s_fplus", lambda v, w: ("f", "+")),
    ("s_opop", lambda v, w: ("-", "-")),
    ("s_minus_a_op", lambda v, w: ("-", ("-", "a"))),
    ("s_spy", lambda v, w: ("dynamic", "a")),
    ("s_ab", lambda v, w: L("a", "b")),
    ("s_a1", lambda v, w: L("a", 1)),
    ("s_var_list", lambda v, w: L(w, w)),
]


def alphabet(which, v, w):
    out = gens(v, w) + constraints(v, w) + control(v, w)
    shapes = SHAPES_CORE + (SHAPES_MORE if which == "all" else [])
    out += [(n, ("=", v, f(v, w))) for n, f in shapes]
    return out


_QCACHE = {}


def queries(tier):
    """the query space; queries on which a goal would raise a type error (between/3 called
    with a non-integer) are not part of it"""
    if tier not in _QCACHE:
        out = []
        for q in queries_raw(tier):
            try:
                model(q[1])
            except ValueError:
                continue
            out.append(q)
        _QCACHE[tier] = out
    return _QCACHE[tier]


def queries_raw(tier):
    """-> list of (tag, [goal, ...])"""
    qs = []
    for n, g in alphabet("all", X, Y):
        qs.append(("single:" + n, [g]))
    for n, g in alphabet("all", W, Y):
        if n.startswith(("mem2", "s_f", "difa", "alias", "s_str")):
            qs.append(("single_:" + n, [g]))
    al1 = alphabet("all", X, Y)
    for pat, (v2, w2) in (("xy", (Y, X)), ("xx", (X, Y))):
        al2 = alphabet("all", v2, w2)
        for (n1, g1), (n2, g2) in itertools.product(al1, al2):
            qs.append(("pair:%s:%s,%s" % (pat, n1, n2), [g1, g2]))
    # query variables that are named like the names the toplevel makes up for fresh variables (_A, _B, ...)
    # next to answers that hold several fresh variables: the made-up names must avoid them AND stay distinct
    A_, B_, C_, G_ = V("_A"), V("_B"), V("_C"), V("_G")
    an = lambda: V("_")
    for k, goals in enumerate([
            [("=", Y, A_), ("=", Z, ("f", an(), an()))],
            [("=", Y, A_), ("=", Z, ("f", an(), an(), an()))],
            [("=", Y, B_), ("=", Z, ("f", an(), an(), an()))],
            [("=", Y, ("g", A_, C_)), ("=", Z, ("f", an(), an(), an(), an()))],
            [("=", Y, ("g", A_, B_)), ("=", Z, L(an(), an(), an()))],
            [("=", Z, ("f", an(), an())), ("=", Y, A_)],
            [("=", Y, G_), ("=", Z, ("f", an(), X, an(), an()))],
            [("=", Y, A_), ("dif", Z, ("f", an(), an()))],
    ]):
        qs.append(("fresh:%d" % k, goals))
    names = ["mem2", "or2f", "btw", "difa", "difvw", "alias", "s_f", "s_plist", "tf"]
    if tier == "thorough":
        names += ["orf2", "diff", "frz", "s_str", "tt", "fail"]
    for pat, (va, vb, vc) in (("xyz", ((X, Y), (Y, Z), (Z, X))), ("xyx", ((X, Y), (Y, X), (X, Y))),
                              ("xxy", ((X, Y), (X, Y), (Y, X)))):
        al = [dict(alphabet("core", *vw)) for vw in (va, vb, vc)]
        for n1, n2, n3 in itertools.product(names, repeat=3):
            qs.append(("triple:%s:%s,%s,%s" % (pat, n1, n2, n3), [al[0][n1], al[1][n2], al[2][n3]]))
    for k, t in enumerate(opterms(tier)):
        qs.append(("opterm:%d" % k, [("=", X, t)]))
    return qs


OP_U = ["-", "+", "\\"]
OP_B = ["-", "^", "*", "=", ",", ":-"]
OP_LEAVES = ["a", 1, "-", -1]


def opterms(tier):
    """operator terms of depth <= 2 (the writer must bracket/space them so that they read back)"""
    d1 = [(u, l) for u in OP_U for l in OP_LEAVES] + [(b, l1, l2) for b in OP_B for l1 in OP_LEAVES for l2 in OP_LEAVES]
    out = list(d1)
    out += [(u, t) for u in OP_U for t in d1]
    side = OP_LEAVES if tier == "thorough" else ["a"]
    for b in OP_B:
        for t in d1:
            for l in side:
                out.append((b, t, l))
                out.append((b, l, t))
    return out


def bound_text(tier):
    return ("%d queries: singles and ordered pairs over the %d-goal alphabet x 2 variable patterns; triples over %d goals "
            "x 3 variable patterns; X = T for %d operator terms of depth <= 2"
            % (len(queries(tier)), len(alphabet("all", X, Y)), 9 if tier == "quick" else 15, len(opterms(tier))))


def shards(tier):
    n = len(queries(tier))
    k = 24 if tier == "quick" else 64
    return [("q", i, k) for i in range(k) if i < n]


def setup(w, tier):
    import os
    from vx.core import pool
    with open(os.path.join(pool.ROOT, "vx", "prolog", "c29_toplevel.pl")) as f:
        w.consult(f.read(), persist=True)


# ---------------------------------------------------------------------------
# the Python solver

def walk(t, s):
    while isinstance(t, V) and t in s:
        t = s[t]
    return t


def resolve(t, s):
    t = walk(t, s)
    if isinstance(t, tuple):
        return (t[0],) + tuple(resolve(a, s) for a in t[1:])
    if isinstance(t, S):
        return mklist(list(t.s))
    return t


def norm(t):
    """strings as character lists"""
    if isinstance(t, S):
        return mklist(list(t.s))
    if isinstance(t, tuple):
        return (t[0],) + tuple(norm(a) for a in t[1:])
    return t


_fresh = [0]


def rename_anon(t):
    """every `_` is a distinct variable"""
    if isinstance(t, V) and t.n == "_":
        _fresh[0] += 1
        return V("_anon%d" % _fresh[0])
    if isinstance(t, tuple):
        return (t[0],) + tuple(rename_anon(a) for a in t[1:])
    return t


def unify(a, b, s):
    """-> extended substitution (new dict) or None"""
    s = dict(s)
    stack = [(a, b)]
    while stack:
        a, b = stack.pop()
        a, b = walk(a, s), walk(b, s)
        if isinstance(a, V):
            if isinstance(b, V) and a == b:
                continue
            if occurs(a, b, s):
                raise ValueError("cyclic terms are outside the query space")
            s[a] = b
        elif isinstance(b, V):
            if occurs(b, a, s):
                raise ValueError("cyclic terms are outside the query space")
            s[b] = a
        elif isinstance(a, tuple) and isinstance(b, tuple):
            if a[0] != b[0] or len(a) != len(b):
                return None
            stack.extend(zip(a[1:], b[1:]))
        else:
            if type(a) != type(b) or a != b:
                return None
    return s


def occurs(v, t, s):
    t = walk(t, s)
    if isinstance(t, V):
        return t == v
    if isinstance(t, tuple):
        return any(occurs(v, x, s) for x in t[1:])
    return False


def dif_status(a, b, s):
    s2 = unify(a, b, s)
    if s2 is None:
        return "entailed"
    if len(s2) == len(s):
        return "violated"
    return "pending"


def recheck_difs(s, difs):
    out = []
    for a, b in difs:
        st = dif_status(a, b, s)
        if st == "violated":
            return None
        if st == "pending":
            out.append((a, b))
    return tuple(out)


def solve(g, st, alts):
    """generator of (state, alts) ; state = (subst, difs, residual_flag)"""
    s, difs, res = st
    if g == "true":
        yield st, alts
    elif g == "fail":
        return
    elif g[0] == ",":
        for st1, a1 in solve(g[1], st, alts):
            for r in solve(g[2], st1, a1):
                yield r
    elif g[0] == ";":
        for r in solve(g[1], st, YES):
            yield r
        for r in solve(g[2], st, alts):
            yield r
    elif g[0] == "=":
        s2 = unify(g[1], g[2], s)
        if s2 is not None:
            d2 = recheck_difs(s2, difs)
            if d2 is not None:
                yield (s2, d2, res), alts
    elif g[0] == "member":
        els, _ = unlist(g[2])
        for i, e in enumerate(els):
            a = YES if i < len(els) - 1 else max(alts, MAYBE)
            for r in solve(("=", g[1], e), st, a):
                yield r
    elif g[0] == "between":
        lo, hi, v = g[1], g[2], walk(g[3], s)
        if isinstance(v, V):
            for k in range(lo, hi + 1):
                a = YES if k < hi else max(alts, MAYBE)
                for r in solve(("=", v, k), st, a):
                    yield r
        elif isinstance(v, int) and not isinstance(v, bool):
            if lo <= v <= hi:
                yield st, max(alts, MAYBE)
        else:
            raise ValueError("between/3 type error is outside the query space")
    elif g[0] == "dif":
        stt = dif_status(g[1], g[2], s)
        if stt == "entailed":
            yield st, alts
        elif stt == "pending":
            yield (s, difs + ((g[1], g[2]),), res), alts
    elif g[0] == "freeze":
        v = walk(g[1], s)
        if isinstance(v, V):
            yield (s, difs, res + ((v,),)), alts
        else:
            yield st, alts
    else:
        raise ValueError(g)


def conj(goals):
    g = goals[-1]
    for x in reversed(goals[:-1]):
        g = (",", x, g)
    return g


def term_vars(t, acc):
    if isinstance(t, V):
        if t not in acc:
            acc.append(t)
    elif isinstance(t, tuple):
        for a in t[1:]:
            term_vars(a, acc)
    return acc


def model(goals):
    """-> (var names in first-occurrence order, [solution dicts], trailing in must/may/must_not)"""
    _fresh[0] = 0
    g = norm(rename_anon(conj(goals)))
    qvars = [v for v in term_vars(g, []) if not str(v.n).startswith("_anon")]
    sols = []
    last_alts = YES
    for (s, difs, res), a in solve(g, ({}, (), ()), NO):
        frozen = [v for (v,) in res if isinstance(walk(v, s), V)]
        sols.append({"vals": [resolve(v, s) for v in qvars], "s": s, "difs": difs, "residual": bool(difs) or bool(frozen)})
        last_alts = a
    if not sols:
        trailing = "must"
    else:
        trailing = {YES: "must", MAYBE: "may", NO: "must_not"}[last_alts]
    return qvars, sols, trailing


def probes(nvars):
    return list(itertools.product(PROBE_VALUES, repeat=nvars))


def probe_bits(qvars, sol, ps):
    out = []
    for p in ps:
        s = sol["s"]
        ok = True
        for v, c in zip(qvars, p):
            s = unify(v, c, s)
            if s is None:
                ok = False
                break
        if ok and recheck_difs(s, sol["difs"]) is None:
            ok = False
        out.append(1 if ok else 0)
    return out


def canon(ts):
    """variant-canonical form of a list of terms"""
    m = {}

    def go(t):
        if isinstance(t, V):
            if t not in m:
                m[t] = len(m)
            return ("$v", m[t])
        if isinstance(t, tuple):
            return (t[0],) + tuple(go(a) for a in t[1:])
        if isinstance(t, float):
            return ("$f", repr(t))
        return t
    return [go(t) for t in ts]


# ---------------------------------------------------------------------------

def query_text(goals):
    return fmt(conj(goals)) + "."


def split_answers(text):
    """-> list of answer texts or None if the frame is not the toplevel's"""
    if not text.startswith("   ") or not text.endswith(".\n"):
        return None
    body = text[3:-2]
    return body.split("\n;  ")


def shape_class(tag):
    return tag.split(":")[0]


def skeleton(t):
    """operator skeleton of a term: functor names kept, leaves classed (op = the atom -, a = other atom, n = number)"""
    if isinstance(t, tuple):
        return "%s(%s)" % (t[0], ",".join(skeleton(x) for x in t[1:]))
    if isinstance(t, str):
        return "op" if t == "-" else "a"
    return "n"


def run_shard(w, shard, tier):
    acc = px.ShardAcc()
    _, i, k = shard
    qs = queries(tier)[i::k]
    for batch in px.chunked(qs, 100):
        texts = [query_text(g) for _, g in batch]
        rs = px.run_goals(w, ["g(c29_top(%s))" % fmt(S(t)) for t in texts])
        for (tag, goals), qt, r in zip(batch, texts, rs):
            judge_query(w, acc, tag, goals, qt, r)
    return acc.result()


def judge_query(w, acc, tag, goals, qt, r):
    case = {"tag": tag, "query": qt}
    qvars, sols, trailing = model(goals)
    nt = len(sols) >= 2 or any(s["residual"] for s in sols)

    def bad(sig, exp, obs):
        acc.case(nt, "deviation")
        acc.violation(sig, case, expected=exp, observed=obs)

    if r.abn:
        return bad("%s: %s" % (shape_class(tag), r.abn), "answers", r.abn)
    if r.status == "exc":
        return bad("toplevel raised %s" % px.formal_sig(r.formal()), "answers", repr(r.exc))
    answers = split_answers(r.text)
    if answers is None:
        return bad("output is not framed as toplevel answers", "'   A1\\n;  A2 ... .\\n'", repr(r.text[:200]))
    has_false = len(answers) > 0 and answers[-1] == "false" and (len(answers) > 1 or not sols)
    shown = answers[:-1] if has_false else answers
    if len(shown) != len(sols):
        return bad("wrong number of answers: %s printed, %s solutions" % (count_class(len(shown)), count_class(len(sols))),
                   "%d answers" % len(sols), repr(r.text[:300]))
    if trailing == "must" and not has_false:
        return bad("missing trailing false (a choice point remained after the last solution)", "... ;  false.", repr(r.text[:300]))
    if trailing == "must_not" and has_false:
        return bad("spurious trailing false (no choice point can remain)", "no trailing false", repr(r.text[:300]))
    # read every answer back
    ps = probes(len(qvars))
    ptxt = fmt(mklist([mklist(list(p)) for p in ps]))
    goals2 = []
    for idx, a in enumerate(shown):
        goals2.append("c29_answer(%s,%s,%d,%s,R)" % (fmt(S(qt)), fmt(S(a + " .")), idx + 1, ptxt))
    rs = px.run_goals(w, goals2) if goals2 else []
    for idx, (a, sol, r2) in enumerate(zip(shown, sols, rs)):
        v = judge_answer(qvars, sol, ps, a, r2)
        if v:
            where = ("opterm " + skeleton(goals[0][2]) + ": ") if tag.startswith("opterm") else ""
            return bad("%s%s: %s" % (where, v[0], ans_class(a)), v[1], v[2] + " | answer text: " + a[:200])
    label = "n%s%s%s" % (count_class(len(sols)), ":res" if any(s["residual"] for s in sols) else "",
                         ":false" if has_false else "")
    acc.case(nt, label, sample={"query": qt, "printed": r.text, "model_solutions": len(sols), "trailing_false": trailing})


def count_class(n):
    return str(n) if n < 3 else "3+"


def ans_class(a):
    if "dif:" in a or "freeze:" in a:
        return "with residual goal"
    if a == "true":
        return "true"
    return "equations"


def judge_answer(qvars, sol, ps, a, r):
    if r.abn:
        return ("re-reading the answer: " + r.abn, "readable answer", r.abn)
    if r.status != "done" or len(r.sols) != 1:
        return ("re-reading the answer: helper did not complete", "r(...)", repr(r.exc or r.status))
    R = r.sols[0]["R"]
    if isinstance(R, tuple) and R[0] == "unreadable":
        return ("printed answer cannot be read back (%s)" % px.formal_sig(R[1]), "a readable goal", repr(R[1]))
    if R == "answer_failed":
        return ("printed answer fails when run on its own", "succeeds", "fails")
    _, bs, bits, qa, aq = R
    names = {}
    for e in unlist(bs)[0]:
        names[e[1]] = e[2]
    vals = [names.get(str(v.n), V("missing_" + str(v.n))) for v in qvars]
    if canon(vals) != canon(sol["vals"]):
        return ("answer run alone gives different bindings", repr(canon(sol["vals"])), repr(canon(vals)))
    obits = unlist(bits)[0] if bits != "[]" else []
    ebits = probe_bits(qvars, sol, ps)
    if list(obits) != ebits:
        return ("answer admits different ground instances than the solution", repr(ebits), repr(list(obits)))
    if qa != "true":
        return ("query's i-th solution followed by its answer fails", "true", str(qa))
    if aq != "true":
        return ("answer followed by the query fails", "true", str(aq))
    return None


def recheck(w, case, tier):
    acc = px.ShardAcc()
    hit = None
    for t in ("quick", "thorough"):
        for tag, goals in queries(t):
            if tag == case["tag"] and query_text(goals) == case["query"]:
                hit = (tag, goals)
                break
        if hit:
            break
    if not hit:
        return None
    tag, goals = hit
    qt = query_text(goals)
    r = px.run_goals(w, ["g(c29_top(%s))" % fmt(S(qt))])[0]
    judge_query(w, acc, tag, goals, qt, r)
    return acc.violations[0] if acc.violations else None
