"""C05 — equal integers behave identically regardless of how produced (DESIGN §6 C05).

Space: integers (20 quick / 46 thorough) x ordered pairs of production routes
(literal, number_codes, number_chars, reader, arithmetic through a bignum, //
shrinking a bignum, double negation, truncate(float), length/2, atom_length/2,
succ/2 both ways, copy_term, findall, a consulted fact, bb_put/bb_get,
assertz/retract, functor/3 arity, char_code/2) x ~70 integer-consuming contexts
(vx/prolog/C05_helpers.pl).  Oracle: for every route pair the outcome vector
equals the literal x literal vector of the same value, and the literal x literal
vector equals the model answer where the model fixes one (unification, order,
sorting, text, database lookup).
"""
import os
import sys

from vx.core import px, terms
from vx.model import numbers as N

if hasattr(sys, "set_int_max_str_digits"):
    sys.set_int_max_str_digits(0)

ID = "C05"
LEVEL = "exploration"
ENGINE = "PEX"
TECHNIQUE = "bounded exhaustive route x route x consumer differential with a model for the fixed answers"
LEVEL_TEXT = ("every (value, producing route, producing route, consuming context) combination of the bounded space "
              "is executed on the real machine and compared with the literal/literal outcome and with the model "
              "answer; exhaustive over the enumerated values, routes and contexts")
RULE = ("all integers of the value alphabet x all ordered pairs of applicable production routes x all consuming "
        "contexts. Non-trivial: exactly one of the two routes leaves a fixnum-range value in a bignum cell "
        "(arith, idiv, neg routes), i.e. the two operands have different heap encodings.")
ASSUMPTIONS = [
    "driver transport; findall/3 and catch/3 used to collect the outcome of each context",
    "the model answers (Python int semantics, decimal text, standard order of integers by value)",
    "contexts that would allocate proportionally to the value (length/2, functor/3, numlist/3, between/3 "
    "enumeration) are run only for values 0..255",
]
MIN_OUTCOMES = 6

FIX_MAX, FIX_MIN = N.FIX_MAX, N.FIX_MIN
VALUES_Q = [0, 1, 2, -3, 7, 97, 255, 2 ** 31, FIX_MAX, FIX_MIN, FIX_MAX + 1, FIX_MIN - 1, 2 ** 62, 2 ** 63 - 1,
            2 ** 63, -(2 ** 63), 2 ** 64, 10 ** 20, -(10 ** 20), 2 ** 100 + 1]
VALUES_T = list(VALUES_Q)
for _v in list(N.INT) + [3, 8, 100, 256]:
    if _v not in VALUES_T:
        VALUES_T.append(_v)

ROUTES = ["lit", "codes", "chars", "read", "arith", "idiv", "neg", "trunc", "length", "atom_length",
          "succ_b", "succ_f", "copy", "findall", "body", "bb", "assert", "functor", "char_code"]
BIGNUM_HELD = ("arith", "idiv", "neg")


def values(tier):
    return VALUES_T if tier == "thorough" else VALUES_Q


def bound_text(tier):
    vs = values(tier)
    return "%d integers x all ordered pairs of applicable routes (of %d) x ~70 consuming contexts" % (len(vs), len(ROUTES))


def is_small(v):
    return 0 <= v <= 255


def applicable(route, v):
    if route in ("length", "atom_length", "functor"):
        return is_small(v)
    if route == "char_code":
        return 1 <= v <= 255
    if route == "succ_b":
        return v >= 0
    if route == "succ_f":
        return v >= 1
    if route == "trunc":
        return float(v) == v
    return True


def lit(v):
    return str(v) if v >= 0 else "(%d)" % v


def route_goal(route, v, var, idx, tag):
    """goal text binding `var` to the integer v through `route`"""
    t = lit(v)
    if route == "lit":
        return "%s = %s" % (var, t)
    if route == "codes":
        return "(atom_codes('%d', Cs%s), number_codes(%s, Cs%s))" % (v, tag, var, tag)
    if route == "chars":
        return "(atom_chars('%d', Ch%s), number_chars(%s, Ch%s))" % (v, tag, var, tag)
    if route == "read":
        return "(atom_chars('%d .', Rd%s), read_term_from_chars(Rd%s, %s, []))" % (v, tag, tag, var)
    if route == "arith":
        return "%s is %s + 2^80 - 2^80" % (var, t)
    if route == "idiv":
        return "%s is (%s * 2^80) // 2^80" % (var, t)
    if route == "neg":
        return "%s is -(-(%s))" % (var, t)
    if route == "trunc":
        return "%s is truncate(float(%s))" % (var, t)
    if route == "length":
        return "(length(Ln%s, %s), length(Ln%s, %s))" % (tag, t, tag, var)
    if route == "atom_length":
        return "atom_length('%s', %s)" % ("a" * v, var)
    if route == "succ_b":
        return "succ(%s, %s)" % (var, lit(v + 1))
    if route == "succ_f":
        return "succ(%s, %s)" % (lit(v - 1), var)
    if route == "copy":
        return "copy_term(%s, %s)" % (t, var)
    if route == "findall":
        return "findall(Fz%s, Fz%s = %s, [%s])" % (tag, tag, t, var)
    if route == "body":
        return "c05v(v%d, %s)" % (idx, var)
    if route == "bb":
        return "(bb_put(c05rk, %s), bb_get(c05rk, %s))" % (t, var)
    if route == "assert":
        return "(retractall(c05r(_)), assertz(c05r(%s)), retract(c05r(%s)))" % (t, var)
    if route == "functor":
        return "(functor(Ft%s, f, %s), functor(Ft%s, _, %s))" % (tag, t, tag, var)
    if route == "char_code":
        return "(char_code(Cc%s, %s), char_code(Cc%s, %s))" % (tag, t, tag, var)
    raise KeyError(route)


def tables(vs):
    """the consulted fact tables shared by the static-database contexts"""
    out = []
    for i, v in enumerate(vs):
        out.append("c05s(%s, s%d).\n" % (lit(v), i))
    out.append("c05s(foo, sfoo).\nc05s(1.5, sflt).\n")
    for i, v in enumerate(vs):
        out.append("c05t(t%d, %s).\n" % (i, lit(v)))
    for i, v in enumerate(vs):
        out.append("c05m(%s, a%d).\nc05m(bar, x%d).\n" % (lit(v), i, i))
    for i, v in enumerate(vs):
        out.append("c05m(%s, b%d).\n" % (lit(v), i))
    for i, v in enumerate(vs):
        out.append("c05v(v%d, %s).\n" % (i, lit(v)))
    return "".join(out)


def setup(w, tier):
    vs = VALUES_T   # the tables always hold the thorough alphabet, so a value index means the same in both tiers
    r = w.consult(tables(vs), persist=True)
    if r.get("out", "").strip():
        raise px.pool.MachineryError("C05 tables: %r" % (r,))
    with open(os.path.join(os.path.dirname(os.path.dirname(os.path.abspath(__file__))), "prolog", "C05_helpers.pl")) as f:
        r = w.consult(f.read(), persist=True)
    if r.get("out", "").strip():
        raise px.pool.MachineryError("C05 helpers: %r" % (r,))


def shards(tier):
    sh = []
    for v in values(tier):
        i = VALUES_T.index(v)
        for r1 in ROUTES:
            if applicable(r1, v):
                sh.append((i, r1))
    return sh


# ---- model answers for the contexts whose result is fixed ----------------------------------

def chars(s):
    return terms.chars_list(s)


def model(v, idx):
    """context name -> expected result term (list of solutions) where the model fixes it"""
    T = terms.mklist
    dec = str(v)
    m = {
        "unify": T(["t"]), "not_unify": T([]), "identical": T(["t"]), "not_identical": T([]), "uwoc": T(["t"]),
        "compare": T(["="]), "sort": T([T([v])]),
        "keysort": T([T([("-", v, "a"), ("-", v, "b"), ("-", v, "c")])]),
        "term_lt": T([]), "term_le": T(["t"]), "term_gt": T([]), "term_ge": T(["t"]),
        "nested_unify": T(["t"]), "nested_identical": T(["t"]),
        "arith_eq": T(["t"]), "arith_sub": T([0]), "arith_succ": T([v + 1]), "is_unify": T(["t"]),
        "integer": T(["t"]), "number": T(["t"]), "atomic": T(["t"]), "callable": T([]), "ground": T(["t"]),
        "dif": T([]),
        "between_bounds": T([v]), "between_test": T(["t"]),
        "number_codes": T([T([ord(c) for c in dec])]), "number_chars": T([chars(dec)]),
        "number_chars_back": T(["t"]),
        "format_d": T([chars("%s %s x" % (dec, dec))]), "write_chars": T([chars(dec)]),
        "static_first": T(["s%d" % idx]), "static_second": T(["t%d" % idx]),
        "static_multi": T(["a%d" % idx, "b%d" % idx]), "static_value": T(["t"]),
        "dyn_first": T(["first", "again"]), "dyn_second": T(["k1"]), "dyn_retract": T(["t"]),
        "dyn_clause": T(["true"]), "dyn_body": T(["t"]),
        "bb": T(["t"]), "findall_copy": T(["t"]), "copy_term": T(["t"]),
        "assoc_get": T(["v"]), "assoc_put": T([T([("-", v, 2)])]),
        "memberchk": T(["t"]), "member": T(["t", "t"]), "list_to_set": T([T([v])]),
        "nth0_find": T([1]), "univ": T(["t"]),
        "functor_test": T(["t"] if v == 2 else []),
    }
    if v >= 0:
        m["length_test"] = T(["t"] if v == 2 else [])
        m["atom_length_test"] = T(["t"] if v == 3 else [])
    if v >= 0:
        m["succ_fwd"] = T([v + 1])
    if v >= 1:
        m["succ_bwd"] = T([v - 1])
    if 1 <= v <= 8:
        m["arg_index"] = T(["abcdefgh"[v - 1]])
    elif v > 8:
        m["arg_index"] = T([])
    if 0 <= v <= 2:
        m["nth0_index"] = T(["abc"[v]])
    elif v > 2:
        m["nth0_index"] = T([])
    if 1 <= v <= 3:
        m["nth1_index"] = T(["abc"[v - 1]])
    elif v > 3:
        m["nth1_index"] = T([])
    if is_small(v):
        m["length_make"] = T([v])
        if v >= 1:
            m["numlist"] = T([v])
        m["between_count"] = T([v])
        m["nth0_make"] = T(["hit"])
        m["sub_atom"] = T(["abcdef"[v]] if v < 6 else [])
    return m


# ---- execution ---------------------------------------------------------------------------------

def goal_text(v, idx, r1, r2, excl=(), only=None):
    cls = "small" if is_small(v) else "large"
    if only is not None:
        return "g((%s, %s, c05_consume_only(v%d, %s, X, Y, %s, Rs)))" % (
            route_goal(r1, v, "X", idx, "1"), route_goal(r2, v, "Y", idx, "2"), idx, cls, only)
    return "g((%s, %s, c05_consume(v%d, %s, X, Y, [%s], Rs)))" % (
        route_goal(r1, v, "X", idx, "1"), route_goal(r2, v, "Y", idx, "2"), idx, cls, ",".join(excl))


def norm_vars(t):
    """renumber variables by first occurrence inside this one result"""
    seen = {}

    def rec(x):
        if isinstance(x, terms.V):
            if x.n not in seen:
                seen[x.n] = len(seen)
            return terms.V(seen[x.n])
        if isinstance(x, tuple):
            return tuple([x[0]] + [rec(a) for a in x[1:]])
        return x
    return rec(t)


def parse_rs(r):
    """Res -> dict name -> result term, or an abnormal string"""
    if r.abn:
        return "abnormal:" + r.abn
    if r.status == "exc":
        return "route_exc:" + px.formal_sig(r.formal())
    if len(r.sols) != 1:
        return "route_sols:%d" % len(r.sols)
    s = r.sols[0]
    el, tail = terms.unlist(s.get("Rs"))
    if tail != terms.NIL:
        return "badlist"
    d = {}
    for e in el:
        if isinstance(e, tuple) and e[0] == "-" and len(e) == 3:
            d[e[1]] = norm_vars(e[2])
    d["#x"] = s.get("X")
    d["#y"] = s.get("Y")
    return d


def enc_of(v, route):
    """heap encoding the route leaves the value in"""
    if not N.is_fix(v):
        return "bignum"
    if route in BIGNUM_HELD:
        return "bignum_held"
    if v in (FIX_MAX, FIX_MIN):
        # Fixnum::MAX / Fixnum::MIN: whether a route leaves them in a fixnum or a bignum cell is not modelled
        # (the reader negates the bignum 2^55 to get Fixnum::MIN; succ/2 reaches Fixnum::MAX from a bignum)
        return "boundary"
    return "fixnum"


def rclass(t):
    """short class of a context result for signatures"""
    if isinstance(t, tuple) and t[0] == "e":
        return "error:" + px.formal_sig(t[1])
    el, tail = terms.unlist(t)
    if tail == terms.NIL:
        return "sols=%d" % len(el)
    return "other"


_names = {}


def context_names(w, cls):
    if cls not in _names:
        r = px.run_goals(w, ["g(c05_names(%s, Ns))" % cls])[0]
        _names[cls] = [str(x) for x in terms.unlist(r.sols[0]["Ns"])[0]]
    return _names[cls]


def isolate(w, case, vs):
    """the contexts that end abnormally (panic / crash / hang) on this case, each run alone:
    -> dict name -> abnormal signature"""
    i, r1, r2 = case
    v = vs[i]
    names = context_names(w, "small" if is_small(v) else "large")
    goals = [goal_text(v, i, r1, r2, only=n) for n in names]
    bad = {}
    for n, r in zip(names, px.run_goals(w, goals)):
        if r.abn:
            bad[n] = r.abn
    return bad


def run_cases(w, cases, vs, excl=()):
    """cases: list of [idx, r1, r2] -> list of (case, dict|str)"""
    goals = [goal_text(vs[i], i, r1, r2, excl) for (i, r1, r2) in cases]
    return [(c, parse_rs(r)) for c, r in zip(cases, px.run_goals(w, goals))]


def judge(case, obs, base, vs):
    """-> list of (consumer, sig, expected, observed); obs/base dicts"""
    i, r1, r2 = case
    v = vs[i]
    mc = N.mag_class(v)
    viols = []
    if isinstance(obs, str):
        return [("#route", "route val=%s r1=%s r2=%s %s" % (mc, r1, r2, obs), "both routes produce the integer", obs)]
    for tag, r in (("#x", r1), ("#y", r2)):
        got = obs[tag]
        if isinstance(got, bool) or not isinstance(got, int) or got != v:
            # the route did not produce the integer (e.g. truncate(float(2^55)), C02's F-C02-1): the premise
            # "equal integers" does not hold, so the case says nothing about C05
            return [("#premise", None, str(v), terms.show(got))]
    m = model(v, i)
    for name in sorted(k for k in obs if not k.startswith("#")):
        got = obs[name]
        want = None
        src = None
        if name in m:
            want, src = m[name], "model"
        elif isinstance(base, dict) and name in base:
            want, src = base[name], "lit/lit"
        if want is None:
            continue
        if got != want:
            viols.append((name, "consumer=%s val=%s r1=%s r2=%s x=%s y=%s want(%s)=%s got=%s" % (
                name, mc, r1, r2, enc_of(v, r1), enc_of(v, r2), src, rclass(want), rclass(got)),
                terms.show(want), terms.show(got)))
    return viols


def abn_sig(name, v, r1, r2, a):
    return "consumer=%s val=%s r1=%s r2=%s x=%s y=%s abnormal:%s" % (
        name, N.mag_class(v), r1, r2, enc_of(v, r1), enc_of(v, r2), a)


def explore(w, cases, vs, acc=None):
    """runs the cases (first one is the lit/lit baseline); a context that ends abnormally is attributed by
    running the contexts of that case one at a time, reported once, and excluded from then on.
    -> (list of (case, obs, viols), excluded dict)"""
    excl = {}
    abn_viols = []
    probing = len(cases) > 2
    while True:
        # a panic costs a machine rebuild per case, so one case is probed alone before the batch is sent
        res = run_cases(w, cases[1:2] if probing else cases, vs, sorted(excl))
        culprit_case = None
        for c, obs in res:
            if isinstance(obs, str) and obs.startswith("abnormal:"):
                culprit_case = c
                break
        if culprit_case is None:
            if probing:
                probing = False
                continue
            break
        bad = isolate(w, culprit_case, vs)
        new = {n: a for n, a in bad.items() if n not in excl}
        if not new:
            break   # abnormal only in combination: reported as a route-level violation by judge
        for n, a in sorted(new.items()):
            excl[n] = a
            mc = N.mag_class(vs[culprit_case[0]])
            abn_viols.append((culprit_case, n, abn_sig(n, vs[culprit_case[0]], culprit_case[1], culprit_case[2], a),
                              "an answer or an error", a))
    base = res[0][1]
    out = []
    for c, obs in res[1:]:
        out.append((c, obs, judge(c, obs, base, vs)))
    return out, abn_viols


def run_shard(w, shard, tier):
    vs = VALUES_T
    i, r1 = shard
    v = vs[i]
    acc = px.ShardAcc()
    cases = [[i, "lit", "lit"]] + [[i, r1, r2] for r2 in ROUTES if applicable(r2, v)]
    out, abn_viols = explore(w, cases, vs)
    for case, name, sig, exp, got in abn_viols:
        acc.case(True, "viol:abnormal:" + name)
        acc.violation(sig, {"case": case, "value": str(v), "focus": sig, "only": name,
                            "goal": goal_text(v, i, case[1], case[2], only=name)}, expected=exp, observed=got)
    for case, obs, viols in out:
        if viols and viols[0][0] == "#premise":
            acc.extra["route_produced_other_integer_skipped"] += 1
            continue
        bad = {x[0] for x in viols}
        nt = N.is_fix(v) and ((case[1] in BIGNUM_HELD) != (case[2] in BIGNUM_HELD))
        # one evaluation per consuming context
        if isinstance(obs, dict):
            for name in obs:
                if name.startswith("#"):
                    continue
                acc.case(nt, "viol:" + name if name in bad else "ok:" + rclass(obs[name]),
                         sample={"goal": goal_text(v, i, case[1], case[2])[:300], "context": name})
        else:
            acc.case(nt, "abnormal")
        for name, sig, exp, got in viols:
            acc.violation(sig, {"case": case, "value": str(v), "focus": sig, "goal": goal_text(v, i, case[1], case[2])},
                          expected=exp, observed=got)
    return acc.result()


def recheck(w, case, tier):
    c = case["case"]
    vs = VALUES_T
    if case.get("only"):
        r = px.run_goals(w, [goal_text(vs[c[0]], c[0], c[1], c[2], only=case["only"])])[0]
        if r.abn:
            return {"sig": abn_sig(case["only"], vs[c[0]], c[1], c[2], r.abn),
                    "case": case, "expected": "an answer or an error", "observed": r.abn}
        return None
    out, abn_viols = explore(w, [[c[0], "lit", "lit"], c], vs)
    viols = out[0][2]
    if viols and viols[0][0] == "#premise":
        return None
    if viols:
        pick = viols[0]
        for x in viols:
            if x[1] == case.get("focus"):
                pick = x
        return {"sig": pick[1], "case": case, "expected": pick[2], "observed": pick[3]}
    return None
