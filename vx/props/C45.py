"""C45 — read_term/2 reports variables, names and singletons exactly (DESIGN §6 C45).

Every assignment of the holes of a set of clause skeletons from {X, Y, _, _A,
_B, a}, read through read_term/2 on a file and read_term_from_chars/3 with the
options variables/1, variable_names/1, singletons/1 (all 16 ordered subsets on
the small skeletons, the full option list on all). Oracle: Python, from the
hole assignment.
"""
import itertools
import os

from vx.core import px, pool, terms
from vx.core.terms import V

ID = "C45"
LEVEL = "exploration"
ENGINE = "PEX"
TECHNIQUE = "bounded exhaustive enumeration of clause texts x option lists x entry points; Python occurrence model"
HOLES = ["X", "Y", "_", "_A", "_B", "a"]
RULE = ("clause skeletons f(#,#,#,#), [#,#|#], # = #, (h(#) :- b(#,#), c(#)), {#,#}, f(g(#),\"s\",#), g(#,[#,#],#-#) "
        "(thorough adds k(#,f(#,#),[#|#],#)) with every assignment of the holes from {X, Y, _, _A, _B, a}; options: "
        "[variables, variable_names, singletons] on every text, and all 16 ordered subsets on the texts with <= 3 holes; "
        "entry points read_term/2 on a file stream and read_term_from_chars/3. Non-trivial: a variable repeats, or _ / "
        "_A / _B occurs.")
LEVEL_TEXT = "bounded exhaustive exploration of the real reader's option reporting against an occurrence model"
ASSUMPTIONS = ["driver transport (the emitter numbers variables by first occurrence, so identity of variables across the "
               "term and the option lists is observed exactly)",
               "the order of singletons/1 is not fixed by the statement: compared as a multiset",
               "input files are written byte-exactly by the explorer process"]
MIN_OUTCOMES = 3


def L(*el, tail="[]"):
    t = tail
    for e in reversed(el):
        t = (".", e, t)
    return t


SKEL = [
    ("f4", 4, "f({0},{1},{2},{3})", lambda h: ("f", h[0], h[1], h[2], h[3])),
    ("list", 3, "[{0},{1}|{2}]", lambda h: L(h[0], h[1], tail=h[2])),
    ("eq", 2, "{0} = {1}", lambda h: ("=", h[0], h[1])),
    ("rule", 4, "h({0}) :- b({1},{2}), c({3})", lambda h: (":-", ("h", h[0]), (",", ("b", h[1], h[2]), ("c", h[3])))),
    ("curly", 2, "{{{0},{1}}}", lambda h: ("{}", (",", h[0], h[1]))),
    ("str", 2, "f(g({0}),\"s\",{1})", lambda h: ("f", ("g", h[0]), L("s"), h[1])),
    ("mix5", 5, "g({0},[{1},{2}],{3}-{4})", lambda h: ("g", h[0], L(h[1], h[2]), ("-", h[3], h[4]))),
]
SKEL_T = SKEL + [
    ("mix6", 6, "k({0},f({1},{2}),[{3}|{4}],{5})", lambda h: ("k", h[0], ("f", h[1], h[2]), L(h[3], tail=h[4]), h[5])),
]
ALL_SPECS = [()] + [p for n in (1, 2, 3) for p in itertools.permutations("vns", n)]
FULL = ("v", "n", "s")
ENTRIES = ["chars", "file"]


def skeletons(tier):
    return SKEL_T if tier == "thorough" else SKEL


def texts(tier, name):
    for (n, k, tpl, build) in skeletons(tier):
        if n == name:
            for asg in itertools.product(HOLES, repeat=k):
                yield (n, asg)


def bound_text(tier):
    nt = sum(len(HOLES) ** k for (_, k, _, _) in skeletons(tier))
    small = sum(len(HOLES) ** k for (_, k, _, _) in skeletons(tier) if k <= 3)
    return "%d clause texts x 2 entry points with the full option list + %d texts x 2 entry points x 15 other ordered option subsets" % (nt, small)


def shards(tier):
    sh = []
    for (n, k, _, _) in skeletons(tier):
        parts = max(1, len(HOLES) ** k // 1300)
        for e in ENTRIES:
            for p in range(parts):
                sh.append((n, e, p, parts))
    return sh


def helper_text():
    with open(os.path.join(pool.ROOT, "vx", "prolog", "c45_helper.pl")) as f:
        return f.read()


def setup(w, tier):
    w.consult(helper_text(), persist=True)


def skel(name):
    for s in SKEL_T:
        if s[0] == name:
            return s
    raise KeyError(name)


def model(name, asg):
    """-> (text, expected term, variables list, variable_names list, singleton multiset)
    with variables numbered V(0..) by first occurrence"""
    _, k, tpl, build = skel(name)
    text = tpl.format(*asg) + "."
    order = []          # (key, name) in first-occurrence order; each _ is its own key
    count = {}
    hv = []
    for i, a in enumerate(asg):
        if a == "a":
            hv.append("a")
            continue
        key = ("anon", i) if a == "_" else ("named", a)
        if key not in count:
            count[key] = 0
            order.append((key, a))
        count[key] += 1
        hv.append(V([kk for kk, _ in order].index(key)))
    term = build(hv)
    vs = [V(i) for i in range(len(order))]
    names = [("=", nm, V(i)) for i, (key, nm) in enumerate(order) if key[0] == "named"]
    single = [("=", nm, V(i)) for i, (key, nm) in enumerate(order) if key[0] == "named" and count[key] == 1]
    return text, term, vs, names, single


def nontrivial(asg):
    vs = [a for a in asg if a != "a"]
    return len(set(vs)) < len(vs) or any(a.startswith("_") for a in vs)


def renumber(t):
    m = {}

    def go(x):
        if isinstance(x, V):
            if x.n not in m:
                m[x.n] = len(m)
            return V(m[x.n])
        if isinstance(x, tuple):
            return tuple([x[0]] + [go(y) for y in x[1:]])
        return x
    return go(t)


def pylist(t):
    el, tail = terms.unlist(t)
    return el if tail == "[]" else None


def classify_list(which, exp, got, asgmap):
    """describe how an observed option list differs from the expected one"""
    if got is None:
        return "not_a_list"
    ek = [terms.show(x) for x in exp]
    gk = [terms.show(x) for x in got]
    missing = [x for x in exp if terms.show(x) not in gk]
    extra = [x for x in got if terms.show(x) not in ek]
    parts = []
    if missing:
        parts.append("missing=" + ",".join(sorted(set(asgmap(x) for x in missing))))
    if extra:
        parts.append("extra=%d" % len(extra))
    if not missing and not extra:
        parts.append("order_or_multiplicity")
    return "+".join(parts)


def judge(name, asg, spec, obs):
    """obs: the r(T,V,N,S) record (already renumbered) or err/failed term.
    -> (label, violation kind or None, expected record)"""
    text, term, vs, names, single = model(name, asg)
    exp = ("r", term, terms.mklist(vs) if "v" in spec else "-", terms.mklist(names) if "n" in spec else "-",
           terms.mklist(single) if "s" in spec else "-")
    if not (isinstance(obs, tuple) and obs[0] == "r" and len(obs) == 5):
        return ("read_failed", "read_failed:%s" % (obs[0] if isinstance(obs, tuple) else obs), exp)
    if obs[1] != term:
        return ("wrong_term", "wrong_term", exp)

    # which kind of variable does an element talk about (for signatures)
    kinds = {}
    k = 0
    seen = set()
    for i, a in enumerate(asg):
        if a == "a":
            continue
        key = ("anon", i) if a == "_" else a
        if key in seen:
            continue
        seen.add(key)
        kinds[k] = "anon" if a == "_" else ("underscore_named" if a.startswith("_") else "named")
        k += 1

    def kind_of(x):
        v = x[2] if isinstance(x, tuple) else x
        return kinds.get(v.n, "?") if isinstance(v, V) else "?"

    if "v" in spec:
        got = pylist(obs[2])
        if got != vs:
            return ("wrong_variables", "variables " + classify_list("v", vs, got, kind_of), exp)
    if "n" in spec:
        got = pylist(obs[3])
        if got != names:
            return ("wrong_variable_names", "variable_names " + classify_list("n", names, got, kind_of), exp)
    if "s" in spec:
        got = pylist(obs[4])
        if got is None or sorted(map(terms.show, got)) != sorted(map(terms.show, single)):
            return ("wrong_singletons", "singletons " + classify_list("s", single, got, kind_of), exp)
    for j, o in enumerate(obs[2:]):
        if "vns"[j] not in spec and o != "-":
            return ("unrequested_bound", "unrequested_bound", exp)
    nv = len(vs)
    return ("ok:%dvars%s" % (nv, "+anon" if "_" in asg else ""), None, exp)


def spec_text(spec):
    return "[" + ",".join(spec) + "]"


def path(i=0):
    d = os.path.join(pool.WORK, "agentC")
    os.makedirs(d, exist_ok=True)
    return os.path.join(d, "c45_%d_%d.pl" % (os.getpid(), i))


def run_chars(w, items):
    """items: [(name, asg, spec)] -> observed records"""
    goals = []
    for (name, asg, spec) in items:
        text = model(name, asg)[0]
        goals.append("g(c45_read_chars([%s],%s,R))" % (",".join(str(ord(c)) for c in text), spec_text(spec)))
    out = []
    for r in px.run_goals(w, goals):
        out.append(obs_of(r))
    return out


def obs_of(r):
    if r.abn:
        return ("abn", r.abn)
    if r.status != "done" or len(r.sols) != 1:
        return ("driver", terms.show(r.exc) if r.status == "exc" else str(r.status))
    return renumber(r.sols[0]["R"])


def run_file(w, items):
    """items share one spec per call group: group consecutive items by spec, one file per group"""
    out = []
    i = 0
    fileno = 0
    while i < len(items):
        spec = items[i][2]
        j = i
        while j < len(items) and items[j][2] == spec and j - i < 100:
            j += 1
        group = items[i:j]
        with open(path(fileno % 8), "wb") as f:
            f.write(("\n".join(model(n, a)[0] for (n, a, _) in group) + "\n").encode("utf-8"))
        r = px.run_goals(w, ["g(c45_read_file('%s',%s,%d,R))" % (path(fileno % 8), spec_text(spec), len(group))])[0]
        fileno += 1
        if r.abn or r.status != "done" or len(r.sols) != 1:
            o = obs_of(r)
            out.extend([o] * len(group))
        else:
            el = terms.unlist(r.sols[0]["R"])[0]
            el = [renumber(x) for x in el]
            while len(el) < len(group):
                el.append(("missing",))
            out.extend(el[:len(group)])
        i = j
    return out


def cases_of(tier, name, p, parts):
    small = skel(name)[1] <= 3
    for i, (n, asg) in enumerate(texts(tier, name)):
        if i % parts != p:
            continue
        yield (n, asg, FULL)
    if small:
        for spec in ALL_SPECS:
            if spec == FULL:
                continue
            for i, (n, asg) in enumerate(texts(tier, name)):
                if i % parts == p:
                    yield (n, asg, spec)


def sig_of(entry, vk):
    return "%s %s" % (entry, vk)


def run_shard(w, shard, tier):
    name, entry, p, parts = shard
    acc = px.ShardAcc()
    run = run_chars if entry == "chars" else run_file
    for batch in px.chunked(cases_of(tier, name, p, parts), 400):
        for (n, asg, spec), o in zip(batch, run(w, batch)):
            label, vk, exp = judge(n, asg, spec, o)
            acc.case(nontrivial(asg), label,
                     sample=None if len(acc.samples) >= 3 else {"text": model(n, asg)[0], "options": list(spec), "entry": entry,
                                                                "observed": terms.show(o)})
            if vk:
                acc.violation(sig_of(entry, vk), {"skeleton": n, "holes": list(asg), "options": list(spec), "entry": entry},
                              expected=terms.show(exp), observed=terms.show(o))
    return acc.result()


def recheck(w, case, tier):
    item = (case["skeleton"], tuple(case["holes"]), tuple(case["options"]))
    run = run_chars if case["entry"] == "chars" else run_file
    o = run(w, [item])[0]
    label, vk, exp = judge(item[0], item[1], item[2], o)
    if vk:
        return {"sig": sig_of(case["entry"], vk), "case": case, "expected": terms.show(exp), "observed": terms.show(o)}
    return None
