"""C35 — reloading a program is idempotent (DESIGN §6 C35).

Engine WRK-api: programs are subsets of a declaration grammar (static rules,
dynamic, discontiguous, multifile, op/3, use_module, initialization, string /
float / bignum facts). For every program and every load API
(load_module_string, consult_module_string) two embedding-API histories are run
on fresh Machines: [load, footprint, probe] and [load, load, footprint, load,
footprint, load, footprint, probe]. The footprint counters (hook H5: heap cells,
stack top, trail length, open load contexts, inactive load states, float table
entries, atoms with the program's prefix) after 2, 3 and 4 loads must equal
those after 1 load, and the probe answers (all solutions of every predicate,
current_op/3) must be identical. The thorough tier adds P, P', P sequences.
"""
import itertools
import json

from vx.core import pool, px

ID = "C35"
LEVEL = "model_checking"
ENGINE = "WRK-api"
TECHNIQUE = ("explicit-state search over load histories through the embedding API on fresh Machines; invariant: "
             "footprint counters and probe answers after k loads equal those after one load")
RULE = ("programs = subsets of 10 declaration features (quick: empty, singles, pairs, all = 57; thorough: all 1024) x "
        "{load_module_string, consult_module_string, consult/1 of a file} x histories of 1..4 loads (thorough: also P,P',P). "
        "Non-trivial: the program has a dynamic/discontiguous/multifile/op feature.")
LEVEL_TEXT = ("every program of the grammar is loaded 1-4 times through both public load APIs; growth of any footprint "
              "counter or a change of any probe answer between the first and a later load is detected")
ASSUMPTIONS = ["the footprint counters are those the repository's own repeated-load tests read (heap cells, stack top, trail length, load contexts, inactive load states, float table entries, atoms) - the code area is not part of the statement",
               "directives in the grammar have no side effects beyond declarations"]
MIN_OUTCOMES = 2

FEATURES = [
    ("static", "zzvx_s(1).\nzzvx_s(2).\nzzvx_r(X) :- zzvx_s(X), X > 1.\n"),
    ("dynamic", ":- dynamic(zzvx_d/1).\nzzvx_d(a).\nzzvx_d(b).\n"),
    ("discontiguous", ":- discontiguous(zzvx_p/1).\n:- discontiguous(zzvx_q/1).\nzzvx_p(1).\nzzvx_q(1).\nzzvx_p(2).\nzzvx_q(2).\n"),
    ("multifile", ":- multifile(zzvx_m/1).\nzzvx_m(1).\nzzvx_m(2).\n"),
    ("op", ":- op(700, xfx, zzvx_op).\nzzvx_o(a zzvx_op b).\n"),
    ("use_module", ":- use_module(library(lists)).\nzzvx_u(L) :- append([1], [2], L).\n"),
    ("initialization", ":- initialization(true).\nzzvx_i(1).\n"),
    ("string", "zzvx_str(\"a long string value that needs several heap cells\").\n"),
    ("float", "zzvx_f(3.25).\nzzvx_f(1.0e10).\nzzvx_f(-0.5).\n"),
    ("bignum", "zzvx_b(123456789012345678901234567890).\nzzvx_b(1).\n"),
]
PREDS = ["zzvx_s", "zzvx_r", "zzvx_d", "zzvx_p", "zzvx_q", "zzvx_m", "zzvx_o", "zzvx_u", "zzvx_i", "zzvx_str", "zzvx_f", "zzvx_b"]
# every predicate is observed by calling it and through clause/2 (the clause
# store of dynamic predicates is separate from their compiled code)
PROBE = ("L = [" + ",".join("R%d,C%d" % (i, i) for i in range(len(PREDS))) + ",Ops], " +
         ", ".join("catch(findall(X%d, %s(X%d), R%d), error(E%d, _), R%d = err(E%d)), "
                   "catch(findall(Y%d-B%d, clause(%s(Y%d), B%d), C%d), error(F%d, _), C%d = err(F%d))"
                   % (i, p, i, i, i, i, i, i, i, p, i, i, i, i, i, i)
                   for i, p in enumerate(PREDS)) +
         ", findall(P-T, current_op(P, T, zzvx_op), Ops).")
APIS = ["load", "consult", "file"]
COUNTERS = ["heap_cells", "stack_top", "trail_len", "load_contexts", "inactive_load_states", "f64_entries", "atoms_with_prefix"]


def relsrc(where):
    f = where.rsplit(":", 1)[0]
    k = f.find("src/")
    return f[k:] if k > 0 else f


def bound_text(tier):
    return "%s programs x 2 load APIs x 1..4 loads" % ("all 1024" if tier == "thorough" else "57 (empty, singles, pairs, all)")


def subsets(tier):
    n = len(FEATURES)
    if tier == "thorough":
        return [list(c) for r in range(n + 1) for c in itertools.combinations(range(n), r)]
    return [[]] + [[i] for i in range(n)] + [list(c) for c in itertools.combinations(range(n), 2)] + [list(range(n))]


def shards(tier):
    subs = subsets(tier)
    out = []
    per = 8 if tier == "thorough" else 3
    for k in range(0, len(subs), per):
        out.append(subs[k:k + per])
    return out


def text_of(sub):
    return "".join(FEATURES[i][1] for i in sub)


def history(w, ops):
    w.rpc({"op": "new_machine"}, timeout=120)
    r = w.rpc({"op": "api", "ops": ops, "fresh_after": False}, timeout=120)
    return r["r"]


def run_program(w, sub, api, other=None):
    """-> list of (violation kind, detail)"""
    text = text_of(sub)
    if api == "file":
        # the program in a file, consulted by a goal (the loader's reload-in-situ path)
        import os
        d = os.path.join(pool.WORK, "c35", str(os.getpid()))
        os.makedirs(d, exist_ok=True)
        path = os.path.join(d, "prog_%s.pl" % "_".join(map(str, sub)))
        with open(path, "w") as f:
            f.write(text)
        load = {"k": "query", "text": "consult('%s')." % path, "take": None}
        if other is not None:
            opath = os.path.join(d, "other.pl")
            with open(opath, "w") as f:
                f.write(text_of(other))
    else:
        load = {"k": api, "module": "user", "text": text}
    fp = {"k": "footprint", "prefix": "zzvx_"}
    probe = {"k": "query", "text": PROBE, "take": None}
    h1 = history(w, [load, fp, probe])
    seq = [load, load, fp, load, fp, load, fp, probe]
    if other is not None:
        oload = ({"k": "query", "text": "consult('%s')." % opath, "take": None} if api == "file"
                 else {"k": api, "module": "user", "text": text_of(other)})
        seq = [load, oload, load, fp, probe]
    h2 = history(w, seq)
    v = []
    for h in (h1, h2):
        for step in h:
            if "panic" in step:
                import re
                v.append(("panic@%s: %s" % (relsrc(step.get("where", "")),
                                            re.sub(r"\d+", "N", step["panic"])[:80]), step))
                return v
    fp1 = h1[1]
    fps = [s for s in h2 if "heap_cells" in s]
    for n, f in enumerate(fps):
        if other is not None:
            break   # the other program's clauses, floats and atoms legitimately remain: answers only
        for c in COUNTERS:
            base = fp1
            if c == "atoms_with_prefix":
                # the atom table is shared by all machines of a process and keeps
                # the atoms of earlier programs: compare within this history only
                if other is not None or n == 0:
                    continue
                base = fps[0]
            if f.get(c) != base.get(c):
                v.append(("%s grows/changes across reloads" % c, {"after_first": base.get(c), "later": f.get(c), "load_no": n + 2}))
                break
    a1 = h1[2].get("answers")
    a2 = h2[-1].get("answers")
    if other is not None:
        # the other program's predicates legitimately exist now: compare this program's own
        a1, a2 = own_answers(a1, sub), own_answers(a2, sub)
    if a1 != a2:
        v.append(("answers change after reload", {"first": a1, "later": a2}))
    out1 = h1[0].get("o", "") + h1[0].get("e", "")
    if "error" in out1:
        v.append(("load prints an error", out1[:300]))
    return v


FEATURE_PREDS = {"static": ["zzvx_s", "zzvx_r"], "dynamic": ["zzvx_d"], "discontiguous": ["zzvx_p", "zzvx_q"],
                 "multifile": ["zzvx_m"], "op": ["zzvx_o"], "use_module": ["zzvx_u"], "initialization": ["zzvx_i"],
                 "string": ["zzvx_str"], "float": ["zzvx_f"], "bignum": ["zzvx_b"]}


def own_answers(ans, sub):
    """the probe's entries that belong to the predicates of program `sub`"""
    try:
        items = ans[0]["bindings"]["L"]["l"]
    except Exception:
        return ans
    keep = []
    for i in sub:
        for pn in FEATURE_PREDS[FEATURES[i][0]]:
            k = PREDS.index(pn)
            keep += [items[2 * k], items[2 * k + 1]]
        if FEATURES[i][0] == "op":
            keep.append(items[-1])
    return keep


def run_shard(w, shard, tier):
    acc = px.ShardAcc()
    n = len(FEATURES)
    for sub in shard:
        for api in APIS:
            v = run_program(w, sub, api)
            nt = any(FEATURES[i][0] in ("dynamic", "discontiguous", "multifile", "op") for i in sub)
            acc.states += 1
            acc.transitions += 11
            acc.case(nt, "ok" if not v else "violation", sample={"api": api, "features": [FEATURES[i][0] for i in sub]})
            for kind, detail in v:
                feats = "+".join(FEATURES[i][0] for i in sub) if len(sub) <= 2 else "%d features" % len(sub)
                acc.violation("%s: %s [%s]" % (api, kind, feats), {"sub": sub, "api": api}, observed=detail)
            if tier == "thorough" and len(sub) == 1:
                other = [(sub[0] + 1) % n]
                v = run_program(w, sub, api, other=other)
                acc.states += 1
                acc.transitions += 5
                acc.case(True, "ok_PQP" if not v else "violation_PQP")
                for kind, detail in v:
                    acc.violation("%s P,Q,P: %s [%s]" % (api, kind, FEATURES[sub[0]][0]), {"sub": sub, "api": api, "other": other}, observed=detail)
    return acc.result()


def recheck(w, case, tier):
    v = run_program(w, case["sub"], case["api"], other=case.get("other"))
    sub = case["sub"]
    feats = "+".join(FEATURES[i][0] for i in sub) if len(sub) <= 2 else "%d features" % len(sub)
    pre = "%s P,Q,P: " % case["api"] if case.get("other") else "%s: " % case["api"]
    return [{"sig": "%s%s [%s]" % (pre, kind, feats if not case.get("other") else FEATURES[sub[0]][0]), "case": case, "observed": d} for kind, d in v] or None
