"""C34 — Large and deeply nested terms never crash the process (DESIGN §6 C34).

Every cell (shape x size x operation) runs in its OWN process: a fresh pworker
(the harness has no other binary; pworker runs the Machine on the process's
main thread with the default stack limit, recorded below), which is killed
after the cell.  A native stack overflow or abort kills that process and is
seen as `crash rc=-6/-11`; a Rust panic is reported by pworker's catch_unwind.

  shapes      list [1..N]; f(f(...a...)) right-deep; ((a+1)+1)+... left-deep;
              [[[...[]...]]]; g/255 with 254 atoms and one nested g/255 (N cells);
              shared-cell shapes: a list of N references to ONE f(a,b) cell, a list
              alternating two equal f(a,b) cells, a list of N references to one
              [p,q,r], a chain g(X,g(X,...)) sharing X -- under ==, \\==, compare/3,
              @<, T == T, unification with a twin built the same way, copy_term +
              ==, sort/2 (-> 1 element) and keysort/2 with the shared term as key
              (stable: values stay 1..N)
  sizes       10^4, 10^5 (quick); 10^3, 10^4, 10^5, 10^6 (thorough)
  operations  build, copy_term, ==, compare, unify with a twin that has a
              variable leaf, subsumes_term, ground, term_variables,
              acyclic_term, findall copy, findall of 12 copies (one reservation many
              times the heap's size), assertz+call+retract, bb_put/bb_get,
              throw/catch, write_term_to_chars, read_term_from_chars of that
              text, format ~q, write_canonical to a file, portray_clause to a
              file, writeq to a file + read/2, consult of a file holding the
              term as a fact, =.., and length/sort/append for lists

Oracle: the process is not killed by a signal, does not abort or panic, and
the goal either succeeds with the expected size / equality / text length or
raises a Prolog resource_error.  A cell that exceeds the horizon (120 s) is
recorded as `timeout` (inconclusive, not a violation).
"""
import os
import resource

from vx.core import px, pool
from vx.core.terms import fmt, S

ID = "C34"
LEVEL = "exploration"
ENGINE = "PEX"
NEEDS_WORKER = False
TECHNIQUE = "one process per (shape, size, operation) cell; exit status and result compared with closed-form expectations"
_soft, _hard = resource.getrlimit(resource.RLIMIT_STACK)
STACK_KB = "unlimited" if _soft == resource.RLIM_INFINITY else str(_soft // 1024)
RULE = ("every (shape, size, operation) cell of the table in the module docstring, each in a fresh process "
        "(main-thread stack limit `ulimit -s` = %s KB); non-trivial: N >= 10^5" % STACK_KB)
LEVEL_TEXT = "exhaustive over the stated cell table; each cell is one execution of the real machine in its own process"
ASSUMPTIONS = ["pworker runs the Machine on the main thread of its process; `ulimit -s` = %s KB at the time of the run" % STACK_KB,
               "a native stack overflow shows up as death by SIGABRT/SIGSEGV of that process (pool reports crash rc=-6/-11)",
               "the Prolog-side builders and size walkers are tail-recursive (no deep recursion outside the builtin under test)"]
MIN_OUTCOMES = 3
HORIZON = 120.0

SCRATCH = os.path.join(pool.WORK, "agentH", "c34")
HELPER = os.path.join(pool.ROOT, "vx", "prolog", "c34_terms.pl")

SHAPES = ["list", "rdeep", "ldeep", "nest", "wide"]
OPS = ["build", "copy", "eq", "compare", "unify", "subsumes", "ground", "tvars", "acyclic", "findall", "findall12", "assert", "bb",
       "throw", "write", "read", "formatq", "wcanon", "pclause", "fread", "consult", "univ"]
LIST_OPS = ["length", "sort", "append"]
# shapes in which ONE compound cell is referenced N times, under the operations that compare or order
SH_SHAPES = ["shlist", "shlist2", "shlist3", "shchain"]
SH_OPS = ["eq", "neq", "compare", "lt", "eqself", "unify2", "copyeq", "build"]
SH_LIST_OPS = ["sort", "keysort"]
LEAF = {"list": "[]", "rdeep": "a", "ldeep": "a", "nest": "[]", "wide": "z"}


def sizes(tier):
    return [10 ** 4, 10 ** 5] if tier == "quick" else [10 ** 3, 10 ** 4, 10 ** 5, 10 ** 6]


def bound_text(tier):
    return ("%d cells: 5 shapes x sizes %s x %d operations (+3 list operations), 4 shared-cell shapes x %d comparing/"
            "ordering operations; stack limit %s KB" % (len(cells(tier)), sizes(tier), len(OPS),
                                                        len(SH_OPS) + len(SH_LIST_OPS), STACK_KB))


def cells(tier):
    out = []
    for n in sizes(tier):
        for sh in SHAPES:
            for op in OPS + (LIST_OPS if sh == "list" else []):
                out.append((sh, n, op))
        for sh in SH_SHAPES:
            for op in SH_OPS + (SH_LIST_OPS if sh != "shchain" else []):
                out.append((sh, n, op))
    return out


def shards(tier):
    cs = cells(tier)
    # big cells first so that the long ones do not end up last
    cs.sort(key=lambda c: -c[1])
    if tier == "quick":
        k = 48
        return [("cells", cs[i::k]) for i in range(k) if cs[i::k]]
    big = [c for c in cs if c[1] >= 10 ** 6]
    small = [c for c in cs if c[1] < 10 ** 6]
    sh = [("cells", [c]) for c in big]
    sh += [("cells", small[i::32]) for i in range(32) if small[i::32]]
    return sh


def text_len(sh, n):
    if sh == "list":
        return 2 + sum(len(str(i)) for i in range(1, n + 1)) + max(0, n - 1)
    if sh == "rdeep":
        return 3 * n + 1
    if sh == "ldeep":
        return 1 + 2 * n
    if sh == "nest":
        return 2 * n + 2
    if sh == "wide":
        return (n // 255) * 511 + 1
    raise ValueError(sh)


def expected(sh, n, op):
    if sh in SH_SHAPES:
        return {"eq": "true", "neq": "false", "compare": "=", "lt": "false", "eqself": "true", "unify2": "true",
                "copyeq": "true", "build": n, "sort": 1, "keysort": ("k", n, 1, n)}[op]
    eff = (n // 255) * 255 if sh == "wide" else n
    if op in ("build", "copy", "findall", "findall12", "assert", "bb", "throw", "read", "fread", "consult", "length", "sort"):
        return eff
    if op == "append":
        return n + 1
    if op in ("eq", "subsumes", "ground", "acyclic"):
        return "true"
    if op == "compare":
        return "="
    if op == "unify":
        return LEAF[sh]
    if op == "tvars":
        return 1
    if op in ("write", "formatq"):
        return text_len(sh, n)
    if op in ("wcanon", "pclause"):
        return "written"
    if op == "univ":
        return {"list": 3, "rdeep": 2, "ldeep": 3, "nest": 3, "wide": 256}[sh]
    raise ValueError(op)


def run_cell(sh, n, op):
    """one cell in its own process -> px.Res"""
    os.makedirs(SCRATCH, exist_ok=True)
    path = os.path.join(SCRATCH, "c34_%d_%s_%d_%s.pl" % (os.getpid(), sh, n, op))
    w = pool.Worker(horizon=HORIZON)
    try:
        with open(HELPER) as f:
            w.consult(f.read())
        goal = "c34_cell(%s,%d,%s,%s,V) ." % (sh, n, op, fmt(S(path)))
        try:
            r = w.rpc({"op": "q", "cases": [goal]}, timeout=HORIZON)
            x = r["r"][0]
        except pool.WorkerDied as d:
            x = {"o": "", "hang": True} if d.how == "hang" else {"o": "", "crash": d.rc}
    finally:
        w.kill()
        try:
            os.remove(path)
        except OSError:
            pass
    return px.parse_res(x)


def judge(sh, n, op, r):
    """-> (label, violation (sig, expected, observed) or None)"""
    exp = expected(sh, n, op)
    where = "%s N=%d op=%s" % (sh, n, op)
    if r.abn:
        if r.abn == "hang":
            return "timeout", None
        return "abnormal", ("%s: %s" % (where, r.abn), "success or resource_error", r.abn)
    if r.status == "exc":
        f = r.formal()
        if isinstance(f, tuple) and f[0] == "resource_error":
            return "resource_error", None
        return "error", ("%s: raised %s" % (where, px.formal_sig(f)), "success (%r) or resource_error" % (exp,), repr(f)[:300])
    if len(r.sols) != 1:
        return "failed", ("%s: goal failed" % where, repr(exp), "no solution")
    v = r.sols[0].get("V")
    if v != exp:
        return "wrong", ("%s: wrong result" % where, repr(exp), repr(v)[:200])
    return "ok", None


def run_shard(w, shard, tier):
    acc = px.ShardAcc()
    for sh, n, op in shard[1]:
        r = run_cell(sh, n, op)
        label, v = judge(sh, n, op, r)
        acc.case(n >= 10 ** 5, "%s:%s" % (label, "N>=1e5" if n >= 10 ** 5 else "N<1e5"),
                 sample={"shape": sh, "N": n, "op": op, "outcome": label})
        if v:
            acc.violation(v[0], {"shape": sh, "N": n, "op": op}, expected=v[1], observed=v[2])
    return acc.result()


def recheck(w, case, tier):
    sh, n, op = case["shape"], case["N"], case["op"]
    r = run_cell(sh, n, op)
    label, v = judge(sh, n, op, r)
    if v:
        return {"sig": v[0], "case": case, "expected": v[1], "observed": v[2]}
    return None
