"""C12 - exceptions unwind precisely and leave the machine consistent (DESIGN section 6, C12).

Goals built from catch/3, throw/1, setup_call_cleanup/3, cut, disjunction,
conjunction and a logging side effect are run to exhaustion through the
driver; answers, the uncaught ball and the log (order of side effects,
including every cleanup) are compared with REF, and independently of REF the
log must show each entered setup_call_cleanup/3 instance cleaned up exactly
once.
"""
import itertools

from vx.core import px, terms
from vx.core.terms import V, fmt, mklist
from vx.model import refprolog as R
from vx.model import c07_space as S
from vx.model import c07_harness as H

ID = "C12"
LEVEL = "exploration"
ENGINE = "PEX+REF"
TECHNIQUE = "bounded exhaustive enumeration of catch/throw/cleanup nestings against a reference interpreter + a cleanup-count invariant"
RULE = ("T1: Pre, catch(Inner, Catcher, Recovery), Post with Inner in {throw(B); X=1,throw(B); log,throw(B); X=2;throw(B); "
        "nested catch(throw(B),C2,R2)}, B over 6 ball shapes (atom, f(X), integer, string, partial list, bignum) and 3 "
        "builtin errors, 7 catchers, 5 recoveries, 5 posts (incl. a later throw and a later catch); T2: Pre, setup_call_cleanup(S, G, log(c)), Post (optionally "
        "inside catch/3, \\+, findall/3 or an if-then-else condition) with G every goal tree of depth <=2 (quick) over {true,fail,X=1,throw(a),!,log} and "
        "{',',;,catch,setup_call_cleanup}, S in {ok, failing, throwing}, Post in {true,!,fail,log,throw,(!,fail)}; "
        "T3 (thorough): G of depth 3 over a reduced alphabet; T4: balls containing attributed variables (dif/2, "
        "freeze/2, put_atts/2, a two-variable dif) in 4 ball shapes, constraint posted before or inside the catch/3, "
        "thrown directly, past a non-matching catch/3 or out of setup_call_cleanup/3, probes on the copy and on the "
        "original (forbidden/allowed binding, wake-up, attribute read, independence) after or inside the recovery; "
        "T5: setup_call_cleanup/3 (single, nested inside, nested outside) whose cleanup handler runs its own catch/3 "
        "with a deterministic, failing or backtracked-into recovery goal (7 handlers) x 7 protected goals (exception, "
        "error, compound ball, failure, choice point, exit) x 5 posts x 5 outer catch/3 forms. "
        "A case is one goal. Non-trivial: REF's run catches a "
        "ball, or a ball passes a non-matching catch/3 or a pending cleanup, or a cleanup runs.")
LEVEL_TEXT = ("exhaustive within the stated nesting bound; answers, ball and the complete side-effect log are compared "
              "with an independent interpreter, and the exactly-once cleanup invariant is checked without it")
ASSUMPTIONS = ["T4 expectations: the catcher receives a copy that carries the constraints of the ball's attributed "
               "variables (as copy_term/2 does); constraints posted inside the catch/3 goal are undone by the unwinding",
               "REF implements ISO 7.8.9/7.8.10 (catch/throw, ball copied, bindings undone) and the documented "
               "setup_call_cleanup/3 semantics (cleanup at deterministic exit, failure, exception, cut)",
               "goals inside setup_call_cleanup/3 are restricted to forms whose determinism does not depend on indexing",
               "driver transport; assertz/1 as the logging side effect"]
MIN_OUTCOMES = 5

HELPER_TEXT = (":- use_module(library(dif)).\n:- use_module(library(freeze)).\n:- use_module(library(atts)).\n"
               ":- attribute a/1.\nverify_attributes(_, _, []).\n"
               ":- dynamic(logged/1).\nlog(K) :- assertz(logged(K)).\n")
HELPER_CLAUSES = [(":-", ("log", V("K")), ("assertz", ("logged", V("K"))))]

X, Y, Z, T = V("X"), V("Y"), V("Z"), V("T")
BIG = 2 ** 70


def log(k):
    return ("log", k)


BALLS = ["a", ("f", X), 1, mklist(["s"]), mklist(["a"], T), BIG]
ERR_GOALS = [("is", Y, ("+", "foo", 1)), ("functor", V("_F"), V("_N"), V("_A")), ("arg", "x", ("f", "a"), V("_G"))]
CATCHERS = [Z, "a", ("f", Z), ("f", 1), "b", ("error", Z, V("_C")), ("error", ("type_error", V("_T1"), V("_T2")), V("_C"))]
RECOVERIES = ["true", log("r"), ("=", X, 3), "fail", ("throw", "again")]
POSTS = ["true", log("p"), "fail", ("throw", "late"), ("catch", ("throw", ("late", X)), ("late", V("Z2")), log("l"))]


def bound_text(tier):
    if tier == "thorough":
        return "T1 all combinations; T2 goal trees depth<=2 in all contexts; T3 depth-3 trees over {fail,X=1,throw(a),!} x 2 pres x 6 posts x 5 wrappers"
    return "T1 all combinations; T2 goal trees depth<=2 x 3 setups x 2 pres x 6 posts x 5 wrappers"


# ---------------------------------------------------------------------------
# space

def throwers():
    for b in BALLS:
        yield ("throw", b)
    for g in ERR_GOALS:
        yield g


def t1_goals():
    for pre in ["true", ("=", X, 1)]:
        inners = []
        for th in throwers():
            inners.append(th)
            inners.append((",", ("=", X, 1), th))
            inners.append((",", log("i"), th))
            inners.append((";", ("=", X, 2), th))
            inners.append(("setup_call_cleanup", log(("s", 1)), th, log(("c", 1))))
            inners.append(("setup_call_cleanup", log(("s", 1)), (";", ("=", X, 2), th), log(("c", 1))))
        for th in throwers():
            for c2 in [Z, "b", ("f", 1)]:
                for r2 in ["true", log("r2"), ("throw", "other")]:
                    inners.append(("catch", th, c2, r2))
        for inner in inners:
            for c in CATCHERS:
                for r in RECOVERIES:
                    for post in POSTS:
                        gs = [g for g in (pre, ("catch", inner, c, r), post) if g != "true"]
                        yield S.conj(gs)


G_LEAVES = ["true", "fail", ("=", X, 1), ("throw", "a"), "!", log("g")]
G_LEAVES_T3 = ["fail", ("=", X, 1), ("throw", "a"), "!"]


class Ctr(object):
    def __init__(self):
        self.n = 1

    def next(self):
        self.n += 1
        return self.n


def g_trees(depth, leaves, ctr_base=2):
    """goal trees for the protected goal of the outer setup_call_cleanup/3; inner
    cleanup instances are numbered from 2 by position (distinct tags per tree)"""
    def gen(d):
        if d == 1:
            for l in leaves:
                yield l
            return
        for t in gen(d - 1):
            yield t
        subs = list(gen(d - 1))
        for a in subs:
            for b in subs:
                yield (",", a, b)
                yield (";", a, b)
        for a in subs:
            for c in [V("_"), "b"]:
                for r in ["true", log("r")]:
                    yield ("catch", a, c, r)
            yield ("scc", a)
    seen = set()
    for t in gen(depth):
        k = repr(t)
        if k in seen:
            continue
        seen.add(k)
        yield t


def number_scc(t, ctr):
    """replace ('scc', G) markers by setup_call_cleanup(log(s(i)), G, log(c(i)))"""
    if type(t) is tuple:
        if t[0] == "scc" and len(t) == 2:
            i = ctr.next()
            g = number_scc(t[1], ctr)
            return ("setup_call_cleanup", log(("s", i)), g, log(("c", i)))
        return (t[0],) + tuple(number_scc(a, ctr) for a in t[1:])
    return t


def fresh_anon(t, ctr=None):
    """every occurrence of V('_') becomes a distinct variable _A1, _A2, ... (as `_` in source text would be)"""
    if ctr is None:
        ctr = [0]
    if type(t) is V and t.n == "_":
        ctr[0] += 1
        return V("_A%d" % ctr[0])
    if type(t) is tuple:
        return (t[0],) + tuple(fresh_anon(a, ctr) for a in t[1:])
    return t


def setups(i):
    return [log(("s", i)), (",", log(("f", i)), "fail"), (",", log(("f", i)), ("throw", "s"))]


T2_PRES = ["true", (";", ("=", Y, 1), ("=", Y, 2))]
T2_POSTS = ["true", "!", "fail", log("p"), ("throw", "x"), (",", "!", "fail")]


def t2_goals(tier, depth=2, leaves=G_LEAVES, pres=T2_PRES, posts=T2_POSTS, all_setups=True, wrappers=True):
    for g0 in g_trees(depth, leaves):
        g = number_scc(g0, Ctr())
        for si, s in enumerate(setups(1)):
            if si and not all_setups:
                continue
            scc = ("setup_call_cleanup", s, g, log(("c", 1)))
            for pre in pres:
                for post in posts:
                    body = S.conj([x for x in (pre, scc, post) if x != "true"])
                    yield fresh_anon(body)
                    yield fresh_anon(("catch", body, V("_"), log("caught")))
                    if wrappers:
                        yield fresh_anon(("\\+", body))
                        yield fresh_anon(("findall", X, body, V("_")))
                        if "!" not in (post if type(post) is tuple else (post,)):
                            # (a cut in an if-then-else condition under call/N is F-C07-4's defect, not C12's)
                            yield fresh_anon((",", (";", ("->", body, log("then")), log("else")), log("after")))


def t3_goals(tier):
    return t2_goals(tier, depth=3, leaves=G_LEAVES_T3, all_setups=False)


# ---------------------------------------------------------------------------
# family T4: balls that contain attributed variables (dif/2, freeze/2, put_atts/2).  The catcher
# is unified with a COPY of the ball: the copy must still carry the constraint, the original
# variable keeps its own (if it was posted before the catch/3; it is undone if posted inside),
# and the two are independent.  The expectation is computed directly from the case parameters.

W = V("W")
Y2 = V("Y2")
T4_KINDS = {
    # kind: (constraint on X, ball shapes [(ball, catcher)], probes {name: (goal builder, expected R, expected log)})
    "dif": (("dif", X, "a"), [(("ball", X), ("ball", Y)), (("f", ("g", X)), ("f", ("g", Y))),
                               (mklist([X], "t"), mklist([Y], "t")), (("p", X, X), ("p", Y, V("_P")))]),
    "freeze": (("freeze", X, log(("w", X))), [(("ball", X), ("ball", Y)), (("f", ("g", X)), ("f", ("g", Y))),
                                              (mklist([X], "t"), mklist([Y], "t")), (("p", X, X), ("p", Y, V("_P")))]),
    "atts": (("put_atts", X, ("a", 1)), [(("ball", X), ("ball", Y)), (("f", ("g", X)), ("f", ("g", Y))),
                                          (mklist([X], "t"), mklist([Y], "t")), (("p", X, X), ("p", Y, V("_P")))]),
    "dif2": (("dif", X, W), [(("ball2", X, W), ("ball2", Y, Y2)), (mklist([X, W]), mklist([Y, Y2]))]),
}
RV = V("R")


def _flag(cond):
    return (";", ("->", cond, ("=", RV, "bound")), ("=", RV, "blocked"))


def t4_probe(kind, probe, pre):
    """-> (probe goal, expected R, expected log entries)"""
    if kind == "dif":
        return {
            "copy_forbidden": (_flag(("=", Y, "a")), "blocked", []),
            "copy_allowed": (_flag(("=", Y, "b")), "bound", []),
            "orig_forbidden": (_flag(("=", X, "a")), "blocked" if pre else "bound", []),
            "copy_then_orig": ((",", ("=", Y, "b"), _flag(("=", X, "a"))), "blocked" if pre else "bound", []),
            "independent": ((";", ("->", (",", ("=", Y, "b"), ("var", X)), ("=", RV, "indep")), ("=", RV, "aliased")), "indep", []),
        }[probe]
    if kind == "freeze":
        return {
            "copy_bind": ((",", ("=", Y, 1), ("=", RV, "done")), "done", [("w", 1)]),
            "orig_bind": ((",", ("=", X, 2), ("=", RV, "done")), "done", [("w", 2)] if pre else []),
            "both": ((",", ("=", Y, 1), (",", ("=", X, 2), ("=", RV, "done"))), "done", [("w", 1)] + ([("w", 2)] if pre else [])),
            "none": (("=", RV, "done"), "done", []),
        }[probe]
    if kind == "atts":
        def get(v):
            return (";", ("->", ("get_atts", v, ("a", V("_V"))), ("=", RV, ("has", V("_V")))), ("=", RV, "none"))
        return {
            "copy_get": (get(Y), ("has", 1), []),
            "orig_get": (get(X), ("has", 1) if pre else "none", []),
        }[probe]
    if kind == "dif2":
        return {
            "copy_equal": (_flag(("=", Y, Y2)), "blocked", []),
            "copy_distinct": (_flag((",", ("=", Y, 1), ("=", Y2, 2))), "bound", []),
            "orig_equal": (_flag(("=", X, W)), "blocked" if pre else "bound", []),
        }[probe]
    raise KeyError(kind)


T4_PROBES = {"dif": ["copy_forbidden", "copy_allowed", "orig_forbidden", "copy_then_orig", "independent"],
             "freeze": ["copy_bind", "orig_bind", "both", "none"], "atts": ["copy_get", "orig_get"],
             "dif2": ["copy_equal", "copy_distinct", "orig_equal"]}
T4_WRAPS = ["plain", "nomatch", "scc"]


def t4_cases():
    for kind in ("dif", "freeze", "atts", "dif2"):
        for si in range(len(T4_KINDS[kind][1])):
            for probe in T4_PROBES[kind]:
                for pre in (True, False):
                    for wrap in T4_WRAPS:
                        for in_recovery in (False, True):
                            yield {"fam": "T4", "kind": kind, "shape": si, "probe": probe, "pre": pre, "wrap": wrap,
                                   "in_recovery": in_recovery}


def t4_build(c):
    """-> (goal, expected R, expected log)"""
    con, shapes = T4_KINDS[c["kind"]]
    ball, catcher = shapes[c["shape"]]
    pg, exp_r, exp_log = t4_probe(c["kind"], c["probe"], c["pre"])
    th = ("throw", ball)
    if c["wrap"] == "nomatch":
        th = ("catch", th, "nomatch", "true")
    elif c["wrap"] == "scc":
        th = ("setup_call_cleanup", "true", th, log("c"))
        exp_log = ["c"] + exp_log
    inside = th if c["pre"] else (",", con, th)
    if c["in_recovery"]:
        goal = ("catch", inside, catcher, pg)
    else:
        goal = (",", ("catch", inside, catcher, "true"), pg)
    if c["pre"]:
        goal = (",", con, goal)
    return goal, exp_r, exp_log


def judge_t4(c, r_goal, r_log):
    goal, exp_r, exp_log = t4_build(c)
    exp = {"R": terms.show(exp_r), "solutions": 1, "log": [terms.show(x) for x in exp_log]}
    obs_r = [terms.show(d.get("R")) for d in r_goal.sols]
    if r_log.status == "done" and len(r_log.sols) == 1:
        obs_log = [terms.show(x) for x in terms.unlist(r_log.sols[0]["L"])[0]]
    else:
        obs_log = None
    st = r_goal.abn or (("exc:" + px.formal_sig(r_goal.formal())) if r_goal.status == "exc" else r_goal.status)
    obs = {"R": obs_r, "status": st, "log": obs_log}
    sig = None
    tag = "%s/%s %s" % (c["kind"], c["probe"], "pre" if c["pre"] else "inside")
    if st != "done" or len(obs_r) != 1:
        sig = "T4 %s: status %s, %d solutions" % (tag, st, len(obs_r))
    elif obs_r[0] != exp["R"]:
        sig = "T4 %s: R=%s expected %s" % (tag, obs_r[0], exp["R"])
    elif obs_log != exp["log"]:
        sig = "T4 %s: log differs" % tag
    lab = "T4 %s R=%s" % (c["kind"], exp["R"])
    return lab, sig, goal, exp, obs


def run_t4(w, cases, acc):
    texts = []
    for c in cases:
        texts.append("g(%s)" % fmt(t4_build(c)[0]))
        texts.append(LOG_GOAL)
    rs = px.run_goals(w, texts)
    for i, c in enumerate(cases):
        lab, sig, goal, exp, obs = judge_t4(c, rs[2 * i], rs[2 * i + 1])
        smp = {"goal": fmt(goal), "expected": exp, "observed": obs} if len(acc.samples) < 3 else None
        acc.case(True, lab, sample=smp)
        if sig:
            acc.violation(sig, dict(c, goal_text=fmt(goal)), expected=exp, observed=obs)


def shards(tier):
    sh = [("T1", k, 8) for k in range(8)] + [("T2", k, 16) for k in range(16)] + [("T4", 0, 1)]
    sh += [("T5", k, 4) for k in range(4)]
    if tier == "thorough":
        sh += [("T3", k, 96) for k in range(96)]
    return sh


# ---------------------------------------------------------------------------
# family T5: cleanup handlers that themselves catch an exception, with a recovery goal that is
# deterministic, fails, or is re-entered by backtracking, while the protected goal exits by an
# exception, failure, a cut or deterministically.  The exception in flight (parked while the
# handler runs) must survive whatever the handler's own catch/3 does.  Handlers never let an
# exception out (there Scryer and REF differ by design: see ASSUMPTIONS).

Y5 = V("_CY5")   # _C*: projected away (whether a handler's bindings survive is not compared)
_INNER = ("throw", "i")
_RETRY = (";", ("=", Y5, 1), ("=", Y5, 2))
T5_CLEANUPS = [
    (",", ("catch", _INNER, "i", log("r")), log("k")),
    (",", ("catch", _INNER, "i", _RETRY), (",", ("==", Y5, 2), log("k"))),
    (",", ("catch", _INNER, "i", _RETRY), log(("k", Y5))),
    (";", ("catch", _INNER, "i", "fail"), log("k")),
    (",", ("catch", ("catch", _INNER, "j", "true"), "i", _RETRY), (",", ("==", Y5, 2), log("k"))),
    (",", ("catch", ("is", V("_CN5"), ("+", "foo", 1)), ("error", V("_CE5"), V("_C5")), _RETRY), (",", ("==", Y5, 2), log("k"))),
    (",", ("catch", "true", "i", "true"), log("k")),
]
T5_GOALS = [("throw", "e1"), "true", "fail", (";", ("=", X, 1), ("=", X, 2)), (";", ("=", X, 1), ("throw", "e1")),
            ("arg", "x", ("f", "a"), V("_G5")), ("throw", ("f", X, mklist(["s"]), BIG))]
T5_POSTS = ["true", "!", "fail", log("p"), ("throw", "x")]


def t5_goals(tier):
    for cl in T5_CLEANUPS:
        for g in T5_GOALS:
            sccs = [("setup_call_cleanup", "true", g, cl),
                    ("setup_call_cleanup", "true", ("setup_call_cleanup", "true", g, cl), log("outer")),
                    ("setup_call_cleanup", "true", ("setup_call_cleanup", "true", g, log("inner")), cl)]
            for scc in sccs:
                for post in T5_POSTS:
                    body = S.conj([x for x in (scc, post) if x != "true"])
                    yield fresh_anon(body)
                    yield fresh_anon(("catch", body, Z, log(("caught", Z))))
                    yield fresh_anon(("catch", body, "e1", log("caught_e1")))
                    yield fresh_anon(("catch", body, ("error", V("_T5"), V("_C6")), log("caught_err")))
                    yield fresh_anon(("catch", ("catch", body, "nomatch", log("wrong")), Z, log(("outer_caught", Z))))


def goals_of(shard, tier):
    fam, k, m = shard
    gen = {"T1": t1_goals, "T2": lambda: t2_goals(tier), "T3": lambda: t3_goals(tier),
           "T5": lambda: t5_goals(tier)}[fam]()
    for i, g in enumerate(gen):
        if i % m == k:
            yield g


# ---------------------------------------------------------------------------

def setup(w, tier):
    w.consult(HELPER_TEXT, persist=True)


LOG_GOAL = "g((findall(K, logged(K), L), retractall(logged(_))))"


def ref_expect(goal):
    r = R.RefProlog(HELPER_CLAUSES, dynamic=[("logged", 1)])
    ans, st = r.solve(goal, H.SOL_CAP, H.REF_STEPS)
    lg = [R.canon(mask_ctx(h[1])) for h, b in r.listing("logged", 1)]
    return ans, st, r.stats, lg


def mask_ctx(t):
    """error(Formal, Context) -> error(Formal, '$ctx'): contexts are never compared (DESIGN 4.3 rule 1)"""
    if type(t) is tuple:
        if t[0] == "error" and len(t) == 3:
            return ("error", mask_ctx(t[1]), "$ctx")
        return (t[0],) + tuple(mask_ctx(a) for a in t[1:])
    return t


def mask_result(res):
    ans, st = res[0], res[1]
    ans = [R.canon([mask_ctx(x) for x in a]) for a in ans]
    if isinstance(st, tuple) and st[0] == "exc":
        st = ("exc", R.canon(mask_ctx(st[1])))
    return ans, st


def invariant(lg):
    """every entered setup_call_cleanup instance i (log s(i)) was cleaned up exactly once (log c(i))"""
    cnt = {}
    for e in lg:
        if type(e) is tuple and len(e) == 2 and e[0] in ("s", "c"):
            cnt.setdefault(e[1], [0, 0])[0 if e[0] == "s" else 1] += 1
    bad = ["i=%s entered %d cleaned %d" % (i, a, b) for i, (a, b) in sorted(cnt.items()) if a != b]
    return bad


def judge(goal, r_goal, r_log):
    exp_ans, exp_st, stats, exp_log = ref_expect(goal)
    if exp_st in ("budget", "sto"):
        return "skipped:" + exp_st, None, None, False
    # variables named _C* hold error contexts: projected away on both sides
    qv = R.term_vars(goal)
    keep = [i for i, v in enumerate(qv) if not str(v.n).startswith("_C")]
    impl = mask_result(H.impl_answers(r_goal, [qv[i] for i in keep]))
    exp_ans = [[a[i] for i in keep] for a in exp_ans]
    exp_ans, exp_st = mask_result((exp_ans, exp_st))
    if r_log.status == "done" and len(r_log.sols) == 1:
        obs_log = [R.canon(mask_ctx(x)) for x in terms.unlist(r_log.sols[0]["L"])[0]]
    else:
        obs_log = None
    nontriv = bool(stats.get("catches") or stats.get("cleanups_run")) or isinstance(exp_st, tuple)
    lab = "n=%d" % min(len(exp_ans), 3)
    if isinstance(exp_st, tuple):
        lab += " uncaught:" + px.formal_sig(R.formal_of(exp_st[1]))
    if stats.get("catches"):
        lab += " caught"
    if stats.get("cleanups_run"):
        lab += " cleanup"
    exp = {"answers": H.show_result((exp_ans, exp_st)), "log": [terms.show(x) for x in exp_log]}
    obs = {"answers": H.show_result(impl), "log": None if obs_log is None else [terms.show(x) for x in obs_log]}
    sig = None
    if not H.same_result((exp_ans, exp_st), impl):
        sig = "answers " + H.kind_of((exp_ans, exp_st), impl)
    elif obs_log is None:
        sig = "log unreadable: %s" % (r_log.abn or r_log.status)
    else:
        bad = invariant(obs_log)
        if bad:
            sig = "cleanup-count " + "; ".join(bad)
        elif not (len(obs_log) == len(exp_log) and all(R.same(a, b) for a, b in zip(obs_log, exp_log))):
            if sorted(map(repr, obs_log)) == sorted(map(repr, exp_log)):
                sig = "log order"
            else:
                sig = "log content"
    return lab, sig, (exp, obs), nontriv


def features(goal):
    f = set()

    def walk(t):
        if type(t) is tuple:
            if t[0] in ("catch", "setup_call_cleanup", "throw", ";"):
                f.add({"setup_call_cleanup": "scc"}.get(t[0], t[0]))
            for a in t[1:]:
                walk(a)
        elif t == "!":
            f.add("cut")
    walk(goal)
    return sorted(f)


def run_goals(w, goals, acc, fam):
    texts = []
    for g in goals:
        texts.append("g(%s)" % fmt(g))
        texts.append(LOG_GOAL)
    rs = px.run_goals(w, texts)
    for i, g in enumerate(goals):
        lab, sig, eo, nontriv = judge(g, rs[2 * i], rs[2 * i + 1])
        smp = None
        if len(acc.samples) < 3 and eo:
            smp = {"goal": fmt(g), "expected": eo[0], "observed": eo[1]}
        acc.case(nontriv, lab, sample=smp)
        if sig:
            acc.violation("%s %s [%s]" % (fam, sig, ",".join(features(g))), {"fam": fam, "goal": S.enc(g)},
                          expected=eo[0], observed=eo[1])


def run_shard(w, shard, tier):
    acc = px.ShardAcc()
    px.run_goals(w, [LOG_GOAL])
    if shard[0] == "T4":
        for batch in px.chunked(t4_cases(), 200):
            run_t4(w, batch, acc)
        return acc.result()
    for batch in px.chunked(goals_of(shard, tier), 200):
        run_goals(w, batch, acc, shard[0])
    return acc.result()


def recheck(w, case, tier):
    acc = px.ShardAcc()
    px.run_goals(w, [LOG_GOAL])
    if case.get("fam") == "T4":
        c = {k: case[k] for k in ("fam", "kind", "shape", "probe", "pre", "wrap", "in_recovery")}
        run_t4(w, [c], acc)
        if acc.violations:
            v = acc.violations[0]
            return {"sig": v["sig"], "case": case, "expected": v["expected"], "observed": v["observed"]}
        return None
    run_goals(w, [S.dec(case["goal"])], acc, case["fam"])
    if acc.violations:
        v = acc.violations[0]
        return {"sig": v["sig"], "case": case, "expected": v["expected"], "observed": v["observed"]}
    return None
