"""C09 — dynamic predicates follow the logical update view (DESIGN §6 C09).

A history is a conjunction run as ONE query; iterators (d(X), clause/2,
retract/1) are choice points, so exhausting the query backtracks into every
iterator while the updates of the later conjuncts have already happened (and
are not undone).  Compared with a Python model in which every iterator works
on the snapshot of the clause list taken when it was called: the complete
solution sequence, the terminal status, the final clause/2 listing and a final
call of the predicate.
"""
import itertools
import json
import os
import select
import time

from vx.core import px, pool
from vx.model import grpe

ID = "C09"
LEVEL = "model_checking"
ENGINE = "PEX"
TECHNIQUE = "explicit-state search over update/iterator histories executed as one backtracking query, snapshot model"
RULE = ("every conjunction of length 1..N over 15 operations {d(X), d(1), d(2), clause(d(X),true), retract(d(X)), "
        "assertz 1/3, asserta 1/3, retract(d(1)), retract(d(2)), retractall(d(_)), retractall(d(2)), abolish(d/1), !} "
        "x 5 initial databases {[],[1],[1,2],[1,2,3],[2,1,2]} x 3 clause shapes (facts d(k) with an indexed constant "
        "argument; facts d(c,k) called with the first argument unbound; rules d(V) :- V = k), each on a fresh "
        "predicate; all solutions are drawn so every iterator is re-entered after the later updates. "
        "Shape M (mixed index blocks): facts d(Key,V) with Key in {a, b, variable} so that an unindexed clause sits "
        "between indexed ones; initial databases = arrangements of 2-3 (thorough: 2-4) clauses with a variable clause "
        "between constants (or a constant between variables); operations {d(a,X), d(b,X), d(c,X), d(_,X), assertz with key "
        "a/b/c/variable, asserta with key a/variable, retract(d(_,X)), !}, histories of length <= 3. "
        "transitions = distinct histories executed (each extends a shorter one by one operation), "
        "states = distinct final clause listings observed per shard. "
        "Non-trivial: an update is executed while an iterator over the same predicate opened earlier in the "
        "conjunction is still live (not cut), or a retract(d(X)) iterator runs over >= 2 clauses.")
LEVEL_TEXT = ("complete enumeration of the operation alphabet to the stated length on the real database code "
              "(generation stamps, DynamicElse retry path, retract helper); every transition is executed on the implementation")
ASSUMPTIONS = ["the snapshot model (each iterator sees the clauses alive when it was called)",
               "ISO: retract/1 on backtracking tries the next clause of its snapshot; whether a clause that was removed "
               "meanwhile still counts as a solution is left open (both accepted)",
               "after abolish/1 the predicate is unknown; whether retractall/1 re-creates it is left open (both accepted)",
               "driver transport"]
MIN_OUTCOMES = 4

ITEMS = [("call",), ("callk", 1), ("callk", 2), ("ret",),
         ("az", 1), ("az", 3), ("aa", 1), ("aa", 3), ("retk", 1), ("retk", 2),
         ("rall",), ("rallk", 2), ("abol",), ("cut",)]
# clause/2 as a live iterator is a separate small family: the statement only says that clause/2
# sees the database as modified, so there only abnormal endings (panic, hang) are reported
CL_UPD = [("ret",), ("az", 1), ("aa", 1), ("retk", 1), ("retk", 2), ("rall",), ("rallk", 2), ("abol",)]
DBS = [[], [1], [1, 2], [1, 2, 3], [2, 1, 2]]

# shape M ("mixed"): facts d(Key, V) whose first argument is a, b or a variable, so that the predicate
# is split into several index blocks (an unindexed clause between indexed ones); V identifies the
# clause (initial clauses 1..n, the clause asserted by the operation at position i has V = 5+i).
# Calls have the first argument bound to a, b, c (c: no such key) or unbound.
MKEYS = ["a", "b", None]
M_ITEMS_T = ([("mcall", k) for k in ("a", "b", "c", None)] + [("maz", k) for k in ("a", "b", "c", None)]
             + [("maa", k) for k in ("a", "c", None)] + [("mret", k) for k in ("a", None)] + [("cut",)])
# quick: the same calls and assertz; asserta of a present key and of a variable key; retract(d(_,V))
M_ITEMS_Q = ([("mcall", k) for k in ("a", "b", "c", None)] + [("maz", k) for k in ("a", "b", "c", None)]
             + [("maa", k) for k in ("a", None)] + [("mret", None)] + [("cut",)])


def m_items(tier):
    return M_ITEMS_Q


def mixed_dbs(tier):
    """initial databases (lists of first arguments).  thorough: every arrangement of 2-3 clauses with at least one
    variable and one constant first argument, and every arrangement of 4 with a variable clause strictly between
    constants.  quick: the arrangements of 2, and of 3 with the variable clause between constants or the
    constant clause between variables."""
    out = []
    for n in (2, 3, 4):
        for t in itertools.product(MKEYS, repeat=n):
            mixed = any(k is None for k in t) and any(k is not None for k in t)
            between = any(t[j] is None and any(x is not None for x in t[:j]) and any(x is not None for x in t[j + 1:])
                          for j in range(1, n - 1))
            if n == 2:
                ok = mixed
            elif n == 3:
                ok = mixed if tier == "thorough" else (between or (t[0] is None and t[2] is None and t[1] is not None))
            else:
                ok = tier == "thorough" and between
            if ok:
                out.append(list(t))
    return out
SHAPES = ["A", "B", "C"]
CAP = 64
CPU_LIMIT = 0.2    # seconds of worker CPU time for one history (a normal one needs a few ms)


def nmax(tier, shape="A", dbi=3):
    """history length: quick 3; thorough 3 everywhere and 4 for the fact shape A over the two largest
    initial databases (the many non-terminating histories of this tree make more unaffordable)"""
    if tier == "thorough" and shape == "A" and dbi >= 3:
        return 4
    return 3


def bound_text(tier):
    if tier == "thorough":
        return ("all histories of length <= 3 over 14 operations x 5 initial databases x 3 clause shapes, and of length 4 "
                "for shape A over the initial databases [1,2,3] and [2,1,2] (a history is not extended once it ended "
                "in a panic or hang); clause/2-iterator family of length 2; mixed-index shape M: %d initial "
                "databases x all histories of length <= 3 over 12 operations" % len(mixed_dbs(tier)))
    return ("all histories of length <= 3 over 14 operations x 5 initial databases x 3 clause shapes "
            "(shapes B and C over the initial databases [1,2,3] and [2,1,2] only) (a history is not extended once it "
            "ended in a panic or hang); clause/2-iterator family of length 2; mixed-index shape M: %d initial "
            "databases x all histories of length <= 3 over 12 operations" % len(mixed_dbs(tier)))


def shards(tier):
    sh = []
    for shape in SHAPES:
        for dbi in range(len(DBS)):
            if tier != "thorough" and shape != "A" and dbi < 3:
                continue   # quick: the shapes B and C only over the two largest initial databases
            for first in range(len(ITEMS)):
                sh.append((shape, dbi, first))
            sh.append((shape, dbi, "cl"))
    for dbi in range(len(mixed_dbs(tier))):
        sh.append(("M", dbi, "all"))
    return sh


# ---------------------------------------------------------------------------
# model

class PErr(Exception):
    pass


class CapReached(Exception):
    pass


def model(shape, db0, items, dead_yields=True, rall_creates=False):
    """Snapshot model.  -> dict(status, sols, final (None = unknown predicate), inter (set of
    'iterator<update' pairs executed while the iterator still had untried alternatives),
    emptied (operation kind executed first after the predicate lost its last clause under a
    live iterator, or None), used (which of the two open choices were consulted))"""
    if shape == "M":
        clauses = [[i + 1, True, k] for i, k in enumerate(db0)]   # [V, alive, key]
    else:
        clauses = [[k, True] for k in db0]   # [value, alive]; list order = database order
    st = {"exists": True, "dy": False, "rc": False, "emptied": None}
    inter = set()
    n = len(items)
    sols = []
    vals = [None] * n
    open_iters = []                      # kinds of the iterators to the left that still have untried alternatives

    def note(upd):
        for k in open_iters:
            inter.add("%s<%s" % (k, upd))

    def solve(i):
        """returns True when a cut was executed to the right (drop the remaining alternatives)"""
        if i == n:
            sols.append(tuple(vals))
            if len(sols) >= CAP:
                raise CapReached()
            return False
        it = items[i]
        k = it[0]
        if (st["emptied"] is None and k != "cut" and st["exists"] and open_iters and clauses
                and not any(c[1] for c in clauses)):
            st["emptied"] = k
        if k == "cut":
            saved = open_iters[:]
            del open_iters[:]
            solve(i + 1)
            open_iters[:] = saved
            return True
        if k in ("mcall", "mret"):
            key = it[1]
            kind = ("call" if key is None else "callk") if k == "mcall" else ("ret" if key is None else "retk")
            if not st["exists"]:
                if k == "mcall":
                    raise PErr()
                return False
            removing = k == "mret"
            # a call walks every clause block (clauses whose key does not unify are untried alternatives
            # without solutions); retract/1 works on the list of matching clauses it collected at call time
            snap = [c for c in clauses if c[1] and (not removing or key is None or c[2] is None or c[2] == key)]
            for j, c in enumerate(snap):
                rem = j < len(snap) - 1
                if not (key is None or c[2] is None or c[2] == key):
                    continue
                if removing:
                    if c[1]:
                        if rem:
                            open_iters.append(kind)
                        note(kind)
                        if rem:
                            open_iters.pop()
                        c[1] = False
                    else:
                        st["dy"] = True
                        if not dead_yields:
                            continue
                if rem:
                    open_iters.append(kind)
                vals[i] = c[0]
                r = solve(i + 1)
                if rem:
                    open_iters.pop()
                if r:
                    vals[i] = None
                    return True
            vals[i] = None
            return False
        if k in ("maz", "maa"):
            note(k[1:])
            st["exists"] = True
            rec = [5 + i, True, it[1]]
            if k == "maz":
                clauses.append(rec)
            else:
                clauses.insert(0, rec)
            return solve(i + 1)
        if k in ("call", "callk", "clause", "ret", "retk"):
            if not st["exists"]:
                if k in ("call", "callk"):
                    raise PErr()
                return False
            want = it[1] if k in ("callk", "retk") else None
            # the snapshot: clauses alive (and matching) when the goal is called.  A call with a bound
            # value only has its first-argument index in shape A; in the shapes B and C it walks all
            # clauses, so the clauses that do not match are still untried alternatives (no solutions).
            walk_all = k == "callk" and shape != "A"
            snap = [c for c in clauses if c[1] and (want is None or walk_all or c[0] == want)]
            removing = k in ("ret", "retk")
            for j, c in enumerate(snap):
                rem = j < len(snap) - 1
                if walk_all and c[0] != want:
                    continue
                if rem:
                    open_iters.append(k)
                if removing:
                    if c[1]:
                        note(k)
                        c[1] = False
                    else:
                        st["dy"] = True
                        if not dead_yields:
                            if rem:
                                open_iters.pop()
                            continue
                vals[i] = c[0] if want is None else None
                r = solve(i + 1)
                if rem:
                    open_iters.pop()
                if r:
                    vals[i] = None
                    return True
            vals[i] = None
            return False
        # deterministic updates
        note(k)
        if k == "az":
            st["exists"] = True
            clauses.append([it[1], True])
        elif k == "aa":
            st["exists"] = True
            clauses.insert(0, [it[1], True])
        elif k in ("rall", "rallk"):
            if st["exists"]:
                want = it[1] if (k == "rallk" and shape != "C") else None
                for c in clauses:
                    if c[1] and (want is None or c[0] == want):
                        c[1] = False
            else:
                st["rc"] = True
                if rall_creates:
                    st["exists"] = True
        elif k == "abol":
            for c in clauses:
                c[1] = False
            st["exists"] = False
        return solve(i + 1)

    status = "done"
    try:
        solve(0)
    except PErr:
        status = "exc"
    except CapReached:
        status = "cap"
    final = [c[0] for c in clauses if c[1]] if st["exists"] else None
    return {"status": status, "sols": sols, "final": final, "inter": inter, "emptied": st["emptied"],
            "used": (st["dy"], st["rc"])}


# ---------------------------------------------------------------------------
# text

def mkey(k):
    return "_" if k is None else k


def fact_text(shape, p, k, v):
    if shape == "M":
        return "%s(%s,%d)" % (p, mkey(k[0]), k[1])
    if shape == "A":
        return "%s(%d)" % (p, k)
    if shape == "B":
        return "%s(c,%d)" % (p, k)
    return "(%s(%s) :- %s = %d)" % (p, v, v, k)


def item_text(shape, p, it, i):
    k = it[0]
    x = "X%d" % i
    if k == "cut":
        return "!"
    if k == "mcall":
        return "%s(%s,%s)" % (p, mkey(it[1]), x)
    if k == "mret":
        return "retract(%s(%s,%s))" % (p, mkey(it[1]), x)
    if k in ("maz", "maa"):
        return "assert%s(%s(%s,%d))" % (k[2], p, mkey(it[1]), 5 + i)
    if shape == "M" and k == "clause":
        return "clause(%s(_,%s),true)" % (p, x)
    if shape == "M" and k == "call":
        return "%s(_,%s)" % (p, x)
    if k == "call":
        return "%s(%s)" % (p, x) if shape != "B" else "%s(_,%s)" % (p, x)
    if k == "callk":
        return "%s(%d)" % (p, it[1]) if shape != "B" else "%s(_,%d)" % (p, it[1])
    if k == "clause":
        if shape == "A":
            return "clause(%s(%s),true)" % (p, x)
        if shape == "B":
            return "clause(%s(_,%s),true)" % (p, x)
        return "clause(%s(_),(_ = %s))" % (p, x)
    if k in ("ret", "retk"):
        a = x if k == "ret" else str(it[1])
        if shape == "A":
            return "retract(%s(%s))" % (p, a)
        if shape == "B":
            return "retract(%s(_,%s))" % (p, a)
        return "retract((%s(_) :- _ = %s))" % (p, a)
    if k in ("az", "aa"):
        return "assert%s(%s)" % (k[1], fact_text(shape, p, it[1], "A%d" % i))
    if k == "rall":
        return "retractall(%s(_))" % p if shape != "B" else "retractall(%s(_,_))" % p
    if k == "rallk":
        return "retractall(%s(%d))" % (p, it[1]) if shape != "B" else "retractall(%s(_,%d))" % (p, it[1])
    if k == "abol":
        return "abolish(%s/%d)" % (p, 2 if shape == "B" else 1)
    raise ValueError(it)


def command_for(shape, p, db0, items):
    """one driver command: [build the initial database, the history, clause/2 listing, final call]"""
    gs = []
    if db0:
        gs.append(", ".join("assertz(%s)" % fact_text(shape, p, (k, j + 1) if shape == "M" else k, "S%d" % j)
                            for j, k in enumerate(db0)))
    else:
        gs.append("true")
    gs.append(", ".join(item_text(shape, p, it, i) for i, it in enumerate(items)))
    gs.append(item_text(shape, p, ("clause",), 99))
    gs.append(item_text(shape, p, ("call",), 99))
    return "multi([%s]) ." % ",".join("(%s)" % g for g in gs)


# ---------------------------------------------------------------------------

def observe(x, items):
    """raw worker answer -> (status, sols, listing, callres)"""
    abn = pool.abnormal_sig(x)
    if abn:
        return ("abn:" + abn, None, None, None)
    rs = grpe.split_multi(x, 4)
    s0 = rs[0]
    if s0.status != "done" or len(s0.sols) != 1:
        return ("setup:" + str(s0.status), None, None, None)
    q = rs[1]
    status = q.status
    if status == "exc":
        f = q.formal()
        status = "exc" if (isinstance(f, tuple) and f[0] == "existence_error") else "exc:" + px.formal_sig(f)
    sols = []
    for s in q.sols:
        sols.append(tuple((s.get("X%d" % i) if it[0] in ("call", "clause", "ret", "mcall", "mret") else None)
                          for i, it in enumerate(items)))
    lst = rs[2]
    # the driver caps every goal of a multi command at 64 solutions: listing and final call are compared
    # on their first 64 entries
    listing = [s.get("X99") for s in lst.sols] if lst.status in ("done", "cap") else "status:%s" % lst.status
    c = rs[3]
    if c.status == "exc":
        f = c.formal()
        callres = "unknown" if isinstance(f, tuple) and f[0] == "existence_error" else "exc:" + px.formal_sig(f)
    else:
        callres = [s.get("X99") for s in c.sols]
    return (status, sols, listing, callres)


def expected_variants(shape, db0, items):
    """-> (acceptable observations, model facts of the primary variant); the two open choices
    are only expanded when the history consults them"""
    out = []
    first = None
    todo = [(True, False)]
    seen = set()
    while todo:
        dy, rc = todo.pop(0)
        if (dy, rc) in seen:
            continue
        seen.add((dy, rc))
        m = model(shape, db0, items, dy, rc)
        if first is None:
            first = m
        final = m["final"]
        if final is not None:
            final = final[:CAP]
        e = (m["status"], m["sols"], final if final is not None else [], final if final is not None else "unknown")
        if e not in out:
            out.append(e)
        if m["used"][0]:
            todo.append((not dy, rc))
        if m["used"][1]:
            todo.append((dy, not rc))
    return out, first


def is_subseq(a, b):
    it = iter(b)
    return all(any(x == y for y in it) for x in a)


def diff_kind(obs, exp):
    """what differs, in a form that separates the defect classes"""
    parts = []
    if obs[0] != exp[0]:
        parts.append("status:%s>%s" % (exp[0], obs[0]))
    if obs[1] != exp[1]:
        if len(obs[1]) < len(exp[1]) and is_subseq(obs[1], exp[1]):
            parts.append("sols:lost")
        elif len(obs[1]) > len(exp[1]) and is_subseq(exp[1], obs[1]):
            parts.append("sols:extra")
        else:
            parts.append("sols:other")
    if obs[2] != exp[2]:
        parts.append("final")
    if obs[3] != exp[3] and obs[3] != obs[2]:
        parts.append("call:%s" % (obs[3] if isinstance(obs[3], str) else
                                   "lost" if is_subseq(obs[3], obs[2] if isinstance(obs[2], list) else []) else "other"))
    return "+".join(parts)


def judge(shape, db0, items, x):
    """-> (label, nontrivial, sig or None, observed, expected)"""
    exps, m = expected_variants(shape, db0, items)
    obs = observe(x, items)
    nt = bool(m["inter"])
    cl = items[0][0] == "clause"
    if obs in exps:
        label = "%s:%s" % (obs[0], "n" if not obs[1] else ("1" if len(obs[1]) == 1 else "m"))
        if nt:
            label += ":live"
        return label, nt, None, obs, None
    if cl and not obs[0].startswith("abn:"):
        # clause/2 as a live iterator: only abnormal endings are in scope
        return "clause_iter:differs(not compared)", nt, None, obs, None
    e = exps[0]
    ctx = "live={%s} emptied=%s" % (",".join(sorted(m["inter"])) or "-", m["emptied"] or "-")
    if shape == "M":
        # an asserta before a later assertz is the trigger of a known clause-threading defect (F-C06-3)
        kinds = [it[0] for it in items]
        aa_az = any(k == "maa" and "maz" in kinds[j + 1:] for j, k in enumerate(kinds))
        ctx += " seq=%s" % ("aa>az" if aa_az else "-")
    if obs[0].startswith("abn:"):
        # panic, hang and crash are one class: which of them a derailed dispatch loop ends in
        # depends on the heap contents, so the kind is not part of the signature
        what = "abnormal"
    elif obs[0].startswith("setup:"):
        what = obs[0]
    else:
        what = "diff=" + diff_kind(obs, e)
    return "mismatch", nt, "%s %s %s" % (shape, what, ctx), obs, e


_SERIAL = [0]
_TICK = os.sysconf("SC_CLK_TCK")


def _cpu_s(pid):
    """CPU seconds used by the process, or None when /proc cannot be read just now"""
    try:
        with open("/proc/%d/stat" % pid) as f:
            parts = f.read().rsplit(")", 1)[1].split()
        return (int(parts[11]) + int(parts[12])) / _TICK
    except (OSError, IndexError, ValueError):
        return None


def rpc_cpu(w, req, cpu_limit=CPU_LIMIT, wall_limit=900.0):
    """one request with a horizon measured in CPU time of the worker process (the machine is
    shared, so a wall-clock horizon short enough to make the many non-terminating histories
    affordable would misfire under load).  Raises pool.WorkerDied('hang'|'exit')."""
    w.p.stdin.write((json.dumps(req) + "\n").encode("utf-8"))
    w.p.stdin.flush()
    fd = w.p.stdout.fileno()
    c0 = _cpu_s(w.p.pid)
    for _ in range(50):
        if c0 is not None:
            break
        time.sleep(0.01)
        c0 = _cpu_s(w.p.pid)
    t0 = time.time()
    while b"\n" not in w.buf:
        r, _, _ = select.select([fd], [], [], 0.05)
        if r:
            chunk = os.read(fd, 1 << 20)
            if not chunk:
                raise pool.WorkerDied("exit", w.p.wait())
            w.buf += chunk
            continue
        c1 = _cpu_s(w.p.pid)
        if (c0 is not None and c1 is not None and c1 - c0 > cpu_limit) or time.time() - t0 > wall_limit:
            raise pool.WorkerDied("hang")
    line, w.buf = w.buf.split(b"\n", 1)
    return json.loads(line.decode("utf-8", "replace"))


def execute(w, shape, db0, hs):
    """runs the histories, each on a fresh predicate and as its own request (so that a panic or
    hang cannot disturb another history); -> raw answers"""
    ar = 2 if shape in ("B", "M") else 1
    out = []
    keep = [c for c in w.setup_consults if not c[0].startswith(":- dynamic(h")]
    for group in px.chunked(hs, 150):
        names = []
        for _ in group:
            _SERIAL[0] += 1
            names.append("h%d" % _SERIAL[0])
        # declared in small groups; the pool re-applies the current group whenever the machine is rebuilt
        w.setup_consults = list(keep)
        grpe.consult_checked(w, "\n".join(":- dynamic(%s/%d)." % (n, ar) for n in names) + "\n", persist=True)
        for n, items in zip(names, group):
            # one request per history; a hang is detected by a CPU-time horizon and costs one worker restart
            # (pool.Worker.q would run the case a second time to attribute it, which is not needed here).
            # An abnormal ending is only reported if it happens again on the rebuilt (clean) machine.
            x = None
            for attempt in (0, 1):
                try:
                    r = rpc_cpu(w, {"op": "q", "cases": [command_for(shape, n, db0, items)]})
                    x = r["r"][0]
                    if "panic" in x:
                        w._reapply_setup()
                except pool.WorkerDied as d:
                    w.restart()
                    x = {"o": "", "hang": True} if d.how == "hang" else {"o": "", "crash": d.rc}
                if not pool.abnormal_sig(x):
                    break
            out.append(x)
    w.setup_consults = keep
    return out


def record(acc, states, shape, db0, items, x):
    label, nt, sig, obs, exp = judge(shape, db0, items, x)
    acc.case(nt, label, sample={"shape": shape, "db": db0, "history": [list(i) for i in items],
                                "observed": px._j(repr(obs))})
    acc.transitions += 1
    if isinstance(obs[2], list):
        states.add(tuple(obs[2]))
    if sig:
        acc.violation(sig, {"shape": shape, "db": db0, "items": [list(i) for i in items]},
                      expected=repr(exp), observed=repr(obs))
    return obs[0].startswith("abn:")


def run_shard(w, shard, tier):
    acc = px.ShardAcc()
    shape, dbi, first = shard
    db0 = mixed_dbs(tier)[dbi] if shape == "M" else DBS[dbi]
    alphabet = m_items(tier) if shape == "M" else ITEMS
    w.new_machine()
    states = set()
    if first == "cl":
        hs = [[("clause",), u] for u in CL_UPD] + [[("clause",), u, ("call",)] for u in CL_UPD]
        for items, x in zip(hs, execute(w, shape, db0, hs)):
            record(acc, states, shape, db0, items, x)
    else:
        top = nmax(tier, shape, dbi)
        level = [[it] for it in alphabet] if shape == "M" else [[ITEMS[first]]]
        for ln in range(1, top + 1):
            nxt = []
            for part in px.chunked(level, 3000):
                for items, x in zip(part, execute(w, shape, db0, part)):
                    abnormal = record(acc, states, shape, db0, items, x)
                    if abnormal:
                        acc.extra["not_extended_after_abnormal"] += 1
                    elif ln < top:
                        nxt.append(items)
            level = [h + [it] for h in nxt for it in alphabet]
    acc.states = len(states)
    return acc.result()


def recheck(w, case, tier):
    acc = px.ShardAcc()
    items = [tuple(i) for i in case["items"]]
    x = execute(w, case["shape"], case["db"], [items])[0]
    record(acc, set(), case["shape"], case["db"], items, x)
    return acc.violations[0] if acc.violations else None
