"""C09 — dynamic predicates follow the logical update view (DESIGN §6 C09).

A history is a conjunction run as ONE query; iterators (d(X), clause/2,
retract/1) are choice points, so exhausting the query backtracks into every
iterator while the updates of the later conjuncts have already happened (and
are not undone).  Compared with a Python model in which every iterator works
on the snapshot of the clause list taken when it was called: the complete
solution sequence, the terminal status, the final clause/2 listing and a final
call of the predicate.
"""
import itertools

from vx.core import px
from vx.model import grpe

ID = "C09"
LEVEL = "model_checking"
ENGINE = "PEX"
TECHNIQUE = "explicit-state search over update/iterator histories executed as one backtracking query, snapshot model"
RULE = ("every conjunction of length 1..N over 15 operations {d(X), d(1), d(2), clause(d(X),true), retract(d(X)), "
        "assertz 1/3, asserta 1/3, retract(d(1)), retract(d(2)), retractall(d(_)), retractall(d(2)), abolish(d/1), !} "
        "x 5 initial databases {[],[1],[1,2],[1,2,3],[2,1,2]} x 3 clause shapes (facts d(k) with an indexed constant "
        "argument; facts d(c,k) called with the first argument unbound; rules d(V) :- V = k), each on a fresh "
        "predicate; all solutions are drawn so every iterator is re-entered after the later updates. "
        "transitions = distinct histories executed (each extends a shorter one by one operation), "
        "states = distinct final clause listings observed per shard. "
        "Non-trivial: an update is executed while an iterator over the same predicate opened earlier in the "
        "conjunction is still live (not cut), or a retract(d(X)) iterator runs over >= 2 clauses.")
LEVEL_TEXT = ("complete enumeration of the operation alphabet to the stated length on the real database code "
              "(generation stamps, DynamicElse retry path, retract helper); every transition is executed on the implementation")
ASSUMPTIONS = ["the snapshot model (each iterator sees the clauses alive when it was called)",
               "ISO: retract/1 on backtracking tries the next clause of its snapshot; whether a clause that was removed "
               "meanwhile still counts as a solution is left open (both accepted)",
               "after abolish/1 the predicate is unknown; whether retractall/1 re-creates it is left open (both accepted)",
               "driver transport"]
MIN_OUTCOMES = 4

ITEMS = [("call",), ("callk", 1), ("callk", 2), ("clause",), ("ret",),
         ("az", 1), ("az", 3), ("aa", 1), ("aa", 3), ("retk", 1), ("retk", 2),
         ("rall",), ("rallk", 2), ("abol",), ("cut",)]
DBS = [[], [1], [1, 2], [1, 2, 3], [2, 1, 2]]
SHAPES = ["A", "B", "C"]
CAP = 64
ITER = {"call", "clause", "ret", "callk", "retk"}
UPD = {"az", "aa", "ret", "retk", "rall", "rallk", "abol"}


def nmax(tier):
    return 5 if tier == "thorough" else 4


def bound_text(tier):
    return "all histories of length <= %d over 15 operations x 5 initial databases x 3 clause shapes" % nmax(tier)


def shards(tier):
    sh = []
    for shape in SHAPES:
        for dbi in range(len(DBS)):
            for first in range(len(ITEMS)):
                if tier == "thorough":
                    for second in range(len(ITEMS)):
                        sh.append((shape, dbi, first, second))
                else:
                    sh.append((shape, dbi, first))
    return sh


def histories(shard, tier):
    n = nmax(tier)
    prefix = [ITEMS[i] for i in shard[2:]]
    if len(prefix) == 2:
        # the length-1 history is emitted by the shard whose second index is 0
        if shard[3] == 0:
            yield prefix[:1]
    for ln in range(0, n - len(prefix) + 1):
        for t in itertools.product(ITEMS, repeat=ln):
            yield prefix + list(t)


# ---------------------------------------------------------------------------
# model

class PErr(Exception):
    pass


class CapReached(Exception):
    pass


def model(shape, db0, items, dead_yields, rall_creates):
    """-> (status, sols, final listing or None if the predicate is unknown, live_update, flags consulted)"""
    clauses = [[k, True] for k in db0]   # [value, alive]; list order = database order
    st = {"exists": True, "live": False, "dy": False, "rc": False}
    n = len(items)
    sols = []
    vals = [None] * n
    open_iters = [0]                     # iterators to the left that still have untried alternatives

    def solve(i):
        """returns True when a cut was executed to the right (drop the remaining alternatives)"""
        if i == n:
            sols.append(tuple(vals))
            if len(sols) >= CAP:
                raise CapReached()
            return False
        it = items[i]
        k = it[0]
        if k == "cut":
            saved = open_iters[0]
            open_iters[0] = 0
            solve(i + 1)
            open_iters[0] = saved
            return True
        if k in ("call", "callk", "clause", "ret", "retk"):
            if not st["exists"]:
                if k in ("call", "callk"):
                    raise PErr()
                return False
            want = it[1] if k in ("callk", "retk") else None
            # the snapshot: clauses alive (and matching) when the goal is called
            snap = [c for c in clauses if c[1] and (want is None or c[0] == want)]
            removing = k in ("ret", "retk")
            for j, c in enumerate(snap):
                rem = 1 if j < len(snap) - 1 else 0
                if removing:
                    if c[1]:
                        if open_iters[0] + rem > 0:
                            st["live"] = True
                        c[1] = False
                    else:
                        st["dy"] = True
                        if not dead_yields:
                            continue
                open_iters[0] += rem
                vals[i] = c[0] if want is None else None
                r = solve(i + 1)
                open_iters[0] -= rem
                if r:
                    vals[i] = None
                    return True
            vals[i] = None
            return False
        # deterministic updates
        if open_iters[0] > 0:
            st["live"] = True
        if k == "az":
            st["exists"] = True
            clauses.append([it[1], True])
        elif k == "aa":
            st["exists"] = True
            clauses.insert(0, [it[1], True])
        elif k in ("rall", "rallk"):
            if st["exists"]:
                want = it[1] if (k == "rallk" and shape != "C") else None
                for c in clauses:
                    if c[1] and (want is None or c[0] == want):
                        c[1] = False
            else:
                st["rc"] = True
                if rall_creates:
                    st["exists"] = True
        elif k == "abol":
            for c in clauses:
                c[1] = False
            st["exists"] = False
        return solve(i + 1)

    status = "done"
    try:
        solve(0)
    except PErr:
        status = "exc"
    except CapReached:
        status = "cap"
    final = [c[0] for c in clauses if c[1]] if st["exists"] else None
    return status, sols, final, st["live"], (st["dy"], st["rc"])


# ---------------------------------------------------------------------------
# text

def fact_text(shape, p, k, v):
    if shape == "A":
        return "%s(%d)" % (p, k)
    if shape == "B":
        return "%s(c,%d)" % (p, k)
    return "(%s(%s) :- %s = %d)" % (p, v, v, k)


def item_text(shape, p, it, i):
    k = it[0]
    x = "X%d" % i
    if k == "cut":
        return "!"
    if k == "call":
        return "%s(%s)" % (p, x) if shape != "B" else "%s(_,%s)" % (p, x)
    if k == "callk":
        return "%s(%d)" % (p, it[1]) if shape != "B" else "%s(_,%d)" % (p, it[1])
    if k == "clause":
        if shape == "A":
            return "clause(%s(%s),true)" % (p, x)
        if shape == "B":
            return "clause(%s(_,%s),true)" % (p, x)
        return "clause(%s(_),(_ = %s))" % (p, x)
    if k in ("ret", "retk"):
        a = x if k == "ret" else str(it[1])
        if shape == "A":
            return "retract(%s(%s))" % (p, a)
        if shape == "B":
            return "retract(%s(_,%s))" % (p, a)
        return "retract((%s(_) :- _ = %s))" % (p, a)
    if k in ("az", "aa"):
        return "assert%s(%s)" % (k[1], fact_text(shape, p, it[1], "A%d" % i))
    if k == "rall":
        return "retractall(%s(_))" % p if shape != "B" else "retractall(%s(_,_))" % p
    if k == "rallk":
        return "retractall(%s(%d))" % (p, it[1]) if shape != "B" else "retractall(%s(_,%d))" % (p, it[1])
    if k == "abol":
        return "abolish(%s/%d)" % (p, 2 if shape == "B" else 1)
    raise ValueError(it)


def goals_for(shape, p, db0, items):
    gs = []
    if db0:
        gs.append(", ".join("assertz(%s)" % fact_text(shape, p, k, "S%d" % j) for j, k in enumerate(db0)))
    else:
        gs.append("true")
    gs.append(", ".join(item_text(shape, p, it, i) for i, it in enumerate(items)))
    gs.append(item_text(shape, p, ("clause",), 99))
    gs.append(item_text(shape, p, ("call",), 99))
    return gs


# ---------------------------------------------------------------------------

def observe(rs, items):
    """-> (status, sols, listing, callres) from the Res of [setup, query, listing, call]"""
    q = rs[1]
    if q.abn:
        return ("abn:" + q.abn, None, None, None)
    status = q.status
    if status == "exc":
        f = q.formal()
        status = "exc" if (isinstance(f, tuple) and f[0] == "existence_error") else "exc:" + px.formal_sig(f)
    sols = []
    for s in q.sols:
        sols.append(tuple((s.get("X%d" % i) if it[0] in ("call", "clause", "ret") else None)
                          for i, it in enumerate(items)))
    lst = rs[2]
    listing = [s.get("X99") for s in lst.sols] if lst.status == "done" and not lst.abn else "status:%s" % (lst.abn or lst.status)
    c = rs[3]
    if c.abn:
        callres = "abn:" + c.abn
    elif c.status == "exc":
        f = c.formal()
        callres = "unknown" if isinstance(f, tuple) and f[0] == "existence_error" else "exc:" + px.formal_sig(f)
    else:
        callres = [s.get("X99") for s in c.sols]
    return (status, sols, listing, callres)


def expected_variants(shape, db0, items):
    """the acceptable observations; the two open choices are only expanded when the history consults them"""
    out = []
    live = False
    todo = [(True, False)]
    seen = set()
    while todo:
        dy, rc = todo.pop(0)
        if (dy, rc) in seen:
            continue
        seen.add((dy, rc))
        status, sols, final, lv, (udy, urc) = model(shape, db0, items, dy, rc)
        live = live or lv
        listing = final if final is not None else []
        callres = final if final is not None else "unknown"
        e = (status, sols, listing, callres)
        if e not in out:
            out.append(e)
        if udy:
            todo.append((not dy, rc))
        if urc:
            todo.append((dy, not rc))
    return out, live


def pattern(items):
    return ",".join(it[0] for it in items)


def diff_kind(obs, exp):
    names = ["status", "sols", "final", "call"]
    return "+".join(n for n, a, b in zip(names, obs, exp) if a != b)


def judge(shape, db0, items, rs):
    """-> (label, nontrivial, sig or None, observed, expected)"""
    exps, live = expected_variants(shape, db0, items)
    obs = observe(rs, items)
    s0 = rs[0]
    if s0.abn or s0.status != "done" or len(s0.sols) != 1:
        return "setup_failed", live, "%s setup %s" % (shape, s0.abn or s0.status), str(s0), "setup succeeds"
    if obs in exps:
        label = "%s:%s" % (obs[0], "n" if not obs[1] else ("1" if len(obs[1]) == 1 else "m"))
        if live:
            label += ":live"
        return label, live, None, obs, None
    e = exps[0]
    if obs[0].startswith("abn:"):
        sig = "%s [%s] %s" % (shape, pattern(items), obs[0])
    else:
        sig = "%s [%s] diff=%s" % (shape, pattern(items), diff_kind(obs, e))
    return "mismatch", live, sig, obs, e


def run_batch(w, shape, db0, hs, acc, states):
    w.new_machine()
    ar = 2 if shape == "B" else 1
    names = ["h%d" % i for i in range(len(hs))]
    for part in px.chunked(names, 2000):
        grpe.consult_checked(w, "\n".join(":- dynamic(%s/%d)." % (n, ar) for n in part) + "\n")
    cmds = [goals_for(shape, n, db0, items) for n, items in zip(names, hs)]
    allres = grpe.run_multi(w, cmds, chunk=200)
    for items, rs in zip(hs, allres):
        label, nt, sig, obs, exp = judge(shape, db0, items, rs)
        acc.case(nt, label, sample={"shape": shape, "db": db0, "history": [list(i) for i in items],
                                    "observed": px._j(obs)})
        acc.transitions += 1
        if isinstance(obs, tuple) and isinstance(obs[2], list):
            states.add(tuple(obs[2]))
        if sig:
            acc.violation(sig, {"shape": shape, "db": db0, "items": [list(i) for i in items]},
                          expected=repr(exp), observed=repr(obs))


def run_shard(w, shard, tier):
    acc = px.ShardAcc()
    shape, dbi = shard[0], shard[1]
    states = set()
    for part in px.chunked(histories(shard, tier), 4000):
        run_batch(w, shape, DBS[dbi], part, acc, states)
    acc.states = len(states)
    return acc.result()


def recheck(w, case, tier):
    acc = px.ShardAcc()
    items = [tuple(i) for i in case["items"]]
    run_batch(w, case["shape"], case["db"], [items], acc, set())
    return acc.violations[0] if acc.violations else None
