"""C07 - compiled programs compute ISO SLD-resolution answers (DESIGN section 6, C07).

Every program of the spaces in vx/model/c07_space.py is consulted (static
code, batches of renamed-apart predicates), each of its queries is solved to
exhaustion through the driver, and the exact answer sequence (order,
multiplicity, bindings up to variable renaming) plus the formal of an
uncaught error is compared with REF (vx/model/refprolog.py).
"""
from functools import lru_cache

from vx.core import px, terms
from vx.core.terms import V, fmt
from vx.model import refprolog as R
from vx.model import c07_space as S
from vx.model import c07_harness as H

ID = "C07"
LEVEL = "exploration"
ENGINE = "PEX+REF"
TECHNIQUE = "bounded exhaustive program enumeration against a reference SLD interpreter"
RULE = ("A1: one rule t(H1,H2) :- G1..Gn (n<=3 quick, 4 thorough) over leaf goals (user calls, =, ==, type tests, "
        "arithmetic, !, fail, call/3) with every variable-sharing pattern (restricted growth strings, <=4 variables) "
        "and 5 head shapes, plus a second clause t(z,z); A2: one control construct (;, ->;, ->, \\+, call/1, call/N, "
        "conjunction inside a branch, cut in every position) between optional pre/post calls with every assignment "
        "of {A,B,L,M} to the argument slots; A3: t3(A,B,C) with every assignment of {A,B,C,L} to the arguments of one "
        "or two q3/3 calls (register shuffles); B: every control tree with <=5 (quick) / <=6 (thorough) nodes over "
        "{true,fail,X=a,X=b,Y=X,r(X),!} and {',',;,->,->;,\\+,call/1}, directly in a 2-clause predicate and nested "
        "through a helper; C: every conjunction of <=3 goals over {!,fail,true,r(X),X=a} containing a cut as the condition of "
        "if-then(-else), under \\+ and under call/1; D: if-then without else, if-then-else, \\+ and call/1 as the last goal of "
        "a non-final disjunct, preceded by 0..2 goals with 0..2 solutions each, in 2- and 3-branch disjunctions, with "
        "and without a following goal, in a clause body and under call/1. 3-4 queries per program (open, first/second argument bound, structure). "
        "A case is one (program, query). Non-trivial: REF's run resumes a choice point at least once or executes a "
        "cut that removes at least one choice point.")
LEVEL_TEXT = ("exhaustive within the stated program-size bound; the oracle is an independent interpreter, so any "
              "difference in answers, their order, multiplicity or error is detected for every enumerated program")
ASSUMPTIONS = ["REF (vx/model/refprolog.py) implements ISO 7.6-7.8 resolution, cut and control constructs",
               "driver transport: failure-driven solution loop, own term emitter",
               "consult_module_string loads clause text as static code"]
MIN_OUTCOMES = 4
BATCH = 250


def bound_text(tier):
    if tier == "thorough":
        return ("A1 bodies n<=2 over 14 leaves x 5 heads, n=3 over 6 leaves x 3 heads (all sharing patterns <=4 vars), "
                "n=4 over 3 leaves (<=3 vars); A2 all control skeletons x 3 pre x 4 post x all slot assignments "
                "(4 names up to 5 slots, 3 names for 6, 2 names above); A3 incl. structure arguments; "
                "B all control trees <=6 nodes x 2 contexts; C cut-in-condition family; D control construct ending a non-final disjunct")
    return ("A1 bodies n<=2 over 9 leaves x 5 heads x all sharing patterns <=4 vars, n=3 over 4 leaves x 2 heads <=3 vars; "
            "A2 all control skeletons x 2 pre x 2 post x all slot assignments; A3 4352 argument assignments; "
            "B all control trees <=5 nodes x 2 contexts; C cut-in-condition family (all conjunctions <=3 goals); D control construct ending a non-final disjunct (all 25 168 bodies)")


# ---------------------------------------------------------------------------
# shards

@lru_cache(maxsize=None)
def _n_rgs(k, m):
    return sum(1 for _ in S.rgs(k, m))


@lru_cache(maxsize=None)
def _n_a2(k, pool_len):
    return sum(1 for _ in S.a2_fills(k, ["A", "B", "L", "M"][:pool_len] if pool_len > 2 else ["A", "L"]))


def _a2_pool_len(k, tier):
    if k <= (5 if tier == "thorough" else 4):
        return 4
    if k <= (6 if tier == "thorough" else 5):
        return 3
    return 2


def _pack(counts, target):
    """contiguous slices [lo,hi) with about `target` programs each"""
    out = []
    lo = 0
    acc = 0
    for i, c in enumerate(counts):
        acc += c
        if acc >= target:
            out.append((lo, i + 1))
            lo = i + 1
            acc = 0
    if lo < len(counts):
        out.append((lo, len(counts)))
    return out


def a2_quick_filter(goals):
    """quick tier keeps the skeletons with at most 5 argument slots"""
    return S.count_slots(S.conj(goals)) <= 5


def _a2_skels(tier):
    sk = S.a2_skeletons(tier)
    if tier != "thorough":
        sk = [g for g in sk if a2_quick_filter(g)]
    return sk


def shards(tier):
    sh = []
    target = 6000 if tier == "thorough" else 2500
    sk = S.a1_skeletons(tier)
    counts = [_n_rgs(S.count_slots(("c",) + tuple(h)) + sum(S.count_slots(g) for g in gs), mv) for h, gs, mv in sk]
    for lo, hi in _pack(counts, target):
        sh.append(("A1", lo, hi))
    sk2 = _a2_skels(tier)
    counts = [_n_a2(S.count_slots(S.conj(g)), _a2_pool_len(S.count_slots(S.conj(g)), tier)) for g in sk2]
    for lo, hi in _pack(counts, target):
        sh.append(("A2", lo, hi))
    m = 4 if tier == "thorough" else 2
    for k in range(m):
        sh.append(("A3", k, m))
    maxsize = 6 if tier == "thorough" else 5
    sh.append(("C", 0, 2))
    sh.append(("C", 1, 2))
    for k in range(12):
        sh.append(("D", k, 12))
    for ctx in ("plain", "nested"):
        sh.append(("B", 1, 4, ctx, 0, 1))
        sh.append(("B", 5, 5, ctx, 0, 4))
        sh.append(("B", 5, 5, ctx, 1, 4))
        sh.append(("B", 5, 5, ctx, 2, 4))
        sh.append(("B", 5, 5, ctx, 3, 4))
        if maxsize >= 6:
            for k in range(24):
                sh.append(("B", 6, 6, ctx, k, 24))
    return sh


def programs(shard, tier):
    fam = shard[0]
    if fam == "A1":
        sk = S.a1_skeletons(tier)
        for s in sk[shard[1]:shard[2]]:
            for p in S.a1_programs(s):
                yield p
    elif fam == "A2":
        sk = _a2_skels(tier)
        for g in sk[shard[1]:shard[2]]:
            for p in S.a2_programs(g, tier):
                yield p
    elif fam == "A3":
        for i, p in enumerate(S.a3_programs(tier)):
            if i % shard[2] == shard[1]:
                yield p
    elif fam == "D":
        for i, p in enumerate(S.d_programs()):
            if i % shard[2] == shard[1]:
                yield p
    elif fam == "C":
        for i, p in enumerate(S.c_programs()):
            if i % shard[2] == shard[1]:
                p["fam"] = "C"
                yield p
    elif fam == "B":
        _, lo, hi, ctx, k, m = shard
        i = 0
        for size in range(lo, hi + 1):
            for t in S.b_trees(size):
                if i % m == k:
                    yield S.b_program(t, ctx)
                i += 1


# ---------------------------------------------------------------------------

def setup(w, tier):
    w.consult(S.HELPER_TEXT + "\n", persist=True)


def case_of(p, qi):
    return {"fam": p["fam"], "clauses": [S.enc(c) for c in p["clauses"]], "query": S.enc(p["queries"][qi])}


def program_text(p):
    return " ".join(fmt(c) + "." for c in p["clauses"])


def sig_for(base, p, q, ref_res, impl_res):
    dev = H.explain(base, p["clauses"], q, impl_res)
    if dev:
        return "deviation %s" % dev
    return "%s %s [%s]" % (p["fam"], H.kind_of(ref_res, impl_res), ",".join(p["feat"]))


def label(ref_res, feat):
    ans, st, stats = ref_res
    s = "n=%d" % len(ans) if len(ans) < 4 else "n>=4"
    if isinstance(st, tuple):
        s += " exc:" + px.formal_sig(R.formal_of(st[1]))
    elif st != "done":
        s += " " + st
    if stats.get("cuts_nonempty"):
        s += " cut"
    return s


def run_shard(w, shard, tier):
    acc = px.ShardAcc()
    base = H.base_ref()
    w.new_machine()
    n = 0
    for batch in px.chunked(programs(shard, tier), BATCH):
        items = []
        for p in batch:
            n += 1
            p["suf"] = "_%d" % n
            items.append((p["suf"], p["clauses"]))
        b = H.Batch(w)
        b.consult(items)
        goals = []
        for p in batch:
            for q in p["queries"]:
                goals.append("g(%s)" % fmt(S.rename_term(q, p["suf"])))
        rs = px.run_goals(w, goals)
        gi = 0
        for p in batch:
            refs = H.ref_run(base, p["clauses"], p["queries"])
            for qi, q in enumerate(p["queries"]):
                r = rs[gi]
                gi += 1
                ref_res = refs[qi]
                impl_res = H.impl_answers(r, R.term_vars(q))
                nontriv = bool(ref_res[2].get("backtracks") or ref_res[2].get("cuts_nonempty"))
                smp = None
                if len(acc.samples) < 3:
                    smp = {"program": program_text(p), "query": fmt(q), "ref": H.show_result(ref_res),
                           "observed": H.show_result(impl_res)}
                if p["suf"] in b.failed:
                    acc.case(nontriv, "consult-error", sample=smp)
                    acc.violation("%s consult-error: %s" % (p["fam"], b.failed[p["suf"]]), case_of(p, qi),
                                  expected="program loads", observed=b.failed[p["suf"]])
                    continue
                if ref_res[1] in ("budget", "sto"):
                    acc.case(False, "skipped:" + ref_res[1], sample=smp)
                    continue
                acc.case(nontriv, label(ref_res, p["feat"]), sample=smp)
                if not H.same_result(ref_res, impl_res):
                    acc.violation(sig_for(base, p, q, ref_res, impl_res), case_of(p, qi),
                                  expected=H.show_result(ref_res), observed=H.show_result(impl_res))
    return acc.result()


def recheck(w, case, tier):
    clauses = [S.dec(c) for c in case["clauses"]]
    q = S.dec(case["query"])
    p = {"fam": case["fam"], "clauses": clauses, "queries": [q], "feat": S.program_features(clauses)}
    base = H.base_ref()
    b = H.Batch(w)
    b.consult([("_rc", clauses)])
    if "_rc" in b.failed:
        return {"sig": "%s consult-error: %s" % (case["fam"], b.failed["_rc"]), "case": case,
                "expected": "program loads", "observed": b.failed["_rc"]}
    r = px.run_goals(w, ["g(%s)" % fmt(S.rename_term(q, "_rc"))])[0]
    ref_res = H.ref_run(base, clauses, [q])[0]
    impl_res = H.impl_answers(r, R.term_vars(q))
    if H.same_result(ref_res, impl_res):
        return None
    return {"sig": sig_for(base, p, q, ref_res, impl_res), "case": case,
            "expected": H.show_result(ref_res), "observed": H.show_result(impl_res)}
