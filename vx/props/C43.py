"""C43 — op/3 and current_op/3 maintain a consistent operator table (DESIGN §6 C43).

Explicit-state search over the real op/3: BFS from the default table over a
transition alphabet of priorities x specifiers x names (valid and invalid).
State = the implementation's own current_op/3 enumeration restricted to the
tracked names. Every transition's outcome (success / error term) and successor
state is compared with an ISO 8.14.3 model (set of acceptable errors when
several conditions hold). In every inspected state current_op/3 is queried in
all instantiation patterns and parse probes are read and compared with a small
operator-precedence parser.
"""
import os
import zlib

from vx.core import px, pool, terms
from vx.core.terms import V

ID = "C43"
LEVEL = "model_checking"
ENGINE = "PEX"
TECHNIQUE = "explicit-state BFS over the real op/3 transition function; ISO 8.14.3 reference model; states deduplicated by the implementation's current_op/3 enumeration"
VAR = V("_")
P_VALS = {1: 0, 2: 1, 3: 200, 4: 700, 5: 1200, 6: 1201, 7: -1, 8: "foo", 9: VAR, 10: 1000, 11: 1001, 12: 999}
T_VALS = {1: "xfx", 2: "xfy", 3: "yfx", 4: "fy", 5: "fx", 6: "xf", 7: "yf", 8: "bad", 9: VAR, 10: 7}
N_VALS = {1: "foo", 2: "bar", 3: "-", 4: ",", 5: "|", 6: "[]", 7: "{}", 8: 7, 9: VAR,
          10: ("list", ["foo", "bar"], "[]"), 11: ("list", ["foo"], VAR), 12: ("list", ["foo", ","], "[]"),
          13: ("list", ["bar", "foo"], "[]"), 14: ("list", ["foo", 7], "[]")}
TRACKED = ["foo", "bar", "-", ",", "|", "[]", "{}"]
# search phases: (priority indices, specifier indices, name indices), depth, shards
ALPHA = {
    "quick": ([1, 2, 3, 4, 5, 6, 7, 8, 9, 11], [1, 2, 3, 4, 5, 6, 7, 8, 9], [1, 2, 3, 4, 5, 6, 7, 8, 9, 10, 11]),
    "wide": ([1, 2, 3, 4, 5, 6, 7, 8, 9, 10, 11], [1, 2, 3, 4, 5, 6, 7, 8, 9, 10], [1, 2, 3, 4, 5, 6, 7, 8, 9, 10, 11, 12, 13, 14]),
    "deep": ([1, 3, 4, 5, 6], [1, 2, 3, 4, 5, 6, 7, 8], [1, 2, 3, 10]),
}
DEPTH = {"quick": 2, "wide": 2, "deep": 3}
NSHARDS = {"quick": 16, "wide": 24, "deep": 24}
PHASES = {"quick": ["quick"], "thorough": ["wide", "deep"]}
RULE = ("explicit-state search: transitions op(P,T,N) with P in {0,1,200,700,1200,1201,-1,foo,_,1001 (+1000 thorough)}, T in {xfx,xfy,yfx,fy,fx,"
        "xf,yf,bad,_ (+7 thorough)}, N in {foo,bar,-,',','|',[],{},7,_,[foo,bar],[foo|_] (+[foo,','],[bar,foo],[foo,7] thorough)}; BFS "
        "from the default table to depth 2; thorough adds a BFS to depth 3 over the sub-alphabet P in {0,200,700,1200,1201}, T in "
        "{xfx,xfy,yfx,fy,fx,xf,yf,bad}, N in {foo,bar,-,[foo,bar]}; every history is executed on the implementation from a restored "
        "default table; states are deduplicated by the implementation's own current_op/3 enumeration over the tracked names "
        "{foo,bar,-,',','|',[],{}} (level-1 states globally, deeper states per shard). Every transition is compared with the ISO "
        "model (outcome in the set of acceptable errors; successor state equal; untracked entries untouched). States up to depth-1 "
        "are inspected: current_op/3 in all 7 non-trivial instantiation patterns vs the full enumeration, and 22 parse probes vs a "
        "reference operator-precedence parser. Non-trivial transition: it changes the table or is rejected.")
LEVEL_TEXT = ("explicit-state model checking of the real operator table: complete BFS to the stated depth over the stated "
              "alphabet, invariant (agreement with the ISO model) evaluated on every transition and inspected state")
ASSUMPTIONS = ["driver transport; case texts never contain a tracked operator name (alphabets are referenced by index)",
               "ISO/IEC 13211-1 8.14.3 + Cor.2 rules as coded in this module (bar only infix >= 1001 or 0; [] and {} not creatable)",
               "the default entry of '|' is taken from the implementation (Cor.2 does not oblige a predefined bar operator)",
               "op(P,T,[]) may either succeed without effect (empty list) or raise permission_error(create,operator,[])",
               "every history starts by restoring the default table including a canonical set of priority-0 directory entries, so a "
               "verdict never depends on what ran earlier on the same machine; an inspection verdict is issued only if it is reproduced "
               "on a freshly built machine",
               "parse probes: a text with exactly one strict ISO parse must read as that term; a text with no strict parse may "
               "raise a syntax error or yield any lenient parse (operator atoms as operands); ambiguous texts are not judged"]
MIN_OUTCOMES = 4


def bound_text(tier):
    out = []
    for ph in PHASES[tier]:
        a = ALPHA[ph]
        out.append("BFS depth %d over %d x %d x %d = %d transitions per state, states up to depth %d inspected" % (
            DEPTH[ph], len(a[0]), len(a[1]), len(a[2]), len(a[0]) * len(a[1]) * len(a[2]), DEPTH[ph] - 1))
    return "; ".join(out)


def shards(tier):
    return [(ph, k, NSHARDS[ph]) for ph in PHASES[tier] for k in range(NSHARDS[ph])]


def helper_text():
    with open(os.path.join(pool.ROOT, "vx", "prolog", "c43_helper.pl")) as f:
        return f.read()


def setup(w, tier):
    w.consult(helper_text(), persist=True)


# --------------------------------------------------------------------------
# model
PRE, INF, POST = "pre", "in", "post"
SPEC_CLASS = {"fy": PRE, "fx": PRE, "xfx": INF, "xfy": INF, "yfx": INF, "xf": POST, "yf": POST}


def table_of(entries):
    """list of (P,T,N) -> dict name -> {class: (P,T)}; None if an entry is duplicated"""
    t = {}
    for (p, ty, n) in entries:
        c = SPEC_CLASS.get(ty)
        if c is None or c in t.setdefault(n, {}):
            return None
        t[n][c] = (p, ty)
    return t


def entries_of(table):
    out = []
    for n, d in table.items():
        for c, (p, ty) in d.items():
            out.append((p, ty, n))
    return sorted(out, key=repr)


def is_atom(x):
    return isinstance(x, str)


def model(table, p, t, n):
    """-> (set of acceptable outcomes, successor table). Outcomes are 'true'
    or error formals as tuples."""
    errs = set()
    names = []
    if p is VAR or t is VAR or n is VAR:
        errs.add("instantiation_error")
    if isinstance(n, tuple) and n[0] == "list":
        if n[2] is VAR or any(e is VAR for e in n[1]):
            errs.add("instantiation_error")
        elif n[2] != "[]":
            errs.add(("type_error", "list", "?"))
        for e in n[1]:
            if e is VAR:
                continue
            if is_atom(e):
                names.append(e)
            else:
                errs.add(("type_error", "atom", e))
    elif is_atom(n):
        names.append(n)
    elif n is not VAR:
        errs.add(("type_error", "list", n))
    if p is not VAR and not isinstance(p, int):
        errs.add(("type_error", "integer", p))
    if t is not VAR and not is_atom(t):
        errs.add(("type_error", "atom", t))
    p_ok = isinstance(p, int) and 0 <= p <= 1200
    if isinstance(p, int) and not p_ok:
        errs.add(("domain_error", "operator_priority", p))
    t_ok = is_atom(t) and t in SPEC_CLASS
    if is_atom(t) and not t_ok:
        errs.add(("domain_error", "operator_specifier", t))
    empty_list_ok = False
    for nm in names:
        if nm == ",":
            errs.add(("permission_error", "modify", "operator", ","))
        elif nm == "[]" or nm == "{}":
            errs.add(("permission_error", "create", "operator", nm))
            if nm == "[]" and n == "[]":
                empty_list_ok = True
        elif nm == "|":
            if p_ok and t_ok and not (SPEC_CLASS[t] == INF and (p >= 1001 or p == 0)):
                errs.add(("permission_error", "create", "operator", "|"))
            elif not (p_ok and t_ok):
                # scryer (and Cor.2 readers) may report the bar restriction first
                errs.add(("permission_error", "create", "operator", "|"))
    if p_ok and t_ok and p > 0:
        c = SPEC_CLASS[t]
        work = {k: dict(v) for k, v in table.items()}
        for nm in names:
            d = work.setdefault(nm, {})
            if (c == INF and POST in d) or (c == POST and INF in d):
                errs.add(("permission_error", "create", "operator", nm))
            d[c] = (p, t)
    if errs:
        if empty_list_ok and errs == {("permission_error", "create", "operator", "[]")}:
            return errs | {"true"}, table
        return errs, table
    new = {k: dict(v) for k, v in table.items()}
    c = SPEC_CLASS[t]
    for nm in names:
        if p == 0:
            new.get(nm, {}).pop(c, None)
        else:
            new.setdefault(nm, {})[c] = (p, t)
    return {"true"}, {k: v for k, v in new.items() if v}


def norm_table(t):
    return {k: v for k, v in (t or {}).items() if v}


def outcome_of(term):
    """step outcome term -> comparable"""
    if term == "true" or term == "false":
        return term
    if isinstance(term, tuple) and term[0] == "error":
        f = term[1]
        if isinstance(f, tuple):
            if f[0] == "type_error" and f[1] == "list":
                return ("type_error", "list", "?")
            return tuple(f)
        return f
    return ("ball", terms.show(term))


def norm_outcomes(s):
    out = set()
    for o in s:
        if isinstance(o, tuple) and o[0] == "type_error" and o[1] == "list":
            out.add(("type_error", "list", "?"))
        else:
            out.add(o)
    return out


def show_outcome(o):
    if isinstance(o, tuple):
        return "%s(%s)" % (o[0], ",".join(str(x) for x in o[1:]))
    return str(o)


# --------------------------------------------------------------------------
# execution
def ttext(tr):
    return "t(%d,%d,%d)" % tr


def show_tr(tr):
    def sh(x):
        if x is VAR:
            return "_"
        if isinstance(x, tuple) and x[0] == "list":
            s = "[" + ",".join(sh(e) for e in x[1])
            return s + ("]" if x[2] == "[]" else "|_]")
        return terms.show(x)
    return "op(%s,%s,%s)" % (sh(P_VALS[tr[0]]), sh(T_VALS[tr[1]]), sh(N_VALS[tr[2]]))


def parse_state(term):
    """list of op(P,T,N) terms -> list of (P,T,N)"""
    el, _ = terms.unlist(term)
    return [(e[1], e[2], e[3]) for e in el]


class Ctx:
    def __init__(self, w):
        self.w = w
        r = px.run_goals(w, ["g(c43_state(S,O))"])[0]
        if r.status != "done" or len(r.sols) != 1:
            raise pool.MachineryError("cannot read the initial operator table: %r" % (r,))
        self.s0 = parse_state(r.sols[0]["S"])
        self.other0 = r.sols[0]["O"]
        bar = [(p, t) for (p, t, n) in self.s0 if n == "|"]
        self.bar_default = "op(%d,%s)" % bar[0] if bar else "none"

    def run_hists(self, hists):
        """-> list of (steps [(outcome, state entries, other)], restored_ok) or abn string"""
        goals = ["g(c43_hist([%s],%s,S,F))" % (",".join(ttext(t) for t in h), self.bar_default) for h in hists]
        out = []
        need_reset = False
        for h, r in zip(hists, px.run_goals(self.w, goals, chunk=200)):
            if r.abn or r.status != "done" or len(r.sols) != 1:
                out.append(r.abn or ("driver: " + (terms.show(r.exc) if r.status == "exc" else str(r.status))))
                need_reset = True
                continue
            steps = []
            for st in terms.unlist(r.sols[0]["S"])[0]:
                steps.append((outcome_of(st[1]), parse_state(st[2]), st[3]))
            fin = r.sols[0]["F"]
            ok = sorted(parse_state(fin[1]), key=repr) == sorted(self.s0, key=repr) and fin[2] == self.other0
            if not ok:
                need_reset = True
            out.append((steps, ok))
        if need_reset:
            # a history that could not be undone poisons the histories that followed it in
            # the batch: rebuild the machine and re-run the batch one history at a time
            self.w.new_machine()
            return self.run_hists_single(hists)
        return out

    def run_hists_single(self, hists):
        out = []
        for h in hists:
            g = "g(c43_hist([%s],%s,S,F))" % (",".join(ttext(t) for t in h), self.bar_default)
            r = px.run_goals(self.w, [g])[0]
            if r.abn or r.status != "done" or len(r.sols) != 1:
                out.append(r.abn or ("driver: " + (terms.show(r.exc) if r.status == "exc" else str(r.status))))
                self.w.new_machine()
                continue
            steps = [(outcome_of(st[1]), parse_state(st[2]), st[3]) for st in terms.unlist(r.sols[0]["S"])[0]]
            fin = r.sols[0]["F"]
            ok = sorted(parse_state(fin[1]), key=repr) == sorted(self.s0, key=repr) and fin[2] == self.other0
            if not ok:
                self.w.new_machine()
            out.append((steps, ok))
        return out


def state_key(entries):
    return tuple(sorted(entries, key=repr))


def owner(key, n):
    return zlib.crc32(repr(key).encode()) % n


def tr_class(tr):
    p, t, n = P_VALS[tr[0]], T_VALS[tr[1]], N_VALS[tr[2]]
    pc = "var" if p is VAR else ("nonint" if not isinstance(p, int) else ("0" if p == 0 else ("ok" if 0 < p <= 1200 else "range")))
    tc = "var" if t is VAR else ("nonatom" if not is_atom(t) else (SPEC_CLASS.get(t, "bad")))
    if n is VAR:
        nc = "var"
    elif isinstance(n, tuple):
        nc = "list" if n[2] == "[]" and all(is_atom(e) for e in n[1]) else "badlist"
        if "," in n[1]:
            nc += "+comma"
    elif is_atom(n):
        nc = {"foo": "user", "bar": "user", "-": "minus", ",": "comma", "|": "bar", "[]": "nil", "{}": "curly"}[n]
    else:
        nc = "nonatom"
    return "P=%s T=%s N=%s" % (pc, tc, nc)


def check_step(pre_entries, tr, outcome, post_entries, other, other0):
    """-> (label, violation kind or None, expected text)"""
    pre = table_of(pre_entries)
    p, t, n = P_VALS[tr[0]], T_VALS[tr[1]], N_VALS[tr[2]]
    if pre is None:
        return ("bad_prestate", None, "")
    want, succ = model(norm_table(pre), p, t, n)
    want = norm_outcomes(want)
    exp = "%s -> table %s" % ("|".join(sorted(show_outcome(o) for o in want)), entries_of(succ))
    post = table_of(post_entries)
    if post is None:
        return ("dup_entry", "duplicate_entry_in_enumeration " + tr_class(tr), exp)
    if outcome not in want:
        kind = "wrong_outcome got=%s want=%s" % (outcome if not isinstance(outcome, tuple) else outcome[0],
                                                 "|".join(sorted(set(o if isinstance(o, str) else o[0] for o in want))))
        return ("wrong_outcome", kind + " " + tr_class(tr), exp)
    if norm_table(post) != norm_table(succ):
        how = "changed_on_reject" if outcome != "true" else "wrong_successor"
        return ("wrong_state", "%s %s" % (how, tr_class(tr)), exp)
    if other != other0:
        return ("collateral", "untracked_entries_changed " + tr_class(tr), exp)
    if outcome == "true":
        return ("accepted:" + ("changed" if norm_table(post) != norm_table(pre) else "unchanged"), None, exp)
    return ("rejected:" + (outcome if isinstance(outcome, str) else outcome[0]), None, exp)


# --------------------------------------------------------------------------
# inspection of a state: current_op patterns and parse probes
PROBES = [
    ["foo", "a"], ["a", "foo", "b"], ["a", "foo"], ["foo", "foo", "a"], ["a", "foo", "b", "foo", "c"], ["a", "foo", "foo"],
    ["-", "-", "a"], ["a", "-", "-", "b"], ["a", "-", "b", "-", "c"], ["-", "a", "-", "b"], ["-", "a"],
    ["foo(", "a", ")"], ["[", "foo", "]"], ["f(", "foo", ",", "a", ")"], ["a", "bar", "b", "foo", "c"], ["foo", "a", "bar", "b"],
    ["-", "a", "foo"], ["a", "bar"], ["bar", "a"], ["a", ",", "b"], ["foo", "a", ",", "b"], ["a", "-", "b", "foo", "c"],
]


def probe_text(toks):
    s = ""
    for i, t in enumerate(toks):
        if i > 0 and not toks[i - 1].endswith("(") and t not in (")", ",", "]") and toks[i - 1] != "[":
            s += " "
        s += t
    return s + " ."


def parses(toks, table, lenient):
    """all parses of the token list under the table -> set of terms"""
    n = len(toks)
    pre = {k: v[PRE] for k, v in table.items() if PRE in v}
    inf = {k: v[INF] for k, v in table.items() if INF in v}
    post = {k: v[POST] for k, v in table.items() if POST in v}

    def is_name(t):
        return t not in ("(", ")", "[", "]", ",", "|") and not t.endswith("(")

    def is_op(t):
        return t in pre or t in inf or t in post

    def primary(i, maxp):
        if i >= n:
            return
        t = toks[i]
        if t.endswith("(") and len(t) > 1:
            name = t[:-1]
            for (args, j) in arglist(i + 1):
                if j < n and toks[j] == ")":
                    yield (tuple([name] + args), 0, j + 1)
            return
        if t == "(":
            for (x, p, j) in full(i + 1, 1200):
                if j < n and toks[j] == ")":
                    yield (x, 0, j + 1)
            return
        if t == "[":
            for (args, j) in arglist(i + 1):
                if j < n and toks[j] == "]":
                    yield (terms.mklist(args), 0, j + 1)
            return
        if not is_name(t):
            return
        if t in pre:
            p, ty = pre[t]
            amax = p if ty == "fy" else p - 1
            if p <= maxp:
                for (a, ap, j) in full(i + 1, amax):
                    yield ((t, a), p, j)
        if not is_op(t):
            yield (t, 0, i + 1)
        elif lenient:
            yield (t, 0, i + 1)

    def arglist(i):
        for (a, p, j) in full(i, 999):
            if j < n and toks[j] == ",":
                for (rest, k) in arglist(j + 1):
                    yield ([a] + rest, k)
            else:
                yield ([a], j)

    def full(i, maxp):
        for (l, lp, j) in primary(i, maxp):
            for x in extend(l, lp, j, maxp):
                yield x

    def extend(l, lp, j, maxp):
        yield (l, lp, j)
        if j >= n:
            return
        t = toks[j]
        if t == "," and maxp >= 1000 and lp <= 999:
            for (r, rp, k) in full(j + 1, 1000):
                for x in extend((",", l, r), 1000, k, maxp):
                    yield x
        if not is_name(t):
            return
        if t in inf:
            p, ty = inf[t]
            lmax = p if ty == "yfx" else p - 1
            rmax = p if ty == "xfy" else p - 1
            if p <= maxp and lp <= lmax:
                for (r, rp, k) in full(j + 1, rmax):
                    for x in extend((t, l, r), p, k, maxp):
                        yield x
        if t in post:
            p, ty = post[t]
            lmax = p if ty == "yf" else p - 1
            if p <= maxp and lp <= lmax:
                for x in extend((t, l), p, j + 1, maxp):
                    yield x

    return set(x for (x, p, j) in full(0, 1200) if j == n)


def probe_expect(toks, table):
    """-> ('term', t) | ('error_or', set of lenient terms) | None (not judged)"""
    strict = parses(toks, table, False)
    if len(strict) == 1:
        # an operator atom used as an argument/element with priority > 999 is not judged
        for t in toks:
            if t in table and any(p > 999 for (p, _) in table[t].values()) and toks != [t]:
                idx = toks.index(t)
                if idx > 0 and (toks[idx - 1].endswith("(") or toks[idx - 1] in ("[", ",")):
                    return None
        return ("term", next(iter(strict)))
    if len(strict) > 1:
        return None
    return ("error_or", parses(toks, table, True))


JUDGED = [0, 0, 0]   # probes not judged / unique strict parse / no strict parse


def check_inspection(entries, all_entries, queries, probes_obs):
    """-> list of (violation kind, expected, observed)"""
    out = []
    table = norm_table(table_of(entries) or {})
    tracked_all = [e for e in all_entries if e[2] in TRACKED]
    if sorted(tracked_all, key=repr) != sorted(entries, key=repr):
        out.append(("enumeration_unstable", str(sorted(entries, key=repr)), str(sorted(tracked_all, key=repr))))
    for (i, j, k, sols) in queries:
        pb = P_VALS[i] if i else None
        tb = T_VALS[j] if j else None
        nb = N_VALS[k] if k else None
        pat = ("P" if i else "-") + ("T" if j else "-") + ("N" if k else "-")
        want = sorted([e for e in all_entries if (pb is None or e[0] == pb) and (tb is None or e[1] == tb)
                       and (nb is None or e[2] == nb)], key=repr)
        if isinstance(sols, tuple) and sols and sols[0] == "error":
            out.append(("current_op pattern=%s error:%s" % (pat, px.formal_sig(sols[1])), str(want), terms.show(sols)))
            continue
        got = sorted(parse_state(sols), key=repr)
        if got != want:
            missing = [e for e in want if e not in got]
            extra = [e for e in got if e not in want]
            kind = "missing" if missing and not extra else ("extra" if extra and not missing else "wrong")
            if not missing and not extra:
                kind = "multiplicity"
            out.append(("current_op pattern=%s %s" % (pat, kind), "%s" % (want[:6],), "%s" % (got[:6],)))
    for toks, obs in zip(PROBES, probes_obs):
        exp = probe_expect(toks, table)
        JUDGED[0 if exp is None else (1 if exp[0] == "term" else 2)] += 1
        if exp is None:
            continue
        text = probe_text(toks)
        if isinstance(obs, tuple) and obs[0] == "ok":
            got = obs[1]
            if exp[0] == "term":
                if got != exp[1]:
                    out.append(("probe wrong_parse %s" % probe_class(toks, table), "%s reads as %s" % (text, terms.show(exp[1])),
                                terms.show(got)))
            elif got not in exp[1]:
                out.append(("probe accepted_unparsable %s" % probe_class(toks, table),
                            "%s: syntax error (no parse under this table)" % text, terms.show(got)))
        elif isinstance(obs, tuple) and obs[0] == "error" and isinstance(obs[1], tuple) and obs[1][0] == "syntax_error":
            if exp[0] == "term":
                out.append(("probe rejected_valid %s" % probe_class(toks, table), "%s reads as %s" % (text, terms.show(exp[1])),
                            terms.show(obs)))
        else:
            out.append(("probe bad_result %s" % probe_class(toks, table), "term or syntax_error", terms.show(obs)))
    return out


def probe_class(toks, table):
    def cl(t):
        if t in table:
            return t + "[" + "".join(sorted(c[0] + table[t][c][1] for c in table[t])) + "]" if t in ("foo", "bar", "-") else t
        return t
    return " ".join(cl(t) for t in toks)


def inspect_goal(ctx, hist, pidx):
    return "g(c43_inspect([%s],%s,[%s],[%s],I,F))" % (
        ",".join(ttext(t) for t in hist), ctx.bar_default, ",".join(str(i) for i in pidx),
        ",".join("[" + ",".join(str(ord(c)) for c in probe_text(p)) + "]" for p in PROBES))


def pidx_for(entries):
    """indices of P_VALS values that occur as priorities in the state, plus 200, 700 and an absent one (999)"""
    want = set(e[0] for e in entries) | {200, 700, 1000, 999}
    return sorted(i for i, v in P_VALS.items() if isinstance(v, int) and v in want)


def run_inspect(ctx, hist, entries):
    r = px.run_goals(ctx.w, [inspect_goal(ctx, hist, pidx_for(entries))])[0]
    if r.abn or r.status != "done" or len(r.sols) != 1:
        ctx.w.new_machine()
        return None, r.abn or ("driver: " + (terms.show(r.exc) if r.status == "exc" else str(r.status)))
    insp = r.sols[0]["I"]
    fin = r.sols[0]["F"]
    if not (sorted(parse_state(fin[1]), key=repr) == sorted(ctx.s0, key=repr) and fin[2] == ctx.other0):
        ctx.w.new_machine()
    steps = terms.unlist(insp[1])[0]
    reached = parse_state(steps[-1][2]) if steps else ctx.s0
    all_entries = parse_state(insp[2])
    queries = [(q[1], q[2], q[3], q[4]) for q in terms.unlist(insp[3])[0]]
    probes_obs = terms.unlist(insp[4])[0]
    return (reached, all_entries, queries, probes_obs), None


# --------------------------------------------------------------------------
def transitions(phase):
    a = ALPHA[phase]
    return [(i, j, k) for i in a[0] for j in a[1] for k in a[2]]


def run_shard(w, shard, tier):
    phase, k, nsh = shard
    acc = px.ShardAcc()
    ctx = Ctx(w)
    trs = transitions(phase)
    depth = DEPTH[phase]
    s0key = state_key(ctx.s0)
    default_model = {"-": {PRE: (200, "fy"), INF: (500, "yfx")}, ",": {INF: (1000, "xfy")}}
    bar = [(p, t) for (p, t, n) in ctx.s0 if n == "|"]
    if bar:
        default_model["|"] = {INF: bar[0]}
    if k == 0:
        acc.case(False, "initial_state")
        if norm_table(table_of(ctx.s0)) != default_model:
            acc.violation("default_table_wrong", {"hist": [], "tr": None, "kind": "default"},
                          expected=str(entries_of(default_model)), observed=str(sorted(ctx.s0, key=repr)))

    seen = {s0key}
    expanded = 0
    inspected = 0

    def do_inspect(hist, entries):
        nonlocal inspected
        data, abn = run_inspect(ctx, hist, entries)
        inspected += 1
        case = {"hist": [list(t) for t in hist], "kind": "inspect"}
        if abn:
            acc.case(True, "inspect:abnormal")
            acc.violation("inspect abn:%s" % abn, case, expected="inspection results", observed=abn)
            return
        reached, all_entries, queries, probes_obs = data
        probs = check_inspection(reached, all_entries, queries, probes_obs)
        if probs:
            # a verdict is only issued if it is reproduced on a freshly built machine
            # (the runner replays it in a fresh worker): rebuild, replay, inspect again
            ctx.w.new_machine()
            data2, abn2 = run_inspect(ctx, hist, entries)
            kinds2 = set(k for (k, _, _) in check_inspection(*data2)) if data2 else set()
            dropped = [p for p in probs if p[0] not in kinds2]
            if dropped:
                acc.extra["inspection_verdicts_not_reproduced_on_fresh_machine"] += len(dropped)
            probs = [p for p in probs if p[0] in kinds2]
        acc.case(True, "inspect:%s" % ("ok" if not probs else "violations"),
                 sample=None if len(acc.samples) >= 3 else {"history": [show_tr(t) for t in hist], "state": str(sorted(reached, key=repr)),
                                                            "queries": len(queries), "probes": len(probes_obs)})
        acc.extra["current_op_queries"] += len(queries)
        acc.extra["parse_probes"] += len(probes_obs)
        seen_kinds = set()
        for (kind, exp, obs) in probs:
            if kind in seen_kinds:
                continue
            seen_kinds.add(kind)
            acc.violation(kind, dict(case, vkind=kind), expected=exp, observed=obs)

    # level 1: every shard runs all first transitions (to discover the level-1 states),
    # only shard 0 reports them; a level-1 state is owned by exactly one shard
    frontier = []     # (history, entries)
    res1 = ctx.run_hists([[t] for t in trs])
    if k == 0:
        do_inspect([], ctx.s0)
        expanded += 1
    for t, r in zip(trs, res1):
        if isinstance(r, str):
            if k == 0:
                acc.case(True, "abnormal")
                acc.violation("transition abn:%s %s" % (r, tr_class(t)), {"hist": [list(t)], "kind": "step"},
                              expected="outcome of " + show_tr(t), observed=r)
            continue
        steps, restored = r
        outcome, post, other = steps[0]
        if k == 0:
            record_step(acc, ctx, [t], ctx.s0, outcome, post, other, restored)
            acc.transitions += 1
        key = state_key(post)
        if key not in seen:
            seen.add(key)
            if owner(key, nsh) == k:
                frontier.append(([t], post))
    # deeper levels: within this shard
    level = 1
    while frontier and level < depth:
        nxt = []
        for hist, entries in frontier:
            expanded += 1
            do_inspect(hist, entries)
            hs = [hist + [t] for t in trs]
            for h, r in zip(hs, ctx.run_hists(hs)):
                if isinstance(r, str):
                    acc.case(True, "abnormal")
                    acc.violation("transition abn:%s %s" % (r, tr_class(h[-1])), {"hist": [list(t) for t in h], "kind": "step"},
                                  expected="outcome of " + show_tr(h[-1]), observed=r)
                    continue
                steps, restored = r
                if len(steps) != len(h):
                    raise pool.MachineryError("history length mismatch")
                pre = steps[-2][1]
                outcome, post, other = steps[-1]
                record_step(acc, ctx, h, pre, outcome, post, other, restored)
                acc.transitions += 1
                key = state_key(post)
                if key not in seen:
                    seen.add(key)
                    nxt.append((h, post))
        frontier = nxt
        level += 1
    acc.states = expanded + len(frontier)     # expanded states + frontier states discovered at the last level
    acc.extra["states_inspected"] += inspected
    acc.extra["probes_not_judged"] += JUDGED[0]
    acc.extra["probes_with_unique_parse"] += JUDGED[1]
    acc.extra["probes_without_parse"] += JUDGED[2]
    JUDGED[:] = [0, 0, 0]
    return acc.result()


def record_step(acc, ctx, hist, pre, outcome, post, other, restored):
    tr = hist[-1]
    label, vk, exp = check_step(pre, tr, outcome, post, other, ctx.other0)
    nt = not label.startswith("accepted:unchanged")
    acc.case(nt, label, sample=None if len(acc.samples) >= 3 else
             {"history": [show_tr(t) for t in hist], "outcome": show_outcome(outcome), "state": str(sorted(post, key=repr))})
    if vk:
        acc.violation("step " + vk, {"hist": [list(t) for t in hist], "kind": "step"}, expected=exp,
                      observed="%s -> table %s" % (show_outcome(outcome), sorted(post, key=repr)))
    if not restored:
        acc.extra["histories_not_restorable"] += 1


def recheck(w, case, tier):
    ctx = Ctx(w)
    hist = [tuple(t) for t in case["hist"]]
    if case["kind"] == "default":
        return None
    if case["kind"] == "inspect":
        entries = ctx.s0
        if hist:
            r = ctx.run_hists([hist])[0]
            if isinstance(r, str):
                return {"sig": "inspect abn:%s" % r, "case": case, "expected": "", "observed": r}
            entries = r[0][-1][1]
        data, abn = run_inspect(ctx, hist, entries)
        if abn:
            return {"sig": "inspect abn:%s" % abn, "case": case, "expected": "inspection results", "observed": abn}
        probs = check_inspection(*data)
        for (kind, exp, obs) in probs:
            if kind == case.get("vkind"):
                return {"sig": kind, "case": case, "expected": exp, "observed": obs}
        if probs and not case.get("vkind"):
            kind, exp, obs = probs[0]
            return {"sig": kind, "case": case, "expected": exp, "observed": obs}
        return None
    r = ctx.run_hists([hist])[0]
    if isinstance(r, str):
        return {"sig": "transition abn:%s %s" % (r, tr_class(hist[-1])), "case": case, "expected": "", "observed": r}
    steps, restored = r
    pre = steps[-2][1] if len(steps) > 1 else ctx.s0
    outcome, post, other = steps[-1]
    label, vk, exp = check_step(pre, hist[-1], outcome, post, other, ctx.other0)
    if vk:
        return {"sig": "step " + vk, "case": case, "expected": exp,
                "observed": "%s -> table %s" % (show_outcome(outcome), sorted(post, key=repr))}
    return None
