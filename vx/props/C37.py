"""C37 — hashes and encodings are byte-exact (DESIGN §6 C37).

crypto_data_hash/3 (all 11 algorithms, utf8 and octet encodings, HMAC for the
three supported algorithms, HMAC verification mode), hex_bytes/2,
chars_base64/3 (all option combinations, both directions),
chars_utf8bytes/2 (both directions) and crypto_data_encrypt/6 ->
crypto_data_decrypt/6, against hashlib / hmac / base64 / codecs and an
RFC 8439 implementation of ChaCha20-Poly1305 (vx/model/c37_ref.py).
"""
import base64
import hashlib
import hmac as pyhmac
import itertools

from vx.core import px
from vx.core.terms import unlist, list_to_str, NIL
from vx.model import c37_ref as R

ID = "C37"
LEVEL = "exploration"
ENGINE = "PEX"
TECHNIQUE = "bounded exhaustive input sweep against hashlib/hmac/base64/codecs and an RFC 8439 reference"
LEVEL_TEXT = "exhaustive enumeration of short byte/char strings and block-boundary lengths x every algorithm and option"
RULE = ("hash: every byte string of length <= 1, every 2-byte string over 16 boundary bytes (octet chars and byte lists), "
        "all strings of length <= 2 over 9 chars (utf8), block-boundary lengths {55,56,63,64,65,111,112,119,120,127,128,129,1000} "
        "x 11 algorithms; HMAC: 3 algorithms x key lengths {0,1,63,64,65,127,128,129,200} x data, plus verification mode; "
        "hex_bytes: all 256 bytes, all pairs over 16 bytes, all hex strings of length <= 3 over 8 chars; base64: all strings of "
        "length <= 3 over 6 bytes x 4 option sets (thorough: length <= 4) and all base64 texts of length <= 4 over 8 chars; "
        "utf8: all strings of <= 2 over 13 chars, all byte strings of length <= 3 over 14 bytes; AEAD: lengths x encodings x aad x 2 keys. "
        "Non-trivial: length at a block boundary, non-ASCII data, a key longer than the block, or an input that must be rejected.")
ASSUMPTIONS = ["hashlib (OpenSSL) / hmac / base64 / codecs are correct", "vx/model/c37_ref.py passes the RFC 8439 §2.8.2 vector",
               "hex digits may be all lower-case or all upper-case", "decoding of invalid UTF-8 and of base64 with non-zero trailing bits is not specified "
               "(characters outside the alphabet, impossible lengths and padding that contradicts the padding option must be rejected)"]
MIN_OUTCOMES = 6

ALGOS = ["ripemd160", "sha256", "sha384", "sha512", "sha512_256", "sha3_224", "sha3_256", "sha3_384", "sha3_512",
         "blake2s256", "blake2b512"]
PYNAME = {"blake2s256": "blake2s", "blake2b512": "blake2b"}
HMAC_ALGOS = ["sha256", "sha384", "sha512"]
B16 = [0x00, 0x01, 0x09, 0x0A, 0x0D, 0x20, 0x22, 0x27, 0x5C, 0x7F, 0x80, 0xBF, 0xC0, 0xC3, 0xE9, 0xFF]
UCHARS = ["a", "\x00", "\x7f", "\x80", "\u00e9", "\u00ff", "\u20ac", "\U0001f600", "\U0010ffff"]
LENS = [55, 56, 63, 64, 65, 111, 112, 119, 120, 127, 128, 129, 1000]
KEYLENS = [0, 1, 63, 64, 65, 127, 128, 129, 200]

HELPER = r"""
c37_hashes([], _, _, []).
c37_hashes([A|As], Data, Enc, [R|Rs]) :-
    vx_first(At, (crypto_data_hash(Data, H, [algorithm(A),encoding(Enc)]), atom_chars(At, H)), R),
    c37_hashes(As, Data, Enc, Rs).

c37_hmacs([], _, _, _, []).
c37_hmacs([A|As], Data, Enc, Key, [R|Rs]) :-
    vx_first(At, (crypto_data_hash(Data, H, [algorithm(A),encoding(Enc),hmac(Key)]), atom_chars(At, H)), R),
    c37_hmacs(As, Data, Enc, Key, Rs).

c37_codes(Cs, Ns) :- c37_codes_(Cs, Ns).
c37_codes_([], []).
c37_codes_([C|Cs], [N|Ns]) :- char_code(C, N), c37_codes_(Cs, Ns).
"""


def setup(w, tier):
    w.consult(":- use_module(library(crypto)).\n:- use_module(library(charsio)).\n:- use_module(library(lists)).\n", persist=True)
    w.consult(HELPER, persist=True)


def qchars(s):
    """a double-quoted literal in which everything but printable ASCII is a \\xHH\\ escape"""
    out = ['"']
    for c in s:
        o = ord(c)
        if c in '"\\':
            out.append("\\" + c)
        elif 0x20 <= o < 0x7f:
            out.append(c)
        else:
            out.append("\\x%x\\" % o)
    out.append('"')
    return "".join(out)


def octets(b):
    return "".join(chr(x) for x in b)


def ints_text(b):
    return "[" + ",".join(str(x) for x in b) + "]"


def pattern(n, k=7):
    return bytes((i * k + 3) % 256 for i in range(n))


def upattern(n):
    return "".join("é" if i % 5 == 4 else ("€" if i % 17 == 16 else chr(0x61 + i % 26)) for i in range(n))


def digest(algo, data):
    return hashlib.new(PYNAME.get(algo, algo), data).hexdigest()


def hexeq(obs, want):
    return obs == want or obs == want.upper()


# --------------------------------------------------------------------------

def shards(tier):
    sh = [("hash1", i) for i in range(8)] + [("hash2", i) for i in range(8)] + [("hashu",), ("hashlen", 0), ("hashlen", 1)]
    sh += [("hmac", a) for a in HMAC_ALGOS] + [("hmacv",)]
    sh += [("hex",), ("hexinv",)]
    sh += [("b64enc", i) for i in range(4)] + [("b64dec", i) for i in range(4)]
    sh += [("utf8enc",)] + [("utf8dec", i) for i in range(4)]
    sh += [("aead", i) for i in range(2)] + [("aeadbad",)]
    return sh


def bound_text(tier):
    return ("hash inputs: all <=1-byte strings, 2-byte over 16 bytes, <=2-char over 9 chars, 13 boundary lengths x 11 algorithms x "
            "{octet chars, byte lists, utf8}; HMAC 3 algorithms x 9 key lengths; hex/base64 (length <= %d)/utf8 both directions; "
            "ChaCha20-Poly1305 lengths {0,1,15,16,17,63,64,65,1000}" % (4 if tier == "thorough" else 3))


def first(r):
    """vx_first result -> (kind, payload)"""
    if r == "false":
        return ("false", None)
    if isinstance(r, tuple) and len(r) == 2 and r[0] in ("sol", "error", "ball"):
        return (r[0], r[1])
    return ("?", r)


def bad_record(r):
    return r.abn or (None if (r.status in ("done", "cap") and len(r.sols) == 1) else
                     ("exc:" + px.formal_sig(r.formal()) if r.status == "exc" else "no_solution"))


class Ctx:
    def __init__(self, acc):
        self.acc = acc
        self.viols = []

    def case(self, nt, label, sample=None):
        if self.acc is not None:
            self.acc.case(nt, label, sample=sample)

    def viol(self, sig, case, exp, obs):
        v = {"sig": sig, "case": case, "expected": exp, "observed": obs}
        self.viols.append(v)
        if self.acc is not None:
            self.acc.violation(sig, case, exp, obs)


# ---- hashing ---------------------------------------------------------------

def hash_inputs(shard):
    """-> [(case dict, data text, encoding, data bytes, nontrivial)]"""
    kind = shard[0]
    out = []
    if kind == "hash1":
        vals = [b""] if shard[1] == 0 else []
        vals += [bytes([x]) for x in range(256) if x % 8 == shard[1]]
        for b in vals:
            out.append(({"fam": "hash", "enc": "octet", "form": "chars", "hex": b.hex()}, qchars(octets(b)), "octet", b, any(x >= 0x80 for x in b)))
            out.append(({"fam": "hash", "enc": "octet", "form": "ints", "hex": b.hex()}, ints_text(b), "octet", b, any(x >= 0x80 for x in b)))
    elif kind == "hash2":
        for i, (x, y) in enumerate(itertools.product(B16, B16)):
            if i % 8 != shard[1]:
                continue
            b = bytes([x, y])
            out.append(({"fam": "hash", "enc": "octet", "form": "chars", "hex": b.hex()}, qchars(octets(b)), "octet", b, True))
            out.append(({"fam": "hash", "enc": "octet", "form": "ints", "hex": b.hex()}, ints_text(b), "octet", b, True))
    elif kind == "hashu":
        for n in range(0, 3):
            for cs in itertools.product(UCHARS, repeat=n):
                s = "".join(cs)
                out.append(({"fam": "hash", "enc": "utf8", "form": "chars", "codes": [ord(c) for c in s]}, qchars(s), "utf8",
                            s.encode("utf-8"), any(ord(c) >= 0x80 for c in s)))
    elif kind == "hashlen":
        for n in LENS:
            if shard[1] == 0:
                b = pattern(n)
                out.append(({"fam": "hash", "enc": "octet", "form": "chars", "pattern": n}, qchars(octets(b)), "octet", b, True))
            else:
                s = upattern(n)
                out.append(({"fam": "hash", "enc": "utf8", "form": "chars", "upattern": n}, qchars(s), "utf8", s.encode("utf-8"), True))
    return out


def hash_input_of_case(c):
    if "pattern" in c:
        b = pattern(c["pattern"])
        return qchars(octets(b)), b
    if "upattern" in c:
        s = upattern(c["upattern"])
        return qchars(s), s.encode("utf-8")
    if "codes" in c:
        s = "".join(chr(x) for x in c["codes"])
        return qchars(s), s.encode("utf-8")
    b = bytes.fromhex(c["hex"])
    return (qchars(octets(b)) if c["form"] == "chars" else ints_text(b)), b


def run_hash(w, inputs, cx, only=None):
    for batch in px.chunked(inputs, 60):
        texts = ["g((D = %s, c37_hashes([%s],D,%s,Rs)), 1)" % (t, ",".join(ALGOS), enc) for _, t, enc, _, _ in batch]
        rs = px.run_goals(w, texts)
        for (case, t, enc, data, nt), r in zip(batch, rs):
            bad = bad_record(r)
            if bad:
                cx.case(nt, "hash:abnormal")
                cx.viol("hash command %s %s" % (enc, bad), dict(case, algo="*"), "one record", repr(r)[:300])
                continue
            res, _ = unlist(r.sols[0].get("Rs"))
            for algo, x in zip(ALGOS, res):
                if only not in (None, algo):
                    continue
                k, p = first(x)
                want = digest(algo, data)
                ok = k == "sol" and isinstance(p, str) and hexeq(p, want)
                cx.case(nt, "hash:%s" % k, sample={"data": t[:60], "encoding": enc, "algorithm": algo, "expected": want})
                if not ok:
                    kind = "wrong_digest" if k == "sol" else ("unexpected_error:" + px.formal_sig(p) if k == "error" else "unexpected_" + k)
                    cx.viol("hash %s enc=%s/%s %s" % (algo, enc, case["form"], kind), dict(case, algo=algo), want,
                            p if isinstance(p, str) else repr(p)[:200])


# ---- hmac --------------------------------------------------------------------

def hmac_cases(algo):
    out = []
    datas = [("empty", b""), ("abc", b"abc"), ("p64", pattern(64)), ("p129", pattern(129)), ("hi", bytes([0x80, 0xff, 0x00]))]
    for kl in KEYLENS:
        for ki, kk in enumerate((5, 11)):
            key = pattern(kl, kk)
            for dn, d in datas:
                out.append(({"fam": "hmac", "algo": algo, "keylen": kl, "keyk": kk, "data": dn}, key, d))
    return out


def run_hmac(w, algo, cx, only=None):
    cases = hmac_cases(algo)
    if only is not None:
        cases = [c for c in cases if c[0] == only]
    for batch in px.chunked(cases, 60):
        texts = ["g((D = %s, c37_hmacs([%s],D,octet,%s,Rs)), 1)" % (qchars(octets(d)), algo, ints_text(key)) for _, key, d in batch]
        rs = px.run_goals(w, texts)
        for (case, key, d), r in zip(batch, rs):
            block = 64 if algo == "sha256" else 128
            nt = len(key) >= block
            bad = bad_record(r)
            if bad:
                cx.case(nt, "hmac:abnormal")
                cx.viol("hmac command %s" % bad, case, "one record", repr(r)[:300])
                continue
            res, _ = unlist(r.sols[0].get("Rs"))
            k, p = first(res[0])
            want = pyhmac.new(key, d, algo).hexdigest()
            cx.case(nt, "hmac:%s" % k, sample={"algorithm": algo, "keylen": len(key), "expected": want})
            if not (k == "sol" and isinstance(p, str) and hexeq(p, want)):
                kind = "wrong_mac" if k == "sol" else ("unexpected_error:" + px.formal_sig(p) if k == "error" else "unexpected_" + k)
                rel = "key<block" if len(key) < block else ("key=block" if len(key) == block else "key>block")
                cx.viol("hmac %s %s %s" % (algo, rel, kind), case, want, p if isinstance(p, str) else repr(p)[:200])


def hmacv_cases():
    out = []
    for algo in HMAC_ALGOS:
        for kl in (0, 20, 200):
            key = pattern(kl, 5)
            d = b"message"
            good = pyhmac.new(key, d, algo).hexdigest()
            muts = [("good", good, True)]
            for pos in (0, len(good) // 2, len(good) - 1):
                ch = "0" if good[pos] != "0" else "1"
                muts.append(("flip%d" % pos, good[:pos] + ch + good[pos + 1:], False))
            muts.append(("short", good[:-1], False))
            muts.append(("long", good + "0", False))
            muts.append(("upper", good.upper(), None))   # case sensitivity of the comparison is not specified
            for name, h, want in muts:
                out.append(({"fam": "hmacv", "algo": algo, "keylen": kl, "mut": name}, key, d, h, want))
    return out


def run_hmacv(w, cx, only=None):
    cases = hmacv_cases()
    if only is not None:
        cases = [c for c in cases if c[0] == only]
    texts = ["g(vx_outcome(crypto_data_hash(%s,%s,[algorithm(%s),encoding(octet),hmac(%s)]),R), 1)"
             % (qchars(octets(d)), qchars(h), c["algo"], ints_text(key)) for c, key, d, h, want in cases]
    rs = px.run_goals(w, texts)
    for (case, key, d, h, want), r in zip(cases, rs):
        bad = bad_record(r)
        if bad:
            cx.case(True, "hmacv:abnormal")
            cx.viol("hmacv command %s" % bad, case, "one record", repr(r)[:300])
            continue
        o = r.sols[0].get("R")
        cx.case(True, "hmacv:%s" % (o if isinstance(o, str) else "error"), sample={"case": case})
        if want is None:
            continue
        if o != ("true" if want else "false"):
            cx.viol("hmacv %s %s" % ("accepts_wrong_mac" if o == "true" else ("rejects_right_mac" if o == "false" else "error")),
                    case, str(want).lower(), repr(o)[:200])


# ---- hex_bytes -----------------------------------------------------------------

def run_generic(w, items, cx, fam):
    """items: (case, goal text binding R via vx_first/vx_outcome, judge(kind, payload) -> (label, violation kind|None, expected text), nontrivial)"""
    for batch in px.chunked(items, 200):
        rs = px.run_goals(w, ["g(%s, 1)" % g for _, g, _, _ in batch])
        for (case, g, judge, nt), r in zip(batch, rs):
            bad = bad_record(r)
            if bad:
                cx.case(nt, "%s:abnormal" % fam)
                cx.viol("%s command %s" % (fam, bad), case, "one record", repr(r)[:300])
                continue
            k, p = first(r.sols[0].get("R"))
            label, vk, et = judge(k, p)
            cx.case(nt, "%s:%s" % (fam, label), sample={"goal": g[:100], "expected": et})
            if vk:
                cx.viol("%s %s" % (fam, vk), case, et, ("%s %s" % (k, show(p)))[:300])


def show(p):
    s = list_to_str(p) if p is not None else None
    if s is not None and p != NIL:
        return repr(s)
    el, tail = unlist(p) if p is not None else ([], None)
    if p is not None and tail == NIL and all(isinstance(e, int) for e in el):
        return repr(el)
    return repr(p)


def as_str(p):
    if p == NIL:
        return ""
    return list_to_str(p)


def as_ints(p):
    el, tail = unlist(p)
    if tail != NIL or not all(isinstance(e, int) and not isinstance(e, bool) for e in el):
        return None
    return el


def must_reject(k, p, what):
    if k in ("false", "error"):
        return ("rejected", None, what + " rejected (failure or error)")
    return ("accepted", "accepts_invalid:" + what, what + " rejected (failure or error)")


def hex_items():
    items = []
    blists = [[x] for x in range(256)] + [[x, y] for x in B16 for y in B16] + [[], [0, 255, 16, 1], list(range(16))]
    for bl in blists:
        want = bytes(bl).hex()

        def j_enc(k, p, want=want):
            s = as_str(p) if k == "sol" else None
            if s is not None and hexeq(s, want):
                return ("hex", None, want)
            return (k, "bytes_to_hex wrong_text" if k == "sol" else "bytes_to_hex unexpected_" + k, want)
        items.append(({"fam": "hex", "dir": "enc", "bytes": bl}, "vx_first(H,hex_bytes(H,%s),R)" % ints_text(bl), j_enc, True))
        for form in (want, want.upper(), want[:1].upper() + want[1:]):
            def j_dec(k, p, bl=bl):
                if k == "sol" and as_ints(p) == bl:
                    return ("bytes", None, repr(bl))
                return (k, "hex_to_bytes wrong_bytes" if k == "sol" else "hex_to_bytes unexpected_" + k, repr(bl))
            items.append(({"fam": "hex", "dir": "dec", "hex": form}, "vx_first(B,hex_bytes(%s,B),R)" % qchars(form), j_dec, True))
        # both bound: relation check
        items.append(({"fam": "hex", "dir": "chk", "bytes": bl}, "vx_first(t,hex_bytes(%s,%s),R)" % (qchars(want), ints_text(bl)),
                      lambda k, p: ("true", None, "true") if k == "sol" else (k, "hex_check unexpected_" + k, "true"), True))
    return items


def hexinv_items():
    items = []
    alpha = "09afAFg "
    for n in range(0, 4):
        for cs in itertools.product(alpha, repeat=n):
            s = "".join(cs)
            valid = n % 2 == 0 and all(c in "0123456789abcdefABCDEF" for c in s)
            if valid:
                bl = list(bytes.fromhex(s))

                def j(k, p, bl=bl):
                    if k == "sol" and as_ints(p) == bl:
                        return ("bytes", None, repr(bl))
                    return (k, "hex_to_bytes wrong_bytes" if k == "sol" else "hex_to_bytes unexpected_" + k, repr(bl))
            else:
                def j(k, p):
                    return must_reject(k, p, "invalid_hex")
            items.append(({"fam": "hexinv", "hex": s}, "vx_first(B,hex_bytes(%s,B),R)" % qchars(s), j, not valid))
    for bt in ("[256]", "[-1]", "[a]", "[1.0]", "[1|_]", "foo", "[0,300]"):
        items.append(({"fam": "hexinv", "bytes": bt}, "vx_first(H,hex_bytes(H,%s),R)" % bt,
                      lambda k, p: must_reject(k, p, "invalid_bytes"), True))
    items.append(({"fam": "hexinv", "bytes": "unbound"}, "vx_first(H,hex_bytes(H,_),R)",
                  lambda k, p: must_reject(k, p, "unbound_both"), True))
    return items


# ---- base64 ----------------------------------------------------------------------

B64_BYTES = [0x00, 0x3E, 0x3F, 0xFB, 0xFF, 0x61]
B64_OPTS = [(True, "standard"), (False, "standard"), (True, "url"), (False, "url")]
B64_TEXT = "Aa+/-_=!"


def opts_text(pad, cs, explicit=True):
    if not explicit and pad and cs == "standard":
        return "[]"
    return "[padding(%s),charset(%s)]" % ("true" if pad else "false", cs)


def b64_encode(b, pad, cs):
    s = (base64.urlsafe_b64encode(b) if cs == "url" else base64.b64encode(b)).decode()
    return s if pad else s.rstrip("=")


def b64enc_items(tier, oi):
    pad, cs = B64_OPTS[oi]
    items = []
    maxn = 4 if tier == "thorough" else 3
    datas = [bytes(t) for n in range(0, maxn + 1) for t in itertools.product(B64_BYTES, repeat=n)]
    datas += [pattern(n) for n in (5, 6, 7, 57, 58, 255, 256)]
    for b in datas:
        want = b64_encode(b, pad, cs)
        for explicit in ((True, False) if (pad and cs == "standard") else (True,)):
            ot = opts_text(pad, cs, explicit)

            def j_enc(k, p, want=want):
                if k == "sol" and as_str(p) == want:
                    return ("b64", None, want)
                return (k, "encode wrong_text" if k == "sol" else "encode unexpected_" + k, want)
            items.append(({"fam": "b64enc", "hex": b.hex(), "pad": pad, "cs": cs, "explicit": explicit, "dir": "enc"},
                          "vx_first(B,chars_base64(%s,B,%s),R)" % (qchars(octets(b)), ot), j_enc, len(b) % 3 != 0 or cs == "url"))

            def j_dec(k, p, b=b):
                s = as_str(p) if k == "sol" else None
                if s is not None and [ord(c) for c in s] == list(b):
                    return ("chars", None, repr(list(b)))
                return (k, "decode_own_output wrong_bytes" if k == "sol" else "decode_own_output unexpected_" + k, repr(list(b)))
            items.append(({"fam": "b64enc", "hex": b.hex(), "pad": pad, "cs": cs, "explicit": explicit, "dir": "dec"},
                          "vx_first(C,chars_base64(C,%s,%s),R)" % (qchars(want), ot), j_dec, True))
    # non-octet characters cannot be encoded
    for s in ("Ā", "a€", "\U0001f600"):
        items.append(({"fam": "b64enc", "text": [ord(c) for c in s], "pad": pad, "cs": cs},
                      "vx_first(B,chars_base64(%s,B,%s),R)" % (qchars(s), opts_text(pad, cs)),
                      lambda k, p: must_reject(k, p, "non_octet_char"), True))
    return items


def b64_classify(s, pad, cs):
    """-> ('valid', bytes) | ('reject',) | ('unspecified', bytes|None)"""
    alpha = "ABCDEFGHIJKLMNOPQRSTUVWXYZabcdefghijklmnopqrstuvwxyz0123456789" + ("-_" if cs == "url" else "+/")
    body = s.rstrip("=")
    npad = len(s) - len(body)
    if any(c not in alpha for c in body) or "=" in body:
        return ("reject",)
    if len(body) % 4 == 1 or npad > 2:
        return ("reject",)
    # the padding option says whether padding is used: a text padded the other way is not an encoding under these options
    if pad and npad != (-len(body)) % 4:
        return ("reject",)
    if not pad and npad:
        return ("reject",)
    std = body.replace("-", "+").replace("_", "/")
    raw = base64.b64decode(std + "=" * (-len(std) % 4))
    canonical = b64_encode(raw, pad, cs) == s
    if canonical:
        return ("valid", raw)
    return ("unspecified", raw)


def b64dec_items(tier, oi):
    pad, cs = B64_OPTS[oi]
    items = []
    maxn = 4
    for n in range(0, maxn + 1):
        for t in itertools.product(B64_TEXT, repeat=n):
            s = "".join(t)
            cl = b64_classify(s, pad, cs)
            if cl[0] == "valid":
                def j(k, p, raw=cl[1]):
                    x = as_str(p) if k == "sol" else None
                    if x is not None and [ord(c) for c in x] == list(raw):
                        return ("chars", None, repr(list(raw)))
                    return (k, "decode wrong_bytes" if k == "sol" else "decode unexpected_" + k, repr(list(raw)))
            elif cl[0] == "reject":
                def j(k, p):
                    return must_reject(k, p, "invalid_base64")
            else:
                def j(k, p, raw=cl[1]):
                    x = as_str(p) if k == "sol" else None
                    if k in ("false", "error") or (x is not None and [ord(c) for c in x] == list(raw)):
                        return ("unspecified:" + k, None, "rejected, or " + repr(list(raw)))
                    return (k, "decode_noncanonical wrong_bytes", "rejected, or " + repr(list(raw)))
            items.append(({"fam": "b64dec", "text": s, "pad": pad, "cs": cs},
                          "vx_first(C,chars_base64(C,%s,%s),R)" % (qchars(s), opts_text(pad, cs)), j, cl[0] != "valid"))
    if oi == 0:
        for ot in ("[padding(maybe)]", "[charset(foo)]", "[_]", "foo", "[charset(1)]"):
            items.append(({"fam": "b64dec", "opts": ot}, "vx_first(B,chars_base64(\"a\",B,%s),R)" % ot,
                          lambda k, p: must_reject(k, p, "invalid_options"), True))
        items.append(({"fam": "b64dec", "opts": "unbound_both"}, "vx_first(B,chars_base64(_,B,[]),R)",
                      lambda k, p: must_reject(k, p, "unbound_both"), True))
    return items


# ---- utf8 ---------------------------------------------------------------------------

U13 = ["a", "\x00", "\x7f", "\x80", "\u00e9", "\u07ff", "\u0800", "\u20ac", "\ufffd", "\uffff", "\U00010000", "\U0001f600", "\U0010ffff"]
UB14 = [0x00, 0x7F, 0x80, 0xBF, 0xC0, 0xC2, 0xDF, 0xE0, 0xED, 0xEF, 0xF0, 0xF4, 0xF5, 0xFF]


def utf8enc_items():
    items = []
    for n in range(0, 3):
        for cs in itertools.product(U13, repeat=n):
            s = "".join(cs)
            want = list(s.encode("utf-8"))

            def j_enc(k, p, want=want):
                if k == "sol" and as_ints(p) == want:
                    return ("bytes", None, repr(want))
                return (k, "encode wrong_bytes" if k == "sol" else "encode unexpected_" + k, repr(want))
            items.append(({"fam": "utf8enc", "codes": [ord(c) for c in s], "dir": "enc"},
                          "vx_first(B,chars_utf8bytes(%s,B),R)" % qchars(s), j_enc, any(ord(c) > 0x7f for c in s)))

            def j_dec(k, p, s=s):
                if k == "sol" and as_str(p) == s:
                    return ("chars", None, repr(s))
                return (k, "decode_own_output wrong_chars" if k == "sol" else "decode_own_output unexpected_" + k, repr(s))
            items.append(({"fam": "utf8enc", "codes": [ord(c) for c in s], "dir": "dec"},
                          "vx_first(C,chars_utf8bytes(C,%s),R)" % ints_text(want), j_dec, any(ord(c) > 0x7f for c in s)))
    return items


def utf8dec_items(part):
    items = []
    i = 0
    for n in range(0, 4):
        for t in itertools.product(UB14, repeat=n):
            i += 1
            if i % 4 != part:
                continue
            b = bytes(t)
            try:
                s = b.decode("utf-8")
            except UnicodeDecodeError:
                s = None
            if s is not None:
                def j(k, p, s=s):
                    if k == "sol" and as_str(p) == s:
                        return ("chars", None, repr(s))
                    return (k, "decode wrong_chars" if k == "sol" else "decode unexpected_" + k, repr(s))
            else:
                def j(k, p):
                    # invalid UTF-8: behaviour not specified; only a crash / hang is a violation (caught as abnormal)
                    return ("invalid:" + k, None, "unspecified (no crash)")
            items.append(({"fam": "utf8dec", "bytes": list(b)}, "vx_first(C,chars_utf8bytes(C,%s),R)" % ints_text(b), j, s is None or n > 1))
    return items


# ---- AEAD --------------------------------------------------------------------------------

AEAD_LENS = [0, 1, 15, 16, 17, 63, 64, 65, 1000]
ALG = "'chacha20-poly1305'"


def aead_cases(ki):
    key = pattern(32, 3 + 8 * ki)
    iv = pattern(12, 5 + 2 * ki)
    out = []
    for n in AEAD_LENS:
        for enc in ("octet", "utf8"):
            for aad in (None, "hdré"):
                if enc == "octet":
                    pt_chars = octets(pattern(n, 11))
                    pt = pattern(n, 11)
                    aad_b = None if aad is None else bytes(ord(c) for c in aad)
                else:
                    pt_chars = upattern(n)
                    pt = pt_chars.encode("utf-8")
                    aad_b = None if aad is None else aad.encode("utf-8")
                out.append(({"fam": "aead", "key": ki, "len": n, "enc": enc, "aad": aad}, key, iv, pt_chars, pt, aad, aad_b, enc))
    return out


def run_aead(w, ki, cx, only=None):
    cases = aead_cases(ki)
    if only is not None:
        cases = [c for c in cases if c[0] == only]
    texts = []
    for case, key, iv, ptc, pt, aad, aad_b, enc in cases:
        opts = "encoding(%s)" % enc + ("" if aad is None else ",aad(%s)" % qchars(aad))
        texts.append("g((K = %s, IV = %s, P = %s, "
                     "vx_first(CN-T, (crypto_data_encrypt(P,%s,K,IV,C,[tag(T),%s]), c37_codes(C,CN)), R1), "
                     "vx_first(ok, (R1 = sol(CN1-T1), c37_codes(C1,CN1), crypto_data_decrypt(C1,%s,K,IV,P1,[tag(T1),%s]), P1 == P), R2), "
                     "vx_first(P2, (R1 = sol(CN2-T2), c37_codes(C2,CN2), T2 = [B0|Bs], B1 is xor(B0,1), "
                     "crypto_data_decrypt(C2,%s,K,IV,P2,[tag([B1|Bs]),%s])), R3), "
                     "vx_first(P3, (R1 = sol(CN3-T3), c37_codes(C3,CN3), crypto_data_decrypt(C3,%s,K,IV,P3,[tag(T3),encoding(%s),aad(\"other\")])), R4)), 1)"
                     % (ints_text(key), ints_text(iv), qchars(ptc), ALG, opts, ALG, opts, ALG, opts, ALG, enc))
    rs = px.run_goals(w, texts)
    for (case, key, iv, ptc, pt, aad, aad_b, enc), r in zip(cases, rs):
        nt = True
        bad = bad_record(r)
        if bad:
            cx.case(nt, "aead:abnormal")
            cx.viol("aead command %s" % bad, case, "one record", repr(r)[:300])
            continue
        sol = r.sols[0]
        ct, tag = R.aead_encrypt(key, iv, pt, aad_b or b"")
        k, p = first(sol.get("R1"))
        okenc = False
        if k == "sol" and isinstance(p, tuple) and p[0] == "-":
            oc, otag = as_ints(p[1]), as_ints(p[2])
            okenc = oc == list(ct) and otag == list(tag)
            obs = "ct %s tag %s" % (bytes(oc or []).hex()[:80], bytes(otag or []).hex()) if oc is not None and otag is not None and all(0 <= x < 256 for x in oc + otag) else repr(p)[:200]
        else:
            obs = "%s %s" % (k, repr(p)[:200])
        cx.case(nt, "aead_encrypt:%s" % k, sample={"case": case, "expected_tag": tag.hex()})
        if not okenc:
            cx.viol("aead encrypt enc=%s aad=%s %s" % (enc, "yes" if aad else "no", "wrong_ciphertext_or_tag" if k == "sol" else "unexpected_" + k),
                    case, "ct %s tag %s" % (ct.hex()[:80], tag.hex()), obs)
            continue
        k2, _ = first(sol.get("R2"))
        cx.case(nt, "aead_decrypt:%s" % k2)
        if k2 != "sol":
            cx.viol("aead decrypt enc=%s aad=%s roundtrip_%s" % (enc, "yes" if aad else "no", k2), case, "plaintext recovered", repr(sol.get("R2"))[:200])
        k3, _ = first(sol.get("R3"))
        cx.case(nt, "aead_badtag:%s" % k3)
        if k3 == "sol":
            cx.viol("aead decrypt accepts_wrong_tag", case, "failure or error", "succeeded")
        k4, _ = first(sol.get("R4"))
        cx.case(nt, "aead_badaad:%s" % k4)
        if k4 == "sol":
            cx.viol("aead decrypt accepts_wrong_aad", case, "failure or error", "succeeded")


def aeadbad_items():
    items = []
    k32, iv12 = ints_text(pattern(32)), ints_text(pattern(12))
    bads = [("keylen31", ints_text(pattern(31)), iv12, ALG), ("keylen33", ints_text(pattern(33)), iv12, ALG),
            ("ivlen11", k32, ints_text(pattern(11)), ALG), ("ivlen13", k32, ints_text(pattern(13)), ALG),
            ("algo", k32, iv12, "'aes-128-gcm'"), ("keybyte256", ints_text([256] + list(pattern(31))), iv12, ALG),
            ("nonoctet", k32, iv12, ALG)]
    for name, k, iv, alg in bads:
        enc = "octet"
        pt = qchars("€") if name == "nonoctet" else qchars("abc")
        items.append(({"fam": "aeadbad", "name": name},
                      "vx_first(C,crypto_data_encrypt(%s,%s,%s,%s,C,[tag(_),encoding(%s)]),R)" % (pt, alg, k, iv, enc),
                      lambda kk, p, name=name: must_reject(kk, p, "bad_" + name), True))
    return items


# --------------------------------------------------------------------------

def dispatch(w, shard, tier, cx, only=None):
    kind = shard[0]
    if kind in ("hash1", "hash2", "hashu", "hashlen"):
        run_hash(w, hash_inputs(shard), cx)
    elif kind == "hmac":
        run_hmac(w, shard[1], cx)
    elif kind == "hmacv":
        run_hmacv(w, cx)
    elif kind == "hex":
        run_generic(w, hex_items(), cx, "hex")
    elif kind == "hexinv":
        run_generic(w, hexinv_items(), cx, "hexinv")
    elif kind == "b64enc":
        run_generic(w, b64enc_items(tier, shard[1]), cx, "b64enc")
    elif kind == "b64dec":
        run_generic(w, b64dec_items(tier, shard[1]), cx, "b64dec")
    elif kind == "utf8enc":
        run_generic(w, utf8enc_items(), cx, "utf8enc")
    elif kind == "utf8dec":
        run_generic(w, utf8dec_items(shard[1]), cx, "utf8dec")
    elif kind == "aead":
        run_aead(w, shard[1], cx)
    elif kind == "aeadbad":
        run_generic(w, aeadbad_items(), cx, "aeadbad")
    else:
        raise ValueError(shard)


def run_shard(w, shard, tier):
    acc = px.ShardAcc()
    dispatch(w, shard, tier, Ctx(acc))
    return acc.result()


def recheck(w, case, tier):
    cx = Ctx(None)
    fam = case["fam"]
    if fam == "hash":
        c = dict((k, v) for k, v in case.items() if k != "algo")
        t, data = hash_input_of_case(c)
        run_hash(w, [(c, t, c["enc"], data, True)], cx, only=None if case.get("algo") == "*" else case.get("algo"))
    elif fam == "hmac":
        run_hmac(w, case["algo"], cx, only=case)
    elif fam == "hmacv":
        run_hmacv(w, cx, only=case)
    elif fam == "aead":
        run_aead(w, case["key"], cx, only=case)
    else:
        gens = {"hex": lambda: hex_items(), "hexinv": lambda: hexinv_items(), "utf8enc": lambda: utf8enc_items(),
                "aeadbad": lambda: aeadbad_items()}
        if fam in gens:
            items = gens[fam]()
        elif fam == "b64enc":
            items = b64enc_items("thorough", B64_OPTS.index((case["pad"], case["cs"])))
        elif fam == "b64dec":
            items = b64dec_items("thorough", B64_OPTS.index((case["pad"], case["cs"])) if "pad" in case else 0)
        elif fam == "utf8dec":
            items = [it for part in range(4) for it in utf8dec_items(part)]
        else:
            return None
        items = [it for it in items if it[0] == case]
        run_generic(w, items, cx, fam)
    return cx.viols[0] if cx.viols else None
