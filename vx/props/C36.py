"""C36 — format/2 directives produce the documented text (DESIGN §6 C36).

Every documented directive x numeric argument x argument value (quick), all
ordered pairs of directive instances (thorough), column layouts of <= 2 (3)
segments, and the error side (undocumented directive letters, numeric
arguments where none is documented, ill-typed arguments, too few / too many
arguments). Two entry points: format/2 (text captured from the machine's
output) and phrase(format_(Fs,Args),Cs) with Fs bound at run time. Oracle:
vx/model/c36_fmt.py, written from the directive table in format.pl.
"""
import itertools
import re

from vx.core import px
from vx.core.terms import quote_string, list_to_str, fmt_float
from vx.model import c36_fmt as F

ID = "C36"
LEVEL = "exploration"
ENGINE = "PEX"
TECHNIQUE = "bounded exhaustive input sweep against a Python model of the documented directive table (set-valued where the doc is silent)"
LEVEL_TEXT = ("exhaustive enumeration of format strings (directive x numeric argument x argument alphabet, pairs, "
              "column layouts, error cases) executed through both entry points")
RULE = ("single: every documented directive x N in {omitted,0,1,2,3,8,16,36,37,*} (where meaningful) x per-type argument "
        "alphabet, embedded as \"<~Nd>\"; pairs (thorough: all ordered pairs, quick: a diagonal) of directive instances; "
        "columns: all layouts of <= 2 (thorough 3) segments over 7 content patterns x 5 stops; errors: every "
        "undocumented letter, misplaced numeric arguments, ill-typed and missing/surplus arguments; x 2 entry points "
        "(+ a third, the goal-expanded clause body, for every non-error case). "
        "Non-trivial: N given, or the argument is negative / a bignum / needs rounding, or a column cell has space to distribute, "
        "or an error is expected.")
ASSUMPTIONS = ["Python decimal arithmetic (correct rounding)", "~w/~q are compared with write/1 / writeq/1 run on the same machine "
               "(variable names normalised)", "driver transport and output capture (Res.text)"]
MIN_OUTCOMES = 6

ENTRIES = ["format/2", "format_//2"]
BODY = "format/2-in-clause-body"   # third entry point: literal format string goal-expanded at consult time

# --------------------------------------------------------------------------
# argument alphabets: (kind, value, source text)

INTS = [0, 1, -1, 12, -12, 123, -123, 1234, -1234, 1234567, -1234567, 2 ** 70, -(2 ** 70)]
FLOATS = [0.0, 0.5, -0.5, 1.005, 2.675, 123456.789, 1e10, 1e-10, 1e22, -0.04, 0.35, 2.5, 0.999, 9.995, -9.995, 0.1, 0.3]
ATOMS = [("a", "a"), ("A b", "'A b'"), ("", "''"), ("é", "é"), ("[]", "[]")]
STRINGS = ["", "ab", "é"]
TERMS = ["a", "'A b'", "''", "12", "-3", "1.5", '"ab"', "f(X)", "'a b'+1", "[1,2]", "'X'", "- 1", "1-2", "a:b:c", "{x}"]


def A_int(v):
    return ("int", v, str(v))


def A_float(v):
    return ("float", v, fmt_float(v) if v >= 0 else "-" + fmt_float(-v))


def A_atom(v, t):
    return ("atom", v, t)


def A_str(v):
    return ("string", v, quote_string(v))


def A_term(t):
    return ("term", None, t)


def star(v):
    return ("*", v, str(v))


# --------------------------------------------------------------------------
# text of a case

def n_text(n):
    if n is None:
        return ""
    if isinstance(n, (tuple, list)):
        return "*"
    return str(n)


def fmt_text(items):
    out = []
    args = []
    for it in items:
        if it[0] == "lit":
            out.append(it[1])
        elif it[0] == "raw":
            out.append(it[1])
            args.extend(it[2])
        elif it[0] == "fill":
            out.append("~t" if it[1] == " " else "~`%st" % it[1])
        elif it[0] == "stop":
            if isinstance(it[2], (tuple, list)):
                args.append(it[2][2])
            out.append("~%s%s" % (n_text(it[2]), it[1]))
        elif it[0] == "dir":
            if isinstance(it[2], (tuple, list)):
                args.append(it[2][2])
            out.append("~%s%s" % (n_text(it[2]), it[1]))
            if it[3] is not None:
                args.append(it[3][2])
    return "".join(out), args


def commands(items):
    s, args = fmt_text(items)
    qs = quote_string(s)
    at = "[" + ",".join(args) + "]"
    return ["g(format(%s,%s), 3)" % (qs, at),
            "g((Fs = %s, phrase(format_(Fs,%s),Cs)), 3)" % (qs, at)]


_VAR = re.compile(r"(?<![A-Za-z0-9])_[A-Za-z0-9]+")


def norm_vars(text):
    seen = {}

    def sub(m):
        return seen.setdefault(m.group(0), "_%d" % (len(seen) + 1))
    return _VAR.sub(sub, text)


def tuplify(x):
    if isinstance(x, list):
        return tuple(tuplify(y) for y in x)
    return x


# --------------------------------------------------------------------------
# twin outputs of write/1 and writeq/1 (cached per worker process)

_twin_cache = {}


def get_twin(w):
    key = id(w)
    if key not in _twin_cache:
        tab = {}
        texts = []
        for t in TERMS:
            texts.append("g(write(%s), 2)" % t)
            texts.append("g(writeq(%s), 2)" % t)
        rs = px.run_goals(w, texts)
        for i, t in enumerate(TERMS):
            tab[("write", t)] = rs[2 * i].text
            tab[("writeq", t)] = rs[2 * i + 1].text
        _twin_cache.clear()
        _twin_cache[key] = tab
    tab = _twin_cache[key]
    return lambda kind, t: norm_vars(tab[(kind, t)])


# --------------------------------------------------------------------------
# spaces

def single_items():
    """(tag, items, nontrivial)"""
    out = []

    def add(letter, n, arg, nt):
        out.append(("single", [("lit", "<"), ("dir", letter, n, arg), ("lit", ">")], nt))
    for n in (None, 0, 1, 2, 3, 8, star(2)):
        for v in INTS:
            for letter in ("d", "D", "U"):
                add(letter, n, A_int(v), n is not None or v < 0 or abs(v) >= 2 ** 55)
    for n in (None, 0, 1, 5, 72, star(3)):
        for v in (0, -12, 1234567, 2 ** 70, -(2 ** 70), 10 ** 80, -(10 ** 80) - 7):
            add("L", n, A_int(v), True)
    for n in (None, 0, 1, 2, 8, 10, 16, 36, 37, star(16), star(1)):
        for v in (0, 1, -1, 7, 8, 35, 36, 255, -255, 2 ** 70, -(2 ** 70)):
            for letter in ("r", "R"):
                add(letter, n, A_int(v), True)
    for n in (None, 0, 1, 2, 3, 8, 20, star(2)):
        for v in FLOATS:
            add("f", n, A_float(v), True)
        for v in (0, 3, -3, 2 ** 70):
            add("f", n, A_int(v), True)
    for v, t in ATOMS:
        add("a", None, A_atom(v, t), False)
    for v in STRINGS:
        add("s", None, A_str(v), False)
    for t in TERMS:
        add("w", None, A_term(t), False)
        add("q", None, A_term(t), False)
        add("i", None, A_term(t), False)
    for n in (None, 0, 1, 2, 3, star(2)):
        out.append(("single", [("lit", "<"), ("dir", "n", n, None), ("lit", ">")], n is not None))
    out.append(("single", [("lit", "<"), ("dir", "~", None, None), ("lit", ">")], False))
    out.append(("single", [("lit", "plain text, no directive")], False))
    out.append(("single", [], False))
    # documented examples
    out.append(("doc", [("dir", "s", None, A_str("hello")), ("dir", "n", None, None), ("fill", "."),
                        ("dir", "w", None, A_term("a")), ("lit", "!"), ("stop", "|", 12)], True))
    out.append(("doc", [("dir", "f", 2, A_int(3)), ("dir", "n", None, None)], True))
    out.append(("doc", [("dir", "r", 12, A_int(300))], True))
    out.append(("doc", [("fill", "a"), ("stop", "|", 50), ("dir", "n", None, None)], True))
    return out


def dir_instances():
    """a reduced set of directive instances for the pair family"""
    return [("dir", "d", None, A_int(-123)), ("dir", "d", 2, A_int(1234)), ("dir", "D", None, A_int(1234567)),
            ("dir", "U", 1, A_int(12345)), ("dir", "r", 16, A_int(255)), ("dir", "R", star(36), A_int(35)),
            ("dir", "f", 2, A_float(2.675)), ("dir", "f", None, A_float(0.5)), ("dir", "a", None, A_atom("A b", "'A b'")),
            ("dir", "s", None, A_str("ab")), ("dir", "w", None, A_term("'a b'+1")), ("dir", "q", None, A_term("'a b'+1")),
            ("dir", "q", None, A_term("f(X)")), ("dir", "i", None, A_term("f(X)")), ("dir", "n", 2, None),
            ("dir", "~", None, None), ("dir", "L", 3, A_int(1234567)), ("dir", "d", star(1), A_int(7)),
            ("dir", "e", None, A_float(1.0)), ("dir", "d", None, A_atom("x", "x"))]


def pair_items(tier):
    ds = dir_instances()
    out = []
    for i, a in enumerate(ds):
        for j, b in enumerate(ds):
            out.append(("pair", [a, ("lit", "-"), b, ("lit", ".")], True))
    return out


CONTENTS = [
    [("lit", "ab")],
    [("fill", " "), ("lit", "ab")],
    [("lit", "ab"), ("fill", " ")],
    [("fill", " "), ("lit", "ab"), ("fill", "*")],
    [("lit", "a"), ("fill", "."), ("lit", "b")],
    [("fill", " "), ("dir", "a", None, A_atom("xyz", "xyz")), ("fill", " "), ("dir", "d", None, A_int(42)), ("fill", " ")],
    [("fill", "-")],
]
STOPS = [("stop", "|", None), ("stop", "|", 10), ("stop", "+", 5), ("stop", "+", 1), ("stop", "|", star(7))]


def column_items(tier):
    out = []
    nseg = 3 if tier == "thorough" else 2
    segs = [c + [s] for c in CONTENTS for s in STOPS]
    for k in range(1, nseg + 1):
        for combo in itertools.product(range(len(segs)), repeat=k):
            if k == 3 and tier == "thorough" and not (combo[0] % 3 == 0):
                continue  # third segment only after a third of the first segments (keeps thorough within budget)
            items = []
            for c in combo:
                items += segs[c]
            for tail in ([], [("lit", "!")], [("dir", "n", None, None), ("fill", "_"), ("lit", "z"), ("stop", "|", 3)]):
                out.append(("column", items + tail, True))
    return out


UNDOC = [c for c in "bceghjklmopuvxyzABCEFGHIJKMNOPQSTVWXYZ?!#"]


def error_items():
    out = []

    def raw(text, args):
        out.append(("error", [("raw", text, args)], True))
    for c in UNDOC:
        raw("~%s" % c, ["x"])
        raw("~%s" % c, [])
        raw("~2%s" % c, ["65"])
    for c in "wqasit~":
        raw("ab~2%s" % c, ["a"] if c not in "t~" else [])
        raw("ab~*%s" % c, ["2", "a"] if c not in "t~" else ["2"])
    raw("abc~", [])
    raw("~`", [])
    raw("~`x", [])
    raw("~2", ["1"])
    raw("~*", ["1"])
    # ill-typed arguments
    for letter in ("d", "D", "U", "L", "r", "R"):
        for t in ("1.5", "a", '"12"', "f(x)", "_"):
            raw("ab~%s" % letter, [t])
            raw("ab~2%s" % letter, [t])
    for t in ("a", '"1.5"', "f(x)", "_"):
        raw("ab~f", [t])
        raw("ab~2f", [t])
    for t in ("1", "1.5", "f(x)", "_", '"ab"'):
        raw("ab~a", [t])
    for t in ("a", "1", "f(x)", "_", "[1,2]", "[a|b]", "[a|_]"):
        raw("ab~s", [t])
    for letter in ("d", "f", "r", "n", "|", "+", "D"):
        for t in ("a", "1.5", "-1", "_", '"2"'):
            raw("ab~*%s" % letter, [t, "5"] if letter not in "n|+" else [t])
    # argument count
    for letter in "wqasdfDULrRi":
        raw("ab~%s" % letter, [])
    raw("ab", ["x"])
    raw("~w", ["a", "b"])
    raw("~d~d", ["1"])
    raw("~*d", ["2"])
    raw("~n", ["x"])
    return out


def all_items(tier):
    return single_items() + pair_items(tier) + column_items(tier) + error_items()


NSHARDS = 48


def shards(tier):
    return [("blk", i) for i in range(NSHARDS)]


def bound_text(tier):
    its = all_items(tier)
    from collections import Counter
    c = Counter(t for t, _, _ in its)
    return ("%d format strings (%s) x 3 entry points; column layouts of <= %d segments"
            % (len(its), ", ".join("%s %d" % kv for kv in sorted(c.items())), 3 if tier == "thorough" else 2))


def setup(w, tier):
    w.consult(":- use_module(library(format)).\n:- use_module(library(dcgs)).\n", persist=True)


# --------------------------------------------------------------------------
# judging

def classify(items):
    """short stable description of the case class for signatures"""
    dirs = [it for it in items if it[0] == "dir"]
    if any(it[0] == "raw" for it in items):
        return "raw:" + ",".join(it[1] for it in items if it[0] == "raw")[:24]
    if any(it[0] in ("fill", "stop") for it in items):
        return "columns"
    parts = []
    for it in dirs:
        letter, n, arg = it[1], it[2], it[3]
        ncls = "omitted" if n is None else ("*" if isinstance(n, (tuple, list)) else ("0" if n == 0 else ">0"))
        nv = None if n is None else (n[1] if isinstance(n, (tuple, list)) else n)
        acls = "-"
        if arg is not None:
            acls = arg[0]
            if arg[0] == "int" and letter in ("d", "D", "U", "L"):
                v = arg[1]
                nd = len(str(abs(v)))
                nn = nv or 0
                acls = ("neg" if v < 0 else "nonneg")
                if nn > 0:
                    acls += "/short" if nd <= nn else "/long"
                if letter in ("D", "U"):
                    ip = max(nd - nn, 0)
                    acls += "/grp3" if ip > 0 and ip % 3 == 0 else "/grpx"
            elif arg[0] == "int":
                acls = "neg" if arg[1] < 0 else "nonneg"
        parts.append("~%s N=%s arg=%s" % (letter, ncls, acls))
    return " ".join(parts) if parts else "literal"


def observe(r, entry):
    """-> ('text', s) | ('error', formal, leaked output) | ('fail',) | ('abn', sig) | ('multi', n)"""
    if r.abn:
        return ("abn", r.abn)
    if r.status == "exc":
        return ("error", r.formal(), r.text)
    if len(r.sols) == 0:
        return ("fail",)
    if entry == "format/2":
        if len(r.sols) > 1:
            return ("multi", len(r.sols))
        return ("text", r.text)
    outs = []
    for s in r.sols:
        t = list_to_str(s.get("Cs")) if s.get("Cs") != "[]" else ""
        if t is None:
            return ("badlist", repr(s.get("Cs"))[:80])
        if t not in outs:
            outs.append(t)
    if len(outs) > 1:
        return ("multi", len(outs))
    return ("text", outs[0])


def judge(items, obs, twin):
    """-> (label, violation kind | None, expected text, observed text)"""
    raw = any(it[0] == "raw" for it in items)
    seqs = F.ERROR if raw else F.expand(items, twin)
    et = F.describe(seqs) if seqs != F.ERROR else "an error and no output"
    if obs[0] == "abn":
        return ("abnormal", obs[1], et, obs[1])
    if seqs == F.ERROR:
        if obs[0] == "error":
            # a diagnostic printed by the goal-expansion machinery (the same error term) is not format output
            if obs[2] and not _DIAG.fullmatch(obs[2]):
                return ("error", "output_before_error", et, "error %s after printing %r" % (px.formal_sig(obs[1]), obs[2][:60]))
            return ("error:" + px.formal_class(obs[1]), None, et, None)
        if obs[0] == "text":
            return ("text", "missing_error", et, repr(obs[1]))
        return (obs[0], "missing_error(%s)" % obs[0], et, repr(obs))
    if obs[0] == "error":
        return ("error", "unexpected_error:" + px.formal_sig(obs[1]), et, "error " + px.formal_sig(obs[1]))
    if obs[0] != "text":
        return (obs[0], "unexpected_" + obs[0], et, repr(obs))
    if F.match(seqs, obs[1]) or (has_vars(items) and F.match(seqs, norm_vars(obs[1]))):
        return ("text", None, et, None)
    return ("text", "wrong_text" + diagnose(items, seqs, obs[1]), et, repr(obs[1]))


def has_vars(items):
    return any(it[0] == "dir" and it[3] is not None and it[3][0] == "term" and re.search(r"\b[A-Z_]", it[3][2])
               for it in items)


def diagnose(items, seqs, text):
    """names the recognised wrong-answer classes so that each root cause has its own signature
    (anything else stays a plain wrong_text)"""
    dirs = [it for it in items if it[0] == "dir"]
    if len(dirs) != 1 or len(items) != 3:
        return ""
    d = dirs[0]
    body = text[1:-1] if text.startswith("<") and text.endswith(">") else None
    if body is None:
        return ""
    if d[1] == "f":
        n = d[2] if not isinstance(d[2], (tuple, list)) else d[2][1]
        if n == 0 and body.endswith("0") and body[:-1] in F.float_fixed(d[3][1], 0):
            return ":one_digit_after_point"
    if d[1] in ("d", "D", "U") and d[3][0] == "int" and d[3][1] < 0:
        if re.fullmatch(r"0\.0*-[0-9]+", body):
            return ":sign_after_point"
        if re.fullmatch(r"-\.[0-9]+", body):
            return ":no_integer_digit"
        if re.fullmatch(r"-[,_][0-9,_.]+", body):
            return ":separator_after_sign"
    return ""


_DIAG = re.compile(r"(\s*error\(.*\)\.\n)+")


def blocks(tier, i):
    its = all_items(tier)
    return [(k, it) for k, it in enumerate(its) if k % NSHARDS == i]


def run_shard(w, shard, tier):
    acc = px.ShardAcc()
    twin = get_twin(w)
    mine = blocks(tier, shard[1])
    for batch in px.chunked(mine, 150):
        texts = []
        for _, (tag, items, nt) in batch:
            texts.extend(commands(items))
        rs = px.run_goals(w, texts)
        body = run_body(w, [(k, items) for k, (tag, items, nt) in batch], twin)
        for bi, (k, (tag, items, nt)) in enumerate(batch):
            cls = classify(items)
            seen = []
            if k in body:
                obs = observe(body[k], "format/2")
                label, vk, et, ot = judge(items, obs, twin)
                acc.case(nt, "%s:%s" % (tag, label))
                if vk:
                    acc.violation("%s %s %s" % (BODY, cls, vk), {"fam": tag, "items": items, "entry": BODY}, et, ot)
            for ei, entry in enumerate(ENTRIES):
                r = rs[2 * bi + ei]
                obs = observe(r, entry)
                label, vk, et, ot = judge(items, obs, twin)
                seen.append(obs)
                acc.case(nt, "%s:%s" % (tag, label),
                         sample={"format": fmt_text(items)[0], "args": fmt_text(items)[1], "entry": entry, "expected": et})
                if vk:
                    acc.violation("%s %s %s" % (entry, cls, vk), {"fam": tag, "items": items, "entry": entry}, et, ot)
            # the two entry points must agree with each other as well
            a, b = seen
            if a[0] == "text" and b[0] == "text" and a[1] != b[1] and norm_vars(a[1]) != norm_vars(b[1]):
                acc.violation("entry_points_differ %s" % cls, {"fam": tag, "items": items, "entry": "both"},
                              "same text from both entry points", "format/2 %r vs format_//2 %r" % (a[1], b[1]))
    return acc.result()


def run_body(w, kitems, twin):
    """consults one clause per non-error case (so that format/2's goal expansion runs at
    consult time on the literal format string) and calls it -> {k: Res}"""
    ks, clauses = [], []
    for k, items in kitems:
        if any(it[0] == "raw" for it in items) or F.expand(items, twin) == F.ERROR:
            continue
        s, args = fmt_text(items)
        ks.append(k)
        clauses.append("c36b_%d :- format(%s,[%s])." % (k, quote_string(s), ",".join(args)))
    if not ks:
        return {}
    w.consult("\n".join(clauses) + "\n")
    # the first command after a consult also collects whatever the loader printed: spend a no-op on it
    rs = px.run_goals(w, ["g(true, 1)"] + ["g(c36b_%d, 3)" % k for k in ks])[1:]
    return dict(zip(ks, rs))


def recheck(w, case, tier):
    items = [tuplify(it) for it in case["items"]]
    twin = get_twin(w)
    if case["entry"] == BODY:
        res = run_body(w, [(0, items)], twin)
        if 0 not in res:
            return None
        label, vk, et, ot = judge(items, observe(res[0], "format/2"), twin)
        if vk:
            return {"sig": "%s %s %s" % (BODY, classify(items), vk), "case": case, "expected": et, "observed": ot}
        return None
    rs = px.run_goals(w, commands(items))
    cls = classify(items)
    obs = [observe(r, e) for r, e in zip(rs, ENTRIES)]
    if case["entry"] == "both":
        a, b = obs
        if a[0] == "text" and b[0] == "text" and norm_vars(a[1]) != norm_vars(b[1]):
            return {"sig": "entry_points_differ %s" % cls, "case": case, "expected": "same text from both entry points",
                    "observed": "format/2 %r vs format_//2 %r" % (a[1], b[1])}
        return None
    ei = ENTRIES.index(case["entry"])
    label, vk, et, ot = judge(items, obs[ei], twin)
    if vk:
        return {"sig": "%s %s %s" % (case["entry"], cls, vk), "case": case, "expected": et, "observed": ot}
    return None
