"""C15 — printed terms read back as the same term (DESIGN §6 C15).

Every term of the space (vx/model/c15_space.py) is BUILT at run time from an
op-free description (atom_codes/2, =../2, arithmetic), written by each writer
to the real output stream under each operator table, and the captured text is
read back with the machine's own reader (read_term_from_chars/3) under the
same table; the result must be a variant of the term.
"""
from vx.core import px, terms
from vx.model import c15_space as S

ID = "C15"
LEVEL = "exploration"
ENGINE = "PEX"
TECHNIQUE = "bounded exhaustive enumeration of terms x writers x operator tables; round trip through the machine's own reader"
WRITERS = ["wq", "wc", "tq", "tqin", "tqd"]
NV_WRITERS = {"wq", "tqin"}          # numbervars(true): '$VAR'(N) denotes a variable name
WRITER_TEXT = {"wq": "writeq/1", "wc": "write_canonical/1", "tq": "write_term/2 [quoted(true)]",
               "tqin": "write_term/2 [quoted(true),ignore_ops(true),numbervars(true)]",
               "tqd": "write_term/2 [quoted(true),double_quotes(true)]"}
RULE = ("all terms of the families in vx/model/c15_space.py (size<=3 over a 34-atom tricky vocabulary + 8 numbers + "
        "variables; size 4-5 operator nests; lists, partial lists, strings in three heap encodings, curly terms, "
        "'$VAR'(N), rationals) x 5 writers (writeq, write_canonical, write_term quoted / +ignore_ops+numbervars / "
        "+double_quotes) x operator tables (default; user op foo as fy/fx/xfx/xfy/yfx/xf/yf at 200/700/1200; a quoted "
        "user op 'A'; prefix minus removed). Terms are built at run time, never written literally. Non-trivial: the "
        "written text contains a quote, a space, a bracket that is not a functional-notation bracket, or the term has "
        "an operator atom as an operand.")
LEVEL_TEXT = ("bounded exhaustive exploration of the real printer and reader; the oracle is the identity on terms "
              "(variant check), so no independent parser is trusted")
ASSUMPTIONS = ["driver transport (op-free case text: integers, code lists, plain functors)",
               "atom_codes/2, =../2, arithmetic used to build terms; term_variables/2, ==/2 for the variant check",
               "rationals have no literal syntax in this tree: a rational may read back as rdiv(N,D) with the same value",
               "print/1 is not defined in this tree (skipped)",
               "'$VAR'(N) under numbervars(true) writers is expected to read back as a variable (same N, same variable)"]
MIN_OUTCOMES = 3
PARTS = {"vocab3": 16, "nests": 16, "lists": 4, "userop": 2, "nominus": 2}


def bound_text(tier):
    c = S.count_families(tier)
    return "%d (term, table) pairs x %d writers: %s" % (
        sum(x[2] for x in c), len(WRITERS),
        "; ".join("%s/%s=%d" % x for x in c[:5]) + "; userop tables=%d; nominus" % sum(1 for x in c if x[0] == "userop"))


def shards(tier):
    sh = []
    mult = 3 if tier == "thorough" else 1
    for (name, table, _g) in S.families(tier):
        n = PARTS.get(name, 1) * (mult if name in ("vocab3", "nests", "lists") else 1)
        for k in range(n):
            sh.append((name, table, k, n))
    return sh


def setup(w, tier):
    w.consult(S.helper_text(), persist=True)


def _family_gen(tier, name, table):
    for (n, t, g) in S.families(tier):
        if n == name and t == table:
            return g
    raise KeyError((name, table))


def set_table(w, table):
    """apply the table's ops and return the implementation's resulting table"""
    ops, _undo = S.TABLES[table]
    r = px.run_goals(w, ["g((c15_ops(%s), c15_optable(L)))" % S.ops_text(ops)])[0]
    if r.status != "done" or len(r.sols) != 1:
        raise RuntimeError("cannot set operator table %s: %r" % (table, r))
    return S.parse_optable(r.sols[0]["L"])


def restore_table(w, table):
    _ops, undo = S.TABLES[table]
    if not undo:
        return
    r = px.run_goals(w, ["g(c15_ops(%s))" % S.ops_text(undo)])[0]
    if r.status != "done" or len(r.sols) != 1:
        w.new_machine()


def features(text, desc, ot):
    """(quote?, bracket?, space?, operator atom as operand?)"""
    q = "'" in text or '"' in text
    sp = " " in text
    br = False
    for i, c in enumerate(text):
        if c == "(":
            p = text[i - 1] if i > 0 else " "
            if not (p.isalnum() or p == "_" or p == "'" or p in S.TX.SYMBOL_CHARS or p in "]}!;"):
                br = True
                break
    return q, br, sp, _op_operand(desc, ot)


def _op_operand(d, ot):
    k = d[0]
    if k == "c":
        return any((x[0] == "a" and ot.is_op(x[1])) or _op_operand(x, ot) for x in d[2])
    if k == "l":
        return any((x[0] == "a" and ot.is_op(x[1])) or _op_operand(x, ot) for x in d[1]) or _op_operand(d[2], ot)
    if k == "s":
        return _op_operand(d[2], ot)
    if k == "k":
        return _op_operand(d[1], ot)
    return False


def split_texts(res, nwriters):
    """step-A output -> list of texts (None + error name where the writer raised)"""
    parts = res.text.split("\x02")[1:]
    out = []
    for p in parts:
        if p.startswith("\x03"):
            out.append((None, p[1:]))
        else:
            out.append((p, None))
    while len(out) < nwriters:
        out.append((None, "missing"))
    return out[:nwriters]


def expected_desc(desc, writer):
    return S.nv_transform(desc) if writer in NV_WRITERS else desc


def focus(e, o):
    """innermost pair of subterms at which expected and observed differ"""
    while (isinstance(e, tuple) and isinstance(o, tuple) and len(e) == len(o) and e[0] == o[0]):
        bad = [(a, b) for a, b in zip(e[1:], o[1:]) if not S.TX.same_modulo_vars(a, b)]
        if len(bad) != 1:
            break
        e, o = bad[0]
    return e, o


def routes_of(d):
    out = set()

    def go(x):
        k = x[0]
        if k in ("k", "s", "r"):
            out.add({"k": "copy", "s": "pstr", "r": "rat"}[k])
        if k == "c":
            for y in x[2]:
                go(y)
        elif k == "l":
            for y in x[1]:
                go(y)
            go(x[2])
        elif k == "s":
            go(x[2])
        elif k == "k":
            go(x[1])
    go(d)
    return ",".join(sorted(out)) or "-"


def judge(desc, writer, text, werr, rb, ot):
    """-> (label, violation kind or None, observed); the violation kind names
    the kind of disagreement and the shapes of the smallest differing subterms"""
    if werr is not None:
        return ("writer_error", "writer_error:%s exp=%s" % (werr, S.shape_desc(desc, ot)), "writer raised " + werr)
    if rb == "ok":
        q, br, sp, oo = features(text, desc, ot)
        lab = "ok" + ("+q" if q else "") + ("+b" if br else "") + ("+s" if sp else "")
        return (lab, None, text)
    exp = S.to_abstract(expected_desc(desc, writer))
    if isinstance(rb, tuple) and rb[0] == "diff":
        e, o = focus(exp, rb[1])
        return ("misread", "misread exp=%s obs=%s" % (S.shape_term(e, ot), S.shape_term(o, ot)),
                "%s reads back as %s" % (text, terms.show(rb[1])))
    if isinstance(rb, tuple) and rb[0] == "err":
        return ("unreadable", "unreadable:%s exp=%s" % (px.formal_sig(rb[1]), S.shape_term(exp, ot)),
                "%s raises %s" % (text, terms.show(rb[1])))
    return ("unreadable", "unreadable:%s exp=%s" % (terms.show(rb)[:40], S.shape_term(exp, ot)),
            "%s -> %s" % (text, terms.show(rb)))


def run_cases(w, descs, writers, ot):
    """-> list (per desc) of list (per writer) of (text, werr, rb, abn)"""
    wl = "[" + ",".join(writers) + "]"
    ra = px.run_goals(w, ["g(c15a(%s,%s))" % (S.fmt_desc(d), wl) for d in descs])
    texts = []
    goals_b = []
    for d, r in zip(descs, ra):
        if r.abn or r.status != "done":
            texts.append(None)
            continue
        ts = split_texts(r, len(writers))
        texts.append(ts)
        ds, cs = [], []
        for wname, (t, e) in zip(writers, ts):
            if t is not None:
                ds.append(S.fmt_desc(expected_desc(d, wname)))
                cs.append(S.codes(t))
        goals_b.append("g(c15b([%s],[%s],R))" % (",".join(ds), ",".join(cs)))
    rb = iter(px.run_goals(w, goals_b))
    out = []
    for d, r, ts in zip(descs, ra, texts):
        if ts is None:
            abn = r.abn or ("write step: " + terms.show(r.exc) if r.status == "exc" else "write step: " + str(r.status))
            out.append([(None, None, None, abn)] * len(writers))
            continue
        b = next(rb)
        if b.abn or b.status != "done" or len(b.sols) != 1:
            abn = b.abn or ("read step: " + (terms.show(b.exc) if b.status == "exc" else str(b.status)))
            out.append([(t, e, None, abn) for (t, e) in ts])
            continue
        rs = terms.unlist(b.sols[0]["R"])[0]
        it = iter(rs)
        row = []
        for (t, e) in ts:
            row.append((t, e, next(it) if t is not None else None, None))
        out.append(row)
    return out


def sig_of(table, writer, desc, vk, ot):
    return "%s %s %s routes=%s" % (writer, table, vk, routes_of(desc))


def run_shard(w, shard, tier):
    name, table, k, n = shard
    acc = px.ShardAcc()
    gen = _family_gen(tier, name, table)
    ot = set_table(w, table)
    try:
        mine = (d for i, d in enumerate(gen()) if i % n == k)
        for batch in px.chunked(mine, 300):
            rows = run_cases(w, batch, WRITERS, ot)
            for d, row in zip(batch, rows):
                for wname, (text, werr, rb, abn) in zip(WRITERS, row):
                    case = {"family": name, "table": table, "desc": d, "writer": wname}
                    if abn:
                        acc.case(True, "abnormal")
                        acc.violation(sig_of(table, wname, d, "abn:%s exp=%s" % (abn, S.shape_desc(d, ot)), ot), case,
                                      expected="text that reads back as a variant of " + S.show(d), observed=abn)
                        continue
                    label, vk, obs = judge(d, wname, text, werr, rb, ot)
                    nt = any(features(text, d, ot)) if text is not None else True
                    acc.case(nt, label, sample=None if len(acc.samples) >= 3 else
                             {"term": S.show(d), "table": table, "writer": WRITER_TEXT[wname], "text": text})
                    if vk:
                        acc.violation(sig_of(table, wname, d, vk, ot), case,
                                      expected="text that reads back as a variant of " + S.show(expected_desc(d, wname)),
                                      observed=obs)
    finally:
        restore_table(w, table)
    return acc.result()


def recheck(w, case, tier):
    d, table, wname = case["desc"], case["table"], case["writer"]
    ot = set_table(w, table)
    try:
        (text, werr, rb, abn), = run_cases(w, [d], [wname], ot)[0]
    finally:
        restore_table(w, table)
    exp = "text that reads back as a variant of " + S.show(expected_desc(d, wname))
    if abn:
        return {"sig": sig_of(table, wname, d, "abn:%s exp=%s" % (abn, S.shape_desc(d, ot)), ot), "case": case, "expected": exp, "observed": abn}
    label, vk, obs = judge(d, wname, text, werr, rb, ot)
    if vk:
        return {"sig": sig_of(table, wname, d, vk, ot), "case": case, "expected": exp, "observed": obs}
    return None
