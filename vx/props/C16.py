"""C16 — numeric literals and number/text conversions are exact (DESIGN §6 C16).

(a) every string of length <= 4 (quick) / 5 (thorough) over the 18-character
    alphabet  0 1 7 9 a f x o b e E . _ ' \\ + - space  through number_chars/2,
    number_codes/2 and the reader (read_term_from_chars of "<s> .").
(b) number -> text -> number for INT u RAT and a structured set of doubles
    (every binade x mantissa patterns {0, 1, all ones, 0101.., 1010..} and their
    +-1 ulp neighbours, every 10^k, classic hard cases), each double built exactly
    in the machine as M * 2.0**E; plus decimal spellings of each double (shortest,
    17 and 21 significant digits, the exact expansion, exact ties between adjacent
    doubles and their nearest neighbours) read back through number_chars/2 and the
    reader.
Oracle: a strict reference grammar for the documented literal forms with Python
int()/float() values (correctly rounded, compared bitwise); outside the grammar
only agreement between number_chars and number_codes, and "accepted as a number
=> the reader reads the same text as the same number".
"""
import itertools
import math
import os
import re
import struct
import sys
from decimal import Decimal
from fractions import Fraction

from vx.core import px, terms
from vx.model import numbers as N

if hasattr(sys, "set_int_max_str_digits"):
    sys.set_int_max_str_digits(0)

ID = "C16"
LEVEL = "exploration"
ENGINE = "PEX"
TECHNIQUE = "bounded exhaustive exploration of literal spellings against a reference grammar; structured double round trips"
LEVEL_TEXT = ("every string up to the length bound over the literal alphabet is pushed through the three text->number "
              "entry points of the real machine and judged by a strict reference grammar; a structured (not "
              "exhaustive) set of doubles covering every binade is round-tripped through every number->text->number "
              "path. 'Every finite double' is NOT enumerated.")
ALPHABET = "0179afxobeE._'\\+- "
RULE = ("(a) all strings of length <= 4 (quick) / 5 (thorough) over the 18 characters %r; (b) INT u RAT and the "
        "structured double set (all 2047 binades x 5 mantissa patterns +-1 ulp, all 10^k, hard cases) with 4-9 decimal "
        "spellings each. Non-trivial: the string is in the reference grammar and contains a radix prefix, '_', 0', an "
        "exponent; every double / spelling case." % ALPHABET)
ASSUMPTIONS = [
    "Python int() and float() are exact / correctly rounded (IEEE-754 RNE) on decimal text",
    "the reference grammar: [spaces][-] (digits(_digits)* | 0b bin | 0o oct | 0x hex | 0'c incl. '' and ISO escapes | "
    "digits.digits[(e|E)[+-]digits]); everything else is judged only by chars/codes agreement and reader consistency",
    "doubles are built in the machine as M * 2.0**E (exact if * and ** are, which C02 checks)",
    "the structured double set is a bound, not all finite doubles",
    "-0.0 and 0.0 are not distinguished",
]
MIN_OUTCOMES = 4


def maxlen(tier):
    return 5 if tier == "thorough" else 4


def bound_text(tier):
    L = maxlen(tier)
    n = sum(18 ** k for k in range(1, L + 1))
    return ("all %d strings of length <= %d over 18 characters x 3 entry points; %d structured doubles with round trips "
            "and decimal spellings; INT u RAT round trips" % (n, L, len(DOUBLES)))


# ---- reference grammar ----------------------------------------------------------------------------

ESC = {"\\\\": 92, "\\'": 39, '\\"': 34, "\\`": 96, "\\a": 7, "\\b": 8, "\\f": 12, "\\n": 10, "\\r": 13,
       "\\t": 9, "\\v": 11}
_DEC = re.compile(r"[0-9]+(_[0-9]+)*\Z")
_FLT = re.compile(r"[0-9]+\.[0-9]+([eE][+-]?[0-9]+)?\Z")


def unsigned_value(t):
    if _DEC.match(t):
        return int(t.replace("_", ""))
    m = re.match(r"0b([01]+)\Z", t)
    if m:
        return int(m.group(1), 2)
    m = re.match(r"0o([0-7]+)\Z", t)
    if m:
        return int(m.group(1), 8)
    m = re.match(r"0x([0-9a-fA-F]+)\Z", t)
    if m:
        return int(m.group(1), 16)
    if t.startswith("0'"):
        rest = t[2:]
        if len(rest) == 1 and rest not in "'\\ ":
            return ord(rest)
        if rest == "''":
            return 39
        if rest in ESC:
            return ESC[rest]
        m = re.match(r"\\([0-7]+)\\\Z", rest)
        if m and int(m.group(1), 8) < 0x110000:
            return int(m.group(1), 8)
        m = re.match(r"\\x([0-9a-fA-F]+)\\\Z", rest)
        if m and int(m.group(1), 16) < 0x110000:
            return int(m.group(1), 16)
        return None
    if _FLT.match(t):
        f = float(t)
        return None if math.isinf(f) else f
    return None


def strict_value(s):
    """the number a text of the reference grammar denotes, else None"""
    t = s.lstrip(" ")
    neg = t.startswith("-")
    if neg:
        t = t[1:]
    if not t:
        return None
    v = unsigned_value(t)
    if v is None:
        return None
    return -v if neg else v


def str_nontrivial(s):
    return bool(re.search(r"0[box']|_|[eE]", s))


def shape(s):
    out = re.sub(r"[0179]+", "d", s)
    return out.replace(" ", "s")


# ---- doubles ------------------------------------------------------------------------------------------

def from_bits(b):
    return struct.unpack("<d", struct.pack("<Q", b))[0]


def to_bits(f):
    return struct.unpack("<Q", struct.pack("<d", f))[0]


HARD = [5e-324, 2.2250738585072011e-308, 2.2250738585072014e-308, 2.225073858507201e-308, 9007199254740993.0,
        9007199254740992.0, 1e23, 8.41e21, 8.5e21, 9.5e21, 1e22, 5e-324 * 3, 1.7976931348623157e308, 0.1, 0.2, 0.3,
        1 / 3, 2 / 3, 123456789012345678.0, 4.35, 0.000001, 1e21, 1e-7, 1e15, 1e16, 1e17, 5e-5, 299792458.0,
        6.02214076e23, 1.6e-35, 8.98846567431158e307, 2.2250738585072009e-308, 4.9406564584124654e-324,
        3.141592653589793, 2.718281828459045, 1.0, 0.5, 1.5, 100.0, 1e100, 1e-100]


def _doubles():
    out = []
    seen = set()

    def add(b):
        if b <= 0 or b >= 0x7FF0000000000000:
            return
        if b not in seen:
            seen.add(b)
            out.append(b)
    pats = [0, 1, (1 << 52) - 1, 0x5555555555555, 0xAAAAAAAAAAAAA]
    for be in range(0, 2047):
        for fr in pats:
            b = (be << 52) | fr
            for d in (-1, 0, 1):
                add(b + d)
    for k in range(-323, 309):
        add(to_bits(float("1e%d" % k)))
    for f in HARD:
        add(to_bits(f))
    neg = []
    for be in range(0, 2047, 8):
        neg.append(((be << 52) | 0x5555555555555) | (1 << 63))
    for f in HARD[:12]:
        neg.append(to_bits(f) | (1 << 63))
    return out + neg


DOUBLES = _doubles()
NDSH = 48


def decomp(d):
    """d = M * 2**E with M an odd integer (E >= -1074)"""
    fr = Fraction(d)
    m, den = fr.numerator, fr.denominator
    e = -(den.bit_length() - 1)
    while m % 2 == 0 and m != 0:
        m //= 2
        e += 1
    return m, e


def dec_text(x, ndig=None):
    """scientific decimal text d.ddd..e+-XX readable by the Prolog reader (always with a fraction)"""
    D = Decimal(x.numerator) / Decimal(x.denominator) if isinstance(x, Fraction) else Decimal(x)
    return D


def sci(fr, ndig):
    """exact or rounded-to-ndig scientific text of the positive Fraction fr; ndig=None: all digits (must be finite)"""
    # digits of fr: fr = n / 2^k (binary fraction) so the expansion is finite
    n, den = fr.numerator, fr.denominator
    # scale to an integer: fr = n * 5^k / 10^k where den = 2^k
    k = den.bit_length() - 1
    digits = str(n * 5 ** k)
    exp10 = len(digits) - 1 - k
    digits = digits.rstrip("0") or "0"
    if ndig is not None and len(digits) > ndig:
        raise ValueError
    if len(digits) == 1:
        digits += "0"
    return "%s.%se%s%d" % (digits[0], digits[1:], "-" if exp10 < 0 else "+", abs(exp10))


def bump(text, up):
    """the decimal text just above / below `text`: one unit in a digit position far beyond
    double precision (at least 30 significant digits)"""
    mant, ex = text.split("e")
    ds = mant.replace(".", "")
    K = max(len(ds), 30)
    n = int(ds.ljust(K, "0")) * 10 + (1 if up else -1)
    e10 = int(ex) - K          # value = n * 10**e10
    digs = str(n)
    exp10 = e10 + len(digs) - 1
    return "%s.%se%s%d" % (digs[0], digs[1:], "-" if exp10 < 0 else "+", abs(exp10))


def spellings(d, bits):
    """[(kind, text)] for a double; the expectation is float(text)"""
    a = abs(d)
    sign = "-" if d < 0 else ""
    out = [("repr", terms.fmt_float(a)), ("e17", "%.16e" % a), ("e21", "%.20e" % a)]
    be = (bits >> 52) & 0x7FF
    rich = be % 16 == 0 or to_bits(a) in HARDBITS
    if rich:
        out.append(("exact", sci(Fraction(a), None)))
        nxt = from_bits(to_bits(a) + 1)
        if not math.isinf(nxt):
            mid = (Fraction(a) + Fraction(nxt)) / 2
            t = sci(mid, None)
            out.append(("tie", t))
            out.append(("tie_above", bump(t, True)))
            out.append(("tie_below", bump(t, False)))
    return [(k, sign + t) for k, t in out]


HARDBITS = {to_bits(f) for f in HARD}


# ---- enumeration ----------------------------------------------------------------------------------------

def shards(tier):
    L = maxlen(tier)
    sh = [("str", 1, ""), ("num",)]
    for n in range(2, L + 1):
        plen = 1 if n <= 4 else 2
        for p in itertools.product(ALPHABET, repeat=plen):
            sh.append(("str", n, "".join(p)))
    for g in range(NDSH):
        sh.append(("dbl", g))
    return sh


def gen_strings(shard):
    _, n, prefix = shard
    for tail in itertools.product(ALPHABET, repeat=n - len(prefix)):
        yield prefix + "".join(tail)


NUMS = [("i", v) for v in N.INT] + [("r", r) for r in N.RAT] + [("i", 2 ** 1024), ("i", -(10 ** 400) - 1),
                                                                  ("r", Fraction(-10 ** 30, 7))]


# ---- judging (a) -----------------------------------------------------------------------------------------

def same_number(a, b):
    if isinstance(a, bool) or isinstance(b, bool):
        return False
    if isinstance(a, float) or isinstance(b, float):
        return isinstance(a, float) and isinstance(b, float) and (to_bits(a) == to_bits(b) or (a == 0 and b == 0))
    if isinstance(a, (int, Fraction)) and isinstance(b, (int, Fraction)):
        return Fraction(a) == Fraction(b) and isinstance(a, int) == isinstance(b, int)
    return False


def is_num(x):
    return isinstance(x, (int, float, Fraction)) and not isinstance(x, bool)


def rkind(r):
    """class of one entry-point outcome"""
    if isinstance(r, tuple) and r[0] == "ok":
        x = r[1]
        if is_num(x):
            return "num"
        return "term"
    if isinstance(r, tuple) and r[0] == "e":
        return "e:" + px.formal_class(r[1])
    return str(r)


def judge_str(s, r):
    """r = ('r', RC, RD, RR) -> (label, [(sig, expected, observed)])"""
    _, rc, rd, rr = r
    kc, kd, kr = rkind(rc), rkind(rd), rkind(rr)
    viols = []
    v = strict_value(s)
    sh = shape(s)
    show = lambda x: terms.show(x)
    # A: chars and codes agree
    agree = kc == kd and (kc != "num" or same_number(rc[1], rd[1]))
    if not agree:
        viols.append(("str chars_vs_codes shape=%s chars=%s codes=%s" % (sh, kc, kd), "same outcome", "%s / %s" % (show(rc), show(rd))))
    if v is not None:
        for name, k, rx in (("number_chars", kc, rc), ("number_codes", kd, rd), ("reader", kr, rr)):
            if k != "num" or not same_number(rx[1], v):
                got = k if k != "num" else "num:wrong_value"
                viols.append(("str strict %s shape=%s got=%s" % (name, sh, got), repr(v), show(rx)))
        label = "strict:" + ("float" if isinstance(v, float) else "int")
    else:
        label = "free:%s/%s" % (kc, kr)
        if kc == "num" and not (s.endswith(".") or s.endswith(" ")):
            # accepted as a number => the reader reads the same text as the same number
            if kr != "num" or not same_number(rr[1], rc[1]):
                viols.append(("str accepted_but_reader_differs shape=%s reader=%s" % (sh, kr), show(rc), show(rr)))
    if kc.startswith("e:") and kc != "e:syntax_error":
        viols.append(("str number_chars_error_class shape=%s got=%s" % (sh, kc), "syntax_error", show(rc)))
    return label, viols


def run_strings(w, strs):
    """-> list of (s, r | abnormal str)"""
    out = []
    for batch in px.chunked(strs, 48):
        goal = "g(c16_many([%s], Rs))" % ",".join(terms.quote_string(s) if s else '""' for s in batch)
        r = px.run_goals(w, [goal])[0]
        el = None
        if not r.abn and r.status == "done" and len(r.sols) == 1:
            el, tail = terms.unlist(r.sols[0].get("Rs"))
            if tail != terms.NIL or len(el) != len(batch):
                el = None
        if el is None:
            # attribute an abnormal batch to single strings
            for s in batch:
                r1 = px.run_goals(w, ["g(c16_many([%s], Rs))" % terms.quote_string(s)])[0]
                if r1.abn:
                    out.append((s, "abnormal:" + r1.abn))
                elif r1.status != "done" or len(r1.sols) != 1:
                    out.append((s, "driver:" + str(r1.status)))
                else:
                    out.append((s, terms.unlist(r1.sols[0]["Rs"])[0][0]))
        else:
            out.extend(zip(batch, el))
    return out


# ---- judging (b) ---------------------------------------------------------------------------------------------

BACK = ["number_codes", "number_chars", "write_term_to_chars", "format_w", "format_q"]


def bucket(bits):
    be = (bits >> 52) & 0x7FF
    if be == 0:
        return "subnormal"
    if be < 1023 - 60:
        return "tiny"
    if be <= 1023 + 60:
        return "mid"
    return "huge"


def judge_back(prefix, want, back):
    viols = []
    for name, r in zip(BACK, back):
        k = rkind(r)
        if k == "term" and isinstance(want, Fraction) and isinstance(r[1], tuple) and r[1][0] == "rdiv" and len(r[1]) == 3 \
                and is_num(r[1][1]) and is_num(r[1][2]) and r[1][2] != 0 and Fraction(r[1][1]) / Fraction(r[1][2]) == want:
            continue   # a rational prints as the evaluable term N rdiv D, which denotes the same number
        if k != "num" or not same_number(r[1], want):
            viols.append(("%s back:%s got=%s" % (prefix, name, k if k != "num" else "num:wrong_value"),
                          repr(want), terms.show(r)))
    return viols


def judge_dbl(bits, r):
    d = from_bits(bits)
    pre = "dbl %s%s" % ("neg_" if bits >> 63 else "", bucket(bits))
    if isinstance(r, str):
        return "abnormal", [(pre + " " + r, "round trips", r)]
    _, a, back, reads = r
    viols = []
    if not (isinstance(a, float) and to_bits(a) == bits):
        viols.append((pre + " construct_or_print got=%s" % ("float:wrong_value" if isinstance(a, float) else rkind(("ok", a))),
                      repr(d), terms.show(a)))
        return "dbl", viols
    viols += judge_back(pre, d, terms.unlist(back)[0])
    rl = terms.unlist(reads)[0]
    for (kind, text), pair in zip(spellings(d, bits), rl):
        want = float(text)
        for name, rx in (("number_chars", pair[1]), ("reader", pair[2])):
            k = rkind(rx)
            if k != "num" or not same_number(rx[1], want):
                off = ""
                if k == "num" and isinstance(rx[1], float):
                    off = ":off_by_%d_ulp" % abs(to_bits(abs(rx[1])) - to_bits(abs(want))) if (rx[1] < 0) == (want < 0) else ":sign"
                viols.append(("%s spell:%s %s got=%s%s" % (pre, kind, name, k, off), "%s -> %r" % (text[:60], want), terms.show(rx)))
    return "dbl", viols


def dbl_goal(bits):
    d = from_bits(bits)
    m, e = decomp(d)
    sp = ",".join(terms.quote_string(t) for _, t in spellings(d, bits))
    return "g(c16_dbl(%s, %s, [%s], R))" % (terms.fmt_num(m), terms.fmt_num(e), sp)


def run_dbls(w, bitlist):
    out = []
    rs = px.run_goals(w, [dbl_goal(b) for b in bitlist])
    for b, r in zip(bitlist, rs):
        if r.abn:
            out.append((b, "abnormal:" + r.abn))
        elif r.status != "done" or len(r.sols) != 1:
            out.append((b, "driver:%s:%s" % (r.status, px.formal_sig(r.formal()) if r.status == "exc" else len(r.sols))))
        else:
            out.append((b, r.sols[0]["R"]))
    return out


def num_val(o):
    return o[1]


def num_enc(o):
    return "%s:%s" % (o[0], o[1])


def num_dec(s):
    k, v = s.split(":", 1)
    return Fraction(v) if k == "r" else int(v)


def run_num(w, s):
    v = num_dec(s)
    r = px.run_goals(w, ["g(c16_num(%s, R))" % terms.fmt_num(v)])[0]
    pre = "num %s" % ("rat" if isinstance(v, Fraction) else N.mag_class(v))
    if r.abn:
        return [(pre + " abnormal:" + r.abn, "round trips", r.abn)]
    if r.status != "done" or len(r.sols) != 1:
        return [(pre + " driver:%s" % r.status, "round trips", str(r.exc))]
    _, a, back = r.sols[0]["R"]
    if not same_number(a, v):
        return [(pre + " construct_or_print", repr(v), terms.show(a))]
    return judge_back(pre, v, terms.unlist(back)[0])


# ---- module interface ---------------------------------------------------------------------------------------------

def setup(w, tier):
    with open(os.path.join(os.path.dirname(os.path.dirname(os.path.abspath(__file__))), "prolog", "C16_helpers.pl")) as f:
        r = w.consult(f.read(), persist=True)
    if r.get("out", "").strip():
        raise px.pool.MachineryError("C16 helpers: %r" % (r,))
    w.setup_cases.append("g(X = 0.0) .")
    px.run_goals(w, ["g(X = 0.0)"])


def run_shard(w, shard, tier):
    acc = px.ShardAcc()
    k = shard[0]
    if k == "str":
        for s, r in run_strings(w, list(gen_strings(shard))):
            if isinstance(r, str):
                label, viols = "abnormal", [("str %s shape=%s" % (r, shape(s)), "three outcomes", r)]
            else:
                label, viols = judge_str(s, r)
            acc.case(strict_value(s) is not None and str_nontrivial(s), label, sample={"text": s, "outcome": label})
            for sig, exp, got in viols:
                acc.violation(sig, {"str": s, "focus": sig}, expected=exp, observed=got)
    elif k == "num":
        for o in NUMS:
            s = num_enc(o)
            viols = run_num(w, s)
            acc.case(True, "num:" + ("viol" if viols else "ok"), sample={"number": s})
            for sig, exp, got in viols:
                acc.violation(sig, {"num": s, "focus": sig}, expected=exp, observed=got)
    else:
        g = shard[1]
        mine = [b for i, b in enumerate(DOUBLES) if i % NDSH == g]
        for batch in px.chunked(mine, 100):
            for b, r in run_dbls(w, batch):
                label, viols = judge_dbl(b, r)
                acc.case(True, label + (":viol" if viols else ":ok"), sample={"double": from_bits(b).hex()})
                acc.extra["spellings_read"] += 2 * len(spellings(from_bits(b), b))
                for sig, exp, got in viols:
                    acc.violation(sig, {"dbl": "%016x" % b, "focus": sig}, expected=exp, observed=got)
    return acc.result()


def recheck(w, case, tier):
    if "str" in case:
        (s, r), = run_strings(w, [case["str"]])
        if isinstance(r, str):
            viols = [("str %s shape=%s" % (r, shape(s)), "three outcomes", r)]
        else:
            viols = judge_str(s, r)[1]
    elif "num" in case:
        viols = run_num(w, case["num"])
    else:
        b = int(case["dbl"], 16)
        (_, r), = run_dbls(w, [b])
        viols = judge_dbl(b, r)[1]
    if not viols:
        return None
    pick = viols[0]
    for v in viols:
        if v[0] == case.get("focus"):
            pick = v
    return {"sig": pick[0], "case": case, "expected": pick[1], "observed": pick[2]}
