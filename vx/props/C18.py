"""C18 — text decoding does not depend on how input arrives (DESIGN §6 C18).

Engine RMC-char: harness/src/bin/mc_char.rs drives the real CharReader (hook
H6) over every byte string up to a length bound over a 10-byte alphabet, every
partition of it into read chunks and every consumption policy built from
{read, peek-read, peek-peek-read, read-put_back-read}; the reference is the
chunk-independent UTF-8 decoding of the whole string. A second family prefixes
1..5 ASCII bytes so that the buffer cursor takes every value when a boundary is
hit. A Prolog-level conformance family writes the same byte strings to files
and reads them with get_char/2 and peek_char/2 through a real Machine.
"""
import json
import os
import subprocess

from vx.core import pool, px, terms

ID = "C18"
LEVEL = "model_checking"
ENGINE = "RMC-char"
BINS = ("pworker", "mc_char")
NEEDS_WORKER = False
TECHNIQUE = ("stateless exhaustive exploration of the real CharReader under a controlled byte source: "
             "all chunk partitions x consumption policies, compared with a chunk-independent reference decoder")
RULE = ("every byte string of length <= L over {61 C3 A9 E2 82 AC F0 9F 80 FF} x every partition into non-empty "
        "read chunks (2^(n-1)) x every per-item policy from {read, peek+read, peek+peek+read, read+put_back+read} "
        "(all 4^k for k<=4 items, else uniform + single deviations); prefix family: 1..5 ASCII bytes before the string, "
        "all partitions, uniform policies. Non-trivial: a chunk boundary falls inside a multi-byte (or invalid) sequence.")
LEVEL_TEXT = ("every environment choice (where each read is split, when the consumer peeks/puts back) is owned by the "
              "harness and enumerated exhaustively for the stated bound; each execution runs the real CharReader")
ASSUMPTIONS = ["std::str::from_utf8 defines the reference decoding (prefix semantics; an incomplete tail at end of input is one invalid sequence)",
               "after an invalid sequence the consumer skips exactly the reported bytes, as the crate's own test does",
               "the byte source returns one chunk per read call and then end of input"]
MIN_OUTCOMES = 5
MC = os.path.join(pool.BUILD, "release", "mc_char")


def bound_text(tier):
    return "strings <= %d bytes (all partitions, all policies); prefix family L<=%d, P<=5; Prolog-level files <= %d bytes" % (
        (5, 4, 3) if tier == "thorough" else (4, 3, 2))


def shards(tier):
    L = 5 if tier == "thorough" else 4
    PL = 4 if tier == "thorough" else 3
    sh = [("mc", 0, 0, 0)]
    for n in range(1, L + 1):
        for f in range(10):
            sh.append(("mc", n, f, 0))
    for n in range(1, PL + 1):
        for p in range(1, 6):
            for f in range(10):
                sh.append(("mc", n, f, p))
    for f in range(10):
        sh.append(("pl", 3 if tier == "thorough" else 2, f))
    # big shards first
    sh.sort(key=lambda s: -(s[1] * 10 + (s[3] if s[0] == "mc" else 0)))
    return sh


def run_mc(args):
    p = subprocess.run([MC] + [str(a) for a in args], capture_output=True, timeout=3000)
    if p.returncode != 0:
        raise pool.MachineryError("mc_char exited %d: %s" % (p.returncode, p.stderr.decode()[-400:]))
    return json.loads(p.stdout.decode())


def run_shard(w, shard, tier):
    if shard[0] == "pl":
        return run_pl(shard, tier)
    _, n, f, p = shard
    d = run_mc(["explore", n, f, p])
    acc = px.ShardAcc()
    acc.evals = d["executions"]
    acc.nontrivial = d["nontrivial"]
    acc.states = d["strings"]
    acc.transitions = d["executions"]
    acc.outcomes["ref_decodings_%d_%d_%d" % (n, f, p)] = d["distinct_outcomes"]
    acc.outcomes["ok"] = d["executions"] - d["nviol"]
    acc.extra["byte_strings"] = d["strings"]
    acc.samples.append({"shard": list(shard), "strings": d["strings"], "executions": d["executions"]})
    for v in d["violations"]:
        acc.violation("mc: " + v["sig"], {"kind": "mc", "bytes": v["bytes"], "cuts": v["cuts"], "policy": v["policy"]},
                      expected=v["expected"], observed=v["observed"])
    acc.nviol = d["nviol"]
    return acc.result()


# --- Prolog-level conformance ------------------------------------------------

ALPHA = [0x61, 0xC3, 0xA9, 0xE2, 0x82, 0xAC, 0xF0, 0x9F, 0x80, 0xFF]

PL_HELPER = r"""
vx18_read(S, Mode, N, Items) :-
    ( N =< 0 -> Items = [cap]
    ; catch(vx18_one(S, Mode, C), E, C = err(E)),
      ( C = err(error(F, _)) -> functor(F, FN, _), Items = [error(FN)]
      ; C = err(B) -> Items = [ball(B)]
      ; C == end_of_file -> Items = [eof]
      ; Items = [C|Rest], N1 is N - 1, vx18_read(S, Mode, N1, Rest) ) ).
vx18_one(S, get, C) :- get_char(S, C).
vx18_one(S, peekget, C) :- peek_char(S, P), get_char(S, C), ( P == C -> true ; throw(peek_differs(P, C)) ).
vx18_file(Path, Mode, Items) :-
    open(Path, read, S),
    catch(vx18_read(S, Mode, 12, Items), E, (close(S), throw(E))),
    close(S).
"""


def ref_prefix(bs):
    """chars up to the first invalid sequence, and whether the rest is clean"""
    out = []
    p = 0
    while p < len(bs):
        try:
            s = bs[p:].decode("utf-8")
            out.extend(s)
            return out, True
        except UnicodeDecodeError as e:
            out.extend(bs[p:p + e.start].decode("utf-8"))
            return out, False
    return out, True


def gen_strings(n, first):
    import itertools
    for k in range(1, n + 1):
        for rest in itertools.product(ALPHA, repeat=k - 1):
            yield bytes([ALPHA[first]] + list(rest))


def judge_pl(r, bs):
    exp, clean = ref_prefix(bs)
    if r.abn:
        return "abnormal", r.abn
    if r.status != "done" or len(r.sols) != 1:
        return "nosol", "status=%s" % r.status
    items, tail = terms.unlist(r.sols[0]["Items"])
    chars = [i for i in items if isinstance(i, str) and i not in ("eof", "cap")]
    last = items[-1] if items else None
    got_chars = items[:-1]
    if got_chars != exp:
        return "chars", "chars=%r" % (got_chars,)
    if clean:
        if last != "eof":
            return "noeof", "last=%r" % (last,)
        return None, "ok_clean"
    # after the first invalid sequence the stream may raise, report end of file
    # (eof_action) — the statement only fixes the position of the error
    if last == "cap":
        return "cap", "never stops"
    return None, "ok_invalid"


def run_pl(shard, tier):
    _, n, first = shard
    w = pool.Worker()
    try:
        w.consult(PL_HELPER, persist=True)
        acc = px.ShardAcc()
        base = os.path.join(pool.WORK, "c18", str(os.getpid()))
        cases = []
        for i, bs in enumerate(gen_strings(n, first)):
            path = os.path.join(base, "f%d.txt" % i)
            w.put_file(path, bs)
            for mode in ("get", "peekget"):
                cases.append((bs, mode, path))
        for batch in px.chunked(cases, 200):
            rs = px.run_goals(w, ["vx18_file(%s, %s, Items)" % (terms.quote_string(p), m) for (_, m, p) in batch])
            for (bs, mode, path), r in zip(batch, rs):
                vk, obs = judge_pl(r, bs)
                nt = any(b >= 0x80 for b in bs)
                acc.case(nt, vk or obs, sample={"bytes": bs.hex(), "mode": mode})
                if vk:
                    acc.violation("pl %s %s" % (mode, vk if vk != "abnormal" else obs),
                                  {"kind": "pl", "bytes": bs.hex(), "mode": mode},
                                  expected=repr(ref_prefix(bs)), observed=obs)
        return acc.result()
    finally:
        w.close()
        import shutil
        shutil.rmtree(os.path.join(pool.WORK, "c18", str(os.getpid())), ignore_errors=True)


def recheck(w, case, tier):
    if case["kind"] == "mc":
        d = run_mc(["replay", case["bytes"], case["cuts"], case["policy"]])
        if d["violations"]:
            v = d["violations"][0]
            return {"sig": "mc: " + v["sig"], "case": case, "expected": v["expected"], "observed": v["observed"]}
        return None
    bs = bytes.fromhex(case["bytes"])
    ww = pool.Worker()
    try:
        ww.consult(PL_HELPER, persist=True)
        path = os.path.join(pool.WORK, "c18", "replay_%d.txt" % os.getpid())
        ww.put_file(path, bs)
        r = px.run_goals(ww, ["vx18_file(%s, %s, Items)" % (terms.quote_string(path), case["mode"])])[0]
        vk, obs = judge_pl(r, bs)
        os.unlink(path)
        if vk:
            return {"sig": "pl %s %s" % (case["mode"], vk if vk != "abnormal" else obs), "case": case,
                    "expected": repr(ref_prefix(bs)), "observed": obs}
        return None
    finally:
        ww.close()
