"""C11 - backtracking restores exactly the pre-goal state (DESIGN section 6, C11).

Consulted clauses  t(A,B,O) :- Pre, Construct(Inner), Observe  where Pre creates
variables of every age relative to the choice point of the construct (query
variables, a permanent stack variable, heap variables allocated just before
the choice point: h == hb-1 and hb-2), Inner is a sequence of bindings /
global-variable / attribute updates to those variables, and the construct
undoes it (failure inside \\+, an if-then-else condition, findall/3, catch/3
recovery, an exhausted disjunction, forall/2, \\+ \\+, backtracking into an
older disjunction).  Observe reports every variable, the two blackboard keys
and the attribute of every target in O.  Oracle: REF (persistent
substitution), i.e. everything unbound before is unbound again, earlier
bindings are kept, bb_b_put and attributes revert, bb_put persists.
"""
import itertools

from vx.core import px, terms
from vx.core.terms import V, fmt, mklist
from vx.model import refprolog as R
from vx.model import c07_space as S
from vx.model import c07_harness as H

ID = "C11"
LEVEL = "exploration"
ENGINE = "PEX+REF"
TECHNIQUE = "bounded exhaustive enumeration of (variable age, binding sequence, undoing construct) against a persistent-substitution model"
RULE = ("clauses t(A,B,O) :- Pre, Construct(Inner), Observe: 5 Pre shapes (no local; a permanent stack variable; a heap "
        "variable at hb-1; two at hb-2/hb-1; both kinds), Inner = every sequence of <=2 (quick) / <=3 over a reduced "
        "alphabet (thorough) updates from {T=1, T=f(T'), T=T', T=\"ab\", bb_b_put, bb_put, put_atts(T)} over the "
        "variables in scope, 10 undoing constructs, queries t(A,B,O) and t(A,A,O); family G: two global keys that "
        "already hold a bb_put, bb_b_put, bb_put+bb_b_put or twice-bb_b_put value before the choice point, then every "
        "sequence of <=2 (quick) / <=3 (thorough) of {bb_b_put, bb_put, bb_get on either key, A=1} inside each construct, "
        "heap allocation after it, bb_get of both keys. A case is one (program, query). "
        "Non-trivial: Inner binds or attributes a variable that is older than the choice point of the construct "
        "(it must be trailed), or updates a global variable.")
LEVEL_TEXT = ("exhaustive within the stated bound on binding sequences and variable ages, including the trail "
              "condition's boundary cell; every program runs on the real machine and is compared exactly")
ASSUMPTIONS = ["REF's persistent substitution is the model of 'state before the goal'",
               "library(atts) with an accept-all verify_attributes/3 hook in module user",
               "bb_put and bb_b_put are used on different keys (mixing them on one key is order dependent)",
               "driver transport"]
MIN_OUTCOMES = 4
BATCH = 200

HELPER_TEXT = (":- use_module(library(atts)).\n:- attribute a/1.\nverify_attributes(_, _, []).\n"
               "true_(_).\n")
HELPER_CLAUSES = [("true_", V("_x"))]

A, B, O, L, M, N, K = [V(x) for x in "A B O L M N K".split()]

# Pre shapes: (name, goals, targets in scope)
PRES = [
    ("none", [], [A, B]),
    ("perm", [("true_", L)], [A, B, L]),
    ("hb1", [("=", M, ("g", N))], [A, B, N]),
    ("hb2", [("=", M, ("g", N, K))], [A, B, N, K]),
    ("perm+hb1", [("true_", L), ("=", M, ("g", N))], [A, B, L, N]),
]


def bound_text(tier):
    if tier == "thorough":
        return "5 Pre shapes x 10 constructs x all update sequences <=2, and <=3 over the reduced alphabet; G: 8 pre-states x sequences <=3 x 10 constructs"
    return "5 Pre shapes x 10 constructs x all update sequences <=2 (full alphabet <=1, reduced alphabet for 2); G: 8 pre-states x sequences <=2 x 10 constructs"


def updates(targets, full):
    out = []
    for t in targets:
        out.append(("=", t, 1))
        out.append(("put_atts", t, ("a", 1)))
        if full:
            out.append(("=", t, mklist(["a", "b"])))
    for t in targets:
        for u in targets:
            if t is not u:
                out.append(("=", t, u))
            if full or t is not u:
                out.append(("=", t, ("f", u)))
    out.append(("bb_b_put", "kb", 1))
    out.append(("bb_put", "kp", 2))
    return out


def constructs(inner):
    """(name, goal) for each undoing construct around the update sequence `inner` (a list of goals)"""
    c = S.conj(inner)
    cf = S.conj(inner + ["fail"])
    S1 = V("S")
    return [
        ("not", ("\\+", cf)),
        ("notnot", ("\\+", ("\\+", c))),
        ("ite-cond", (";", ("->", cf, "true"), "true")),
        ("findall", ("findall", "x", c, V("_R"))),
        ("catch", ("catch", S.conj(inner + [("throw", "x")]), V("_E"), "true")),
        ("disj", (";", cf, "true")),
        ("forall", ("forall", c, "true")),
        ("call-disj", ("call", (";", cf, "true"))),
        ("older-cp", (",", (";", ("=", S1, 1), ("=", S1, 2)),
                      (",", (";", ("->", ("==", S1, 1), c), "true"), ("==", S1, 2)))),
        ("once-undo", (",", (";", ("=", S1, 1), ("=", S1, 2)),
                       (",", (";", ("->", ("==", S1, 1), ("once", c)), "true"), ("==", S1, 2)))),
    ]


def observe(targets):
    obs = []
    rs = []
    for i, t in enumerate(targets):
        r = V("R%d" % i)
        rs.append(r)
        obs.append((";", ("->", ("get_atts", t, ("a", V("W%d" % i))), ("=", r, ("has", V("W%d" % i)))), ("=", r, "none")))
    obs.append(("bb_get", "kb", V("Vb")))
    obs.append(("bb_get", "kp", V("Vp")))
    obs.append(("=", O, ("o", mklist(targets), mklist(rs), V("Vb"), V("Vp"), M)))
    return obs


def seqs(targets, tier):
    full = updates(targets, True)
    red = updates(targets, False)
    for u in full:
        yield [u]
    two = full if tier == "thorough" else red
    for u in two:
        for v in two:
            yield [u, v]
    if tier == "thorough":
        small = [x for x in red if not (x[0] == "=" and type(x[2]) is tuple)]
        for u in small:
            for v in small:
                for w in small:
                    yield [u, v, w]


QUERIES = [("t", A, B, O), ("t", A, A, O)]

# family G: global variables that already hold a value (backtrackable or not) before the
# choice point, updated again on the same key (and on a second key) inside the undone goal
G_PRE1 = [("put", [("bb_put", "k1", 0)]), ("bput", [("bb_b_put", "k1", 0)]),
          ("put+bput", [("bb_put", "k1", 7), ("bb_b_put", "k1", 0)]),
          ("bput2", [("bb_b_put", "k1", 0), ("bb_b_put", "k1", 5)])]
G_PRE2 = [("put", [("bb_put", "k2", 0)]), ("bput", [("bb_b_put", "k2", 0)])]
G_UPD = [("bb_b_put", "k1", 1), ("bb_b_put", "k1", ("f", A)), ("bb_put", "k1", 3), ("bb_get", "k1", V("_W")),
         ("bb_b_put", "k2", 1), ("bb_put", "k2", 3), ("=", A, 1)]


def g_seq_ok(seq):
    """a bb_put after a bb_b_put on the same key inside the undone goal is implementation specific"""
    bput = set()
    for u in seq:
        if u[0] == "bb_b_put":
            bput.add(u[1])
        elif u[0] == "bb_put" and u[1] in bput:
            return False
    return True


def g_programs(tier):
    Zv, V1, V2 = V("Z"), V("V1"), V("V2")
    lens = (1, 2, 3) if tier == "thorough" else (1, 2)
    for n1, p1 in G_PRE1:
        for n2, p2 in G_PRE2:
            for n in lens:
                for inner in itertools.product(G_UPD, repeat=n):
                    inner = list(inner)
                    if not g_seq_ok(inner):
                        continue
                    for cname, cgoal in constructs(inner):
                        body = S.conj(p1 + p2 + [cgoal, ("=", Zv, ("h", 1, 2, 3)), ("bb_get", "k1", V1),
                                                 ("bb_get", "k2", V2), ("=", O, ("o", V1, V2, A, Zv))])
                        yield {"pre": "G:%s/%s" % (n1, n2), "construct": cname,
                               "clauses": [(":-", ("t", A, B, O), body)], "inner": inner, "targets": [A]}


def programs(pre_i, tier):
    name, pre, targets = PRES[pre_i]
    init = [("bb_put", "kb", 0), ("bb_put", "kp", 0)]
    for inner in seqs(targets, tier):
        for cname, cgoal in constructs(inner):
            body = S.conj(init + pre + [cgoal] + observe(targets))
            yield {"pre": name, "construct": cname, "clauses": [(":-", ("t", A, B, O), body)], "inner": inner,
                   "targets": targets}


def shards(tier):
    m = 24 if tier == "thorough" else 4
    mg = 16 if tier == "thorough" else 4
    return [("P", i, k, m) for i in range(len(PRES)) for k in range(m)] + [("G", 0, k, mg) for k in range(mg)]


def setup(w, tier):
    w.consult(HELPER_TEXT, persist=True)


def nontrivial(p):
    """an update hits a variable older than the construct's choice point, or a global variable"""
    for u in p["inner"]:
        if u[0] in ("bb_b_put", "bb_put"):
            return True
        if u[0] in ("=", "put_atts") and type(u[1]) is V:
            return True   # every target in scope was created before the construct
    return False


def rename(t, suf):
    if type(t) is tuple:
        n = t[0] + suf if (t[0] == "t" and len(t) == 4) else t[0]
        return (n,) + tuple(rename(a, suf) for a in t[1:])
    return t


def base_ref():
    return R.RefProlog(HELPER_CLAUSES)


def ref_result(base, clauses, q):
    r = H.fork_ref(base, clauses)
    ans, st = r.solve(q, H.SOL_CAP, H.REF_STEPS)
    return ans, st


def mask(res):
    """error contexts are never compared"""
    from vx.props.C12 import mask_result
    return mask_result(res)


def classify(p, exp, obs):
    kind = H.kind_of(exp, obs)
    return "%s/%s %s [%s]" % (p["pre"], p["construct"], kind, " ".join(sorted(set(u[0] if u[0] != "=" else
                              ("=struct" if type(u[2]) is tuple and u[2][0] == "f" else
                               "=str" if type(u[2]) is tuple else "=var" if type(u[2]) is V else "=int")
                              for u in p["inner"]))))


def run_batch(w, base, batch, acc, n0):
    text = []
    for i, p in enumerate(batch):
        p["suf"] = "_%d" % (n0 + i)
        text += [H.clause_text(rename(c, p["suf"])) for c in p["clauses"]]
    r = w.consult("".join(text))
    out = (r.get("out") or "") + (r.get("err") or "")
    if "error(" in out:
        raise RuntimeError("consult failed: " + H.strip_warnings(out))
    goals = []
    for p in batch:
        for q in QUERIES:
            goals.append("g(%s)" % fmt(rename(q, p["suf"])))
    rs = px.run_goals(w, goals)
    gi = 0
    for p in batch:
        for qi, q in enumerate(QUERIES):
            exp = ref_result(base, p["clauses"], q)
            r = rs[gi]
            gi += 1
            if exp[1] in ("sto", "budget"):
                acc.case(False, "skipped:" + exp[1])
                continue
            exp = mask(exp)
            obs = mask(H.impl_answers(r, R.term_vars(q)))
            lab = "%s n=%d" % (p["construct"], len(exp[0]))
            if isinstance(exp[1], tuple):
                lab = "error:" + px.formal_sig(R.formal_of(exp[1][1]))
            smp = None
            if len(acc.samples) < 3:
                smp = {"clause": fmt(p["clauses"][0]), "query": fmt(q), "expected": H.show_result(exp),
                       "observed": H.show_result(obs)}
            acc.case(nontrivial(p), lab, sample=smp)
            if not H.same_result(exp, obs):
                acc.violation(classify(p, exp, obs),
                              {"pre": p["pre"], "construct": p["construct"], "inner": [S.enc(u) for u in p["inner"]],
                               "clauses": [S.enc(c) for c in p["clauses"]], "query": S.enc(q)},
                              expected=H.show_result(exp), observed=H.show_result(obs))


def run_shard(w, shard, tier):
    acc = px.ShardAcc()
    base = base_ref()
    w.new_machine()
    _, pre_i, k, m = shard
    n = 0
    src = g_programs(tier) if shard[0] == "G" else programs(pre_i, tier)
    gen = (p for i, p in enumerate(src) if i % m == k)
    for batch in px.chunked(gen, BATCH):
        run_batch(w, base, batch, acc, n)
        n += len(batch)
    return acc.result()


def recheck(w, case, tier):
    clauses = [S.dec(c) for c in case["clauses"]]
    q = S.dec(case["query"])
    p = {"pre": case["pre"], "construct": case["construct"], "inner": [S.dec(u) for u in case["inner"]],
         "clauses": clauses, "suf": "_rc"}
    base = base_ref()
    text = "".join(H.clause_text(rename(c, "_rc")) for c in clauses)
    r = w.consult(text)
    res = px.run_goals(w, ["g(%s)" % fmt(rename(q, "_rc"))])[0]
    exp = ref_result(base, clauses, q)
    if exp[1] in ("sto", "budget"):
        return None
    exp = mask(exp)
    obs = mask(H.impl_answers(res, R.term_vars(q)))
    if H.same_result(exp, obs):
        return None
    return {"sig": classify(p, exp, obs), "case": case, "expected": H.show_result(exp), "observed": H.show_result(obs)}
