"""C41 — JSON text and JSON terms convert faithfully both ways (DESIGN §6 C41).

Every JSON value of depth <= 2 (thorough: 3) over a 24-scalar alphabet, in a
compact and a whitespace-laden text form, is parsed with
phrase(json_chars(J), Cs), compared with Python's json (mapped to the term
forms documented in json.pl), generated back with once(phrase(json_chars(J),
Out)), the generated text is parsed by Python *and* by Scryer again. Every
single-character deletion / substitution of 46 base documents is classified
by Python's strict parser: valid mutants must parse to the same value,
invalid ones must never be accepted.
"""
import itertools
import json
from fractions import Fraction

from vx.core import px
from vx.core.terms import mklist, unlist, chars_list, list_to_str, NIL

ID = "C41"
LEVEL = "exploration"
ENGINE = "PEX"
TECHNIQUE = "bounded exhaustive input sweep against Python json (strict), both directions, plus exhaustive single-character mutation of valid documents"
LEVEL_TEXT = "exhaustive enumeration of small JSON values and of all one-character mutants of a document corpus"
RULE = ("values: scalars (24), arrays of <= 2 and objects of <= 2 members (keys from 3) over the scalars, thorough: one more nesting "
        "level over a reduced member set; x {compact, whitespace} text forms. Mutants: every single-character deletion and every "
        "substitution by one of 12 characters of 46 base documents. Non-trivial: the value contains an escape, a non-ASCII "
        "character, an exponent/fraction, nesting, or the text is invalid.")
ASSUMPTIONS = ["Python json.loads (strict, NaN/Infinity rejected) decides validity; numbers are compared by exact value "
               "(an integer-valued result may be an integer or a float)", "an unpaired surrogate escape must be rejected or replaced by U+FFFD",
               "driver transport"]
MIN_OUTCOMES = 5


def qchars(s):
    out = ['"']
    for c in s:
        o = ord(c)
        if c in '"\\':
            out.append("\\" + c)
        elif 0x20 <= o < 0x7f:
            out.append(c)
        else:
            out.append("\\x%x\\" % o)
    out.append('"')
    return "".join(out)


# --------------------------------------------------------------------------
# scalar alphabet: JSON text forms

SCALARS = ["null", "true", "false", "0", "-1", "12", "1.5", "-0.0", "1e2", "1E-2", "1180591620717411303425", "0.1", "1.15",
           "2.5E+3", "1e-7", '""', '"a"', '"é"', '"\\""', '"\\\\"', '"\\n"', '"\\u00e9"', '"\\ud83d\\ude00"', '"\\u0000"',
           '"\\/\\b\\f\\r\\t"', '"\U0001f600"', '"a\\u0041b"', '"\x7f"']
KEYS = ['"a"', '""', '"k\\né"']
SMALL = ["null", "-1", "1.5", '"a"', '"\\ud83d\\ude00"', "[]", "{}", '[1,"x"]', '{"a":null}']

WS_FORMS = [("", ""), (" ", "\n\t\r ")]


def compose(kind, members, ws):
    """members: list of texts (array) or (key text, value text) (object); ws = (a, b) inserted around tokens"""
    a, b = ws
    if kind == "arr":
        if not members:
            return "[" + a + "]"
        return "[" + ",".join(a + m + b for m in members) + "]"
    if not members:
        return "{" + b + "}"
    return "{" + ",".join(a + k + b + ":" + a + v + b for k, v in members) + "}"


def value_texts(tier):
    """-> list of (text, nested?)"""
    out = []
    for ws in WS_FORMS:
        for s in SCALARS:
            out.append((ws[0] + s + ws[1], False))
        if ws == WS_FORMS[0]:
            pass
        for n in range(0, 3):
            for ms in itertools.product(SCALARS, repeat=n):
                out.append((ws[1] + compose("arr", list(ms), ws) + ws[0], True))
        for n in range(0, 3):
            for ks in itertools.product(KEYS, repeat=n):
                vals = SCALARS if n < 2 else SCALARS[::3]
                for vs in itertools.product(vals, repeat=n):
                    out.append((compose("obj", list(zip(ks, vs)), ws), True))
    if tier == "thorough":
        inner = []
        for n in range(0, 3):
            for ms in itertools.product(SMALL, repeat=n):
                inner.append(compose("arr", list(ms), WS_FORMS[0]))
        for n in range(0, 3):
            for ks in itertools.product(KEYS[:2], repeat=n):
                for vs in itertools.product(SMALL, repeat=n):
                    inner.append(compose("obj", list(zip(ks, vs)), WS_FORMS[0]))
        inner = inner[::2]
        for ws in WS_FORMS:
            for m in inner:
                out.append((compose("arr", [m], ws), True))
                out.append((compose("obj", [('"a"', m)], ws), True))
            for m1, m2 in itertools.product(inner[::9], repeat=2):
                out.append((compose("arr", [m1, m2], ws), True))
                out.append((compose("obj", [('"a"', m1), ('"b"', m2)], ws), True))
    # dedupe, keep order
    seen = set()
    res = []
    for t in out:
        if t[0] not in seen:
            seen.add(t[0])
            res.append(t)
    return res


def number_texts():
    out = []
    for sign in ("", "-"):
        for ip in ("0", "1", "12", "123"):
            for fr in ("", ".0", ".5", ".25", ".15", ".456", ".025"):
                for ex in ("", "e0", "e1", "E+2", "e-1", "e-7", "e10", "e22", "e23", "e31", "e-31", "e300", "e-300"):
                    out.append(sign + ip + fr + ex)
    out += ["1.7976931348623157e308", "2.2250738585072014e-308", "9007199254740993", "0.30000000000000004", "1e400", "-1e400",
            "123456789012345678901234567890", "0.1e1", "100e-2", "1.0E+0"]
    return out


HIGHS = ["D800", "D801", "DBFE", "DBFF"]
LOWS = ["DC00", "DC01", "DFFE", "DFFF"]


def _cases(h):
    mixed = "".join(c.lower() if i % 2 else c for i, c in enumerate(h))
    return [h, h.lower(), mixed]


def surrogate_texts():
    """boundary surrogate pairs (valid), the same code points written literally, and the invalid
    neighbours (a high not followed by a low, a low first, lone halves)"""
    out = []
    for h in HIGHS:
        for lo in LOWS:
            cp = 0x10000 + ((int(h, 16) - 0xD800) << 10) + (int(lo, 16) - 0xDC00)
            for hv, lv in zip(_cases(h), _cases(lo)):
                esc = "\\u%s\\u%s" % (hv, lv)
                out += ['"%s"' % esc, '"x%sy"' % esc, '["%s",1]' % esc, '{"%s":"%s"}' % (esc, esc)]
            out += ['"%s"' % chr(cp), '"a%sb"' % chr(cp), '{"%s":[ "%s" ]}' % (chr(cp), chr(cp)), '"%s\\u%s\\u%s"' % (chr(cp), h, lo)]
    out.append('"\\uD800\\uDC00\\uDBFF\\uDFFF"')
    out.append('"\\udbff\\udfff\\ud800\\udc00"')
    for h in HIGHS:
        for bad in ("DBFF", "E000", "D800", "0041", "DBFE", "FFFF"):
            out.append('"\\u%s\\u%s"' % (h, bad))
            out.append('"\\u%s\\u%s"' % (h.lower(), bad.lower()))
        out += ['"\\u%s"' % h, '"\\u%sx"' % h, '"a\\u%s"' % h, '["\\u%s","\\uDC00"]' % h, '"\\u%s\\n\\uDC00"' % h, '"\\u%s\\uDC0"' % h]
    for lo in LOWS:
        out += ['"\\u%s"' % lo, '"\\u%s\\uD800"' % lo, '"a\\u%sb"' % lo, '"\\u%s\\u%s"' % (lo, lo), '"\\u%s"' % lo.lower()]
    seen, res = set(), []
    for t in out:
        if t not in seen:
            seen.add(t)
            res.append(t)
    return res


BASE_DOCS = ["null", "true", "false", "0", "-1", "12", "1.5", "-0.0", "1e2", "1E-2", "10.25e+3", '""', '"a"', '"a b"', '"\\n"', '"\\""',
             '"\\\\"', '"\\u00e9"', '"\\ud83d\\ude00"', '"é"', "[]", "[1]", "[1,2]", '["a",null]', "[[]]", "[[1],[2]]", "{}",
             '{"a":1}', '{"a":1,"b":2}', '{"a":{"b":[]}}', '{"":""}', ' [ 1 , 2 ] ', '{ "a" : [ true , false ] }', "\n[\n]\n",
             "-12", "0.5", "1e+2", "100", '"\\/"', '"\\t"', "[null,true,false]", '{"a":"b"}', "[1.5,-2]", '[""]', "[{}]", '{"a":[]}']
SUBST = ['"', "\\", ",", ":", "0", "1", "x", " ", "{", "]", "-", "."]


def mutants():
    seen = set(BASE_DOCS)
    out = []
    for d in BASE_DOCS:
        for i in range(len(d)):
            m = d[:i] + d[i + 1:]
            if m not in seen:
                seen.add(m)
                out.append(m)
            for c in SUBST:
                m = d[:i] + c + d[i + 1:]
                if m not in seen:
                    seen.add(m)
                    out.append(m)
        for c in SUBST:
            m = d + c
            if m not in seen:
                seen.add(m)
                out.append(m)
    extra = ["", " ", "01", "1.", ".5", "-", "+1", "1e", "tru", "nul", "[1,]", "{,}", '{"a":1,}', "[1 2]", '"\\x"', '"\t"', "'a'",
             "[", "]", '{"a"}', "{a:1}", '{"a":}', '"\\u12"', '"\\u12G4"', "nulll", "[1]]", "1 2", "NaN", "Infinity", "-Infinity",
             '"\x00"', '"\x1f"', "[1,,2]", '{"a":1 "b":2}', "00", "-01", "1e+", "1.e1", "  1", "1\x0b", "[\"a\" \"b\"]",
             '{"a":1}}', '"abc', 'abc"', "True", "NULL", "0x10", "1_000", '"\\ud83d"', '"\\ude00"', '"\\ud83dx"']
    for m in extra:
        if m not in seen:
            seen.add(m)
            out.append(m)
    return out


# --------------------------------------------------------------------------
# oracle

class Num:
    def __init__(self, text):
        self.text = text
        self.exact = Fraction(text)
        try:
            self.nearest = float(text)
        except (ValueError, OverflowError):
            self.nearest = None

    def close(self, obs):
        """a float within 4 ulps of the correctly rounded value (diagnosis only)"""
        import math
        if not isinstance(obs, float) or self.nearest is None or math.isinf(self.nearest) or math.isinf(obs):
            return False
        return abs(obs - self.nearest) <= 4 * math.ulp(self.nearest)

    def matches(self, obs):
        if isinstance(obs, bool):
            return False
        if isinstance(obs, int):
            return self.exact == obs
        if isinstance(obs, float):
            return self.nearest is not None and obs == self.nearest and (obs != 0.0 or True)
        return False

    def __repr__(self):
        return "Num(%s)" % self.text


class Reject(Exception):
    pass


def _const(s):
    raise Reject(s)


def py_parse(text):
    """-> python value with Num leaves | raises ValueError/Reject"""
    return json.loads(text, parse_float=Num, parse_int=Num, parse_constant=_const, object_pairs_hook=lambda ps: ("obj", ps))


def has_lone_surrogate(v):
    if isinstance(v, str):
        return any(0xD800 <= ord(c) <= 0xDFFF for c in v)
    if isinstance(v, list):
        return any(has_lone_surrogate(x) for x in v)
    if isinstance(v, tuple) and v[0] == "obj":
        return any(has_lone_surrogate(k) or has_lone_surrogate(x) for k, x in v[1])
    return False


def replace_lone(v):
    if isinstance(v, str):
        return "".join("\ufffd" if 0xD800 <= ord(c) <= 0xDFFF else c for c in v)
    if isinstance(v, list):
        return [replace_lone(x) for x in v]
    if isinstance(v, tuple) and v[0] == "obj":
        return ("obj", [(replace_lone(k), replace_lone(x)) for k, x in v[1]])
    return v


def term_matches(v, t, approx=False):
    """python value (with Num) against an observed json term"""
    if approx and isinstance(v, Num):
        return isinstance(t, tuple) and len(t) == 2 and t[0] == "number" and (v.matches(t[1]) or v.close(t[1]))
    if v is None:
        return t == "null"
    if v is True or v is False:
        return t == ("boolean", "true" if v else "false")
    if isinstance(v, Num):
        return isinstance(t, tuple) and len(t) == 2 and t[0] == "number" and v.matches(t[1])
    if isinstance(v, str):
        if not (isinstance(t, tuple) and len(t) == 2 and t[0] == "string"):
            return False
        s = "" if t[1] == NIL else list_to_str(t[1])
        return s == v
    if isinstance(v, list):
        if not (isinstance(t, tuple) and len(t) == 2 and t[0] == "list"):
            return False
        el, tail = unlist(t[1])
        return tail == NIL and len(el) == len(v) and all(term_matches(a, b, approx) for a, b in zip(v, el))
    if isinstance(v, tuple) and v[0] == "obj":
        if not (isinstance(t, tuple) and len(t) == 2 and t[0] == "pairs"):
            return False
        el, tail = unlist(t[1])
        if tail != NIL or len(el) != len(v[1]):
            return False
        for (k, x), p in zip(v[1], el):
            if not (isinstance(p, tuple) and len(p) == 3 and p[0] == "-" and term_matches(k, p[1]) and term_matches(x, p[2], approx)):
                return False
        return True
    return False


def show_val(v):
    if isinstance(v, Num):
        return v.text
    if isinstance(v, list):
        return "[" + ",".join(show_val(x) for x in v) + "]"
    if isinstance(v, tuple) and v[0] == "obj":
        return "{" + ",".join("%s:%s" % (show_val(k), show_val(x)) for k, x in v[1]) + "}"
    return json.dumps(v)


def show_term(t):
    from vx.core.terms import show
    s = show(t)
    return s if len(s) < 300 else s[:300] + "..."


def features(text):
    f = []
    low = text.lower()
    import re
    if re.search(r"\\ud[89ab][0-9a-f]{2}\\ud[c-f][0-9a-f]{2}", low):
        f.append("surrogate_pair")
    elif re.search(r"\\ud[89a-f][0-9a-f]{2}", low):
        f.append("lone_surrogate")
    if "\\u0000" in low:
        f.append("nul")
    if "\\u" in low:
        f.append("u_escape")
    if re.search(r'\\["\\/bfnrt]', text):
        f.append("simple_escape")
    if any(ord(c) > 0x7f for c in text):
        f.append("nonascii")
    if re.search(r"[0-9][eE]", text):
        f.append("exponent")
    if re.search(r"[0-9]\.[0-9]", text):
        f.append("fraction")
    if any(c in text for c in "[{"):
        f.append("nested")
    return f or ["plain"]


# --------------------------------------------------------------------------

NSH = 24


def shards(tier):
    return [("values", i) for i in range(NSH)] + [("mutants", i) for i in range(8)] + [("numbers", i) for i in range(4)] + [("surrogates", i) for i in range(4)]


def bound_text(tier):
    return "%d value texts (depth <= %d, 2 whitespace forms) + %d number literals + %d surrogate-boundary texts + %d one-character mutants / hand-written invalid texts" % (
        len(value_texts(tier)), 3 if tier == "thorough" else 2, len(number_texts()), len(surrogate_texts()), len(mutants()))


def setup(w, tier):
    w.consult(":- use_module(library(serialization/json)).\n:- use_module(library(dcgs)).\n", persist=True)


def command(text):
    return ("g((Cs = %s, vx_all(J, phrase(json_chars(J),Cs), 3, Js, St), "
            "( Js = [J0|_] -> vx_first(Out, phrase(json_chars(J0),Out), Rg), "
            "( Rg = sol(O) -> vx_all(J2, phrase(json_chars(J2),O), 3, J2s, St2) ; true ) ; true )), 1)" % qchars(text))


def judge(text, r):
    """-> list of (stage, label, violation kind | None, expected, observed)"""
    out = []
    try:
        v = py_parse(text)
        valid = True
    except (ValueError, Reject, RecursionError):
        v = None
        valid = False
    if r.abn:
        return [("parse", "abnormal", r.abn, "no crash", r.abn)]
    if r.status == "exc" or len(r.sols) != 1:
        what = "exc:" + px.formal_sig(r.formal()) if r.status == "exc" else "command_failed"
        return [("parse", "abnormal", "command_" + what, "one record", repr(r)[:200])]
    sol = r.sols[0]
    js, _ = unlist(sol.get("Js"))
    st = sol.get("St")
    err = isinstance(st, tuple) and st[0] == "error"
    if valid and has_lone_surrogate(v):
        # an unpaired surrogate is not a character: the text must be rejected, or at the very least the
        # half must become U+FFFD — it may never be decoded to some other character silently
        if not js:
            return [("parse", "lone_surrogate:rejected", None, "rejected (or U+FFFD)", None)]
        if all(term_matches(replace_lone(v), j) for j in js):
            return [("parse", "lone_surrogate:replaced", None, "rejected (or U+FFFD)", None)]
        return [("parse", "sol", "misdecodes_lone_surrogate", "rejected (or U+FFFD for the unpaired half)", "; ".join(show_term(j) for j in js))]
    if not valid:
        if js:
            return [("parse", "accepted", "accepts_invalid", "failure or error", show_term(js[0]))]
        return [("parse", "rejected:" + ("error" if err else "fail"), None, "failure or error", None)]
    et = show_val(v)
    if err and not js:
        return [("parse", "error", "unexpected_error:" + px.formal_sig(st[1]), et, "error " + show_term(st[1]))]
    if not js:
        return [("parse", "fail", "rejects_valid", et, "no parse")]
    if not all(term_matches(v, j) for j in js):
        kind = "number_inexact" if all(term_matches(v, j, True) for j in js) else "wrong_term"
        return [("parse", "sol", kind, et, "; ".join(show_term(j) for j in js))]
    if err:
        return [("parse", "sol+error", "error_after_answer:" + px.formal_sig(st[1]), et, show_term(st[1]))]
    out.append(("parse", "%dsol" % len(js), None, et, None))
    # generation
    rg = sol.get("Rg")
    if not (isinstance(rg, tuple) and rg[0] == "sol"):
        kind = "generate_unexpected_error:" + px.formal_sig(rg[1]) if isinstance(rg, tuple) and rg[0] == "error" else "generate_fails"
        out.append(("generate", "nosol", kind, "JSON text for " + et, show_term(rg)))
        return out
    gen = "" if rg[1] == NIL else list_to_str(rg[1])
    if gen is None:
        out.append(("generate", "sol", "generate_not_chars", "JSON text", show_term(rg[1])))
        return out
    try:
        v2 = py_parse(gen)
        ok = same_value(v, v2)
    except (ValueError, Reject):
        ok = False
    if not ok:
        out.append(("generate", "sol", "generated_text_wrong", "JSON text denoting " + et, repr(gen)))
        return out
    out.append(("generate", "sol", None, et, None))
    j2s, _ = unlist(sol.get("J2s"))
    st2 = sol.get("St2")
    if not j2s or not all(term_matches(v, j) for j in j2s):
        kind = ("reparse_error:" + px.formal_sig(st2[1]) if isinstance(st2, tuple) and st2[0] == "error" else
                ("reparse_number_inexact" if j2s and all(term_matches(v, j, True) for j in j2s) else "reparse_differs"))
        out.append(("reparse", "bad", kind, et, "generated %r reparsed as %s" % (gen, "; ".join(show_term(j) for j in j2s))))
    else:
        out.append(("reparse", "same", None, et, None))
    return out


def same_value(a, b):
    if isinstance(a, Num) and isinstance(b, Num):
        return a.exact == b.exact or (a.nearest is not None and a.nearest == b.nearest)
    if isinstance(a, list) and isinstance(b, list):
        return len(a) == len(b) and all(same_value(x, y) for x, y in zip(a, b))
    if isinstance(a, tuple) and isinstance(b, tuple):
        return len(a[1]) == len(b[1]) and all(k1 == k2 and same_value(x, y) for (k1, x), (k2, y) in zip(a[1], b[1]))
    if isinstance(a, (Num, list, tuple)) or isinstance(b, (Num, list, tuple)):
        return False
    return a == b and type(a) is type(b)


def run_texts(w, items, acc, fam):
    viols = []
    for batch in px.chunked(items, 150):
        rs = px.run_goals(w, [command(t) for t, _ in batch])
        for (text, nt), r in zip(batch, rs):
            feats = features(text)
            for stage, label, vk, et, ot in judge(text, r):
                if acc is not None:
                    acc.case(nt, "%s:%s" % (stage, label), sample={"text": text[:80], "expected": et[:120]})
                if vk:
                    v = {"sig": "%s %s %s %s" % (fam, stage, feats[0], vk), "case": {"fam": fam, "text": text, "stage": stage},
                         "expected": et, "observed": ot}
                    viols.append(v)
                    if acc is not None:
                        acc.violation(v["sig"], v["case"], v["expected"], v["observed"])
    return viols


def nontrivial(text, nested):
    f = features(text)
    return nested or f != ["plain"]


def run_shard(w, shard, tier):
    acc = px.ShardAcc()
    if shard[0] == "values":
        items = [(t, nontrivial(t, n)) for k, (t, n) in enumerate(value_texts(tier)) if k % NSH == shard[1]]
        run_texts(w, items, acc, "value")
    elif shard[0] == "surrogates":
        items = [(m, True) for k, m in enumerate(surrogate_texts()) if k % 4 == shard[1]]
        run_texts(w, items, acc, "surrogate")
    elif shard[0] == "numbers":
        items = [(m, True) for k, m in enumerate(number_texts()) if k % 4 == shard[1]]
        run_texts(w, items, acc, "number")
    else:
        items = [(m, True) for k, m in enumerate(mutants()) if k % 8 == shard[1]]
        run_texts(w, items, acc, "mutant")
    return acc.result()


def recheck(w, case, tier):
    vs = run_texts(w, [(case["text"], True)], None, case["fam"])
    vs = [v for v in vs if v["case"].get("stage") == case.get("stage")] or vs
    return vs[0] if vs else None
