"""C55 — writeq/print quote exactly as ISO requires; write never quotes;
write_canonical ignores operators (DESIGN §6 C55).

Part 1 (atoms): every atom of length 0..3 over a 25-character class alphabet,
built with atom_codes/2, alone / as f(A) / as [A], through writeq/1, write/1,
write_canonical/1, write_term/2 [quoted(true)]. Oracle: the ISO quoting
classifier and strict quoted-token decoder in vx/model/c55_textio.py.
Part 2 (canonical): write_canonical/1 and write_term [quoted, ignore_ops] of
every C15 term under every C15 operator table must parse with an
*operator-free* Python parser to exactly the abstract term.
"""
import itertools
from fractions import Fraction

from vx.core import px, terms
from vx.model import c15_space as S
from vx.model import c55_textio as TX
from vx.props import C15

ID = "C55"
LEVEL = "exploration"
ENGINE = "PEX"
TECHNIQUE = "bounded exhaustive enumeration of atoms (quoting classifier oracle) and of terms (operator-free parser oracle)"
ALPHA = ["a", "B", "1", "_", "+", "-", "*", "/", ".", "\\", ":", "!", ";", ",", "|", "[", "]", "{", "}", "(",
         "'", " ", "\n", "\x01", "é"]
ALPHA_T = ALPHA + [")", "\"", "`", "%", "\t", "€", "#", "^", "0", "z"]
RULE = ("part 1: every atom of length 0..3 (quick) over the 25-character class alphabet {a B 1 _ + - * / . \\ : ! ; , | [ ] "
        "{ } ( ' space newline U+0001 e-acute} (thorough: length 0..2 over 35 characters in addition), plus 400 atoms made of 16 "
        "non-ASCII white-space / format / combining / private-use / supplementary-plane characters (alone, doubled, paired, at the "
        "start, middle and end of an atom), built with atom_codes/2, "
        "x {alone, f(A), [A]} x {writeq, write, write_canonical, write_term quoted}; part 2: every term of the C15 space "
        "x every C15 operator table x {write_canonical, write_term [quoted,ignore_ops]}. Non-trivial: the atom is not a "
        "plain lowercase identifier (part 1); the term contains an operator functor or a list (part 2).")
LEVEL_TEXT = ("bounded exhaustive exploration of the real printer against an independently written ISO quoting "
              "classifier and an operator-free term parser")
ASSUMPTIONS = ["driver transport (op-free case text)", "atom_codes/2 and =../2 build the terms",
               "ISO 6.4.2 token classes as coded in vx/model/c55_textio.py (all-ASCII atoms: exact; atoms with "
               "non-ASCII characters: only round trip is required)",
               "print/1 is not defined in this tree (skipped)",
               "write_canonical may print lists either in '.'-notation or bracket notation"]
MIN_OUTCOMES = 4
WR = ["wq", "wr", "wc", "tq"]
CTX = ["alone", "arg", "elem"]
NPART = 16


def atoms(tier):
    out = [""]
    for n in (1, 2, 3):
        for t in itertools.product(ALPHA, repeat=n):
            out.append("".join(t))
    seen0 = set(out)
    for a in S.uni_atoms():
        if a not in seen0:
            seen0.add(a)
            out.append(a)
    for u in S.UNI_CHARS:
        for v in S.UNI_CHARS[:10]:
            for a in (u + v, "a" + u + v):
                if a not in seen0:
                    seen0.add(a)
                    out.append(a)
    if tier == "thorough":
        seen = set(out)
        for n in (1, 2):
            for t in itertools.product(ALPHA_T, repeat=n):
                a = "".join(t)
                if a not in seen:
                    seen.add(a)
                    out.append(a)
    return out


def bound_text(tier):
    c = S.count_families(tier)
    return "%d atoms x 3 contexts x 4 writers; canonical output of %d (term, table) pairs x 2 writers" % (
        len(atoms(tier)), sum(x[2] for x in c))


def shards(tier):
    sh = [("atoms", k, NPART) for k in range(NPART)]
    for s in C15.shards(tier):
        sh.append(("canon",) + tuple(s))
    return sh


def setup(w, tier):
    w.consult(S.helper_text(), persist=True)


# --------------------------------------------------------------------------
# part 1
def quoted_ok(text, atom):
    try:
        return TX.decode_quoted(text) == atom
    except TX.ParseError:
        return False


def atom_text_class(text, atom, quoted_writer):
    """-> 'bare' | 'quoted' | None (neither a faithful bare nor a faithful quoted form)"""
    if text == atom:
        return "bare"
    if quoted_writer and text.startswith("'") and quoted_ok(text, atom):
        return "quoted"
    return None


def strip_ctx(text, ctx, writer):
    """text of f(A) / [A] -> the atom's text inside, or None. Optional brackets
    (and a space) around an operand are not C55's business."""
    if ctx == "alone":
        return text
    if ctx == "arg":
        if not (text.startswith("f(") and text.endswith(")")):
            return None
        inner = text[2:-1]
    else:
        if text.startswith("[") and text.endswith("]"):
            inner = text[1:-1]
        elif writer == "wc" and text.startswith("'.'(") and text.endswith(",[])"):
            inner = text[4:-4]
        else:
            return None
    return inner


def unbracket(inner):
    s = inner.strip(" ")
    if s.startswith("(") and s.endswith(")") and len(s) > 2:
        return s[1:-1]
    return None


def judge_atom(atom, ctx, writer, text):
    """-> (label, violation kind or None)"""
    inner = strip_ctx(text, ctx, writer)
    if inner is None:
        return ("bad_context", "bad_context")
    qw = writer != "wr"
    cands = [inner]
    u = unbracket(inner)
    if ctx != "alone" and u is not None:
        cands.append(u)
    cls = None
    for c in cands:
        cls = atom_text_class(c, atom, qw)
        if cls:
            break
    if writer == "wr":
        if cls == "bare":
            return ("write:raw", None)
        return ("write:altered", "write_altered")
    if TX.is_ascii(atom):
        want = TX.quote_class(atom)
        if cls is None:
            return ("unfaithful", "unfaithful_want_" + want)
        if cls != want:
            return ("misquoted", "%s_but_must_be_%s" % (cls, want))
        return (cls, None)
    if cls is None:
        return ("unfaithful", "unfaithful_nonascii")
    return (cls + "_nonascii", None)


def char_class(c):
    if c in TX.LOWER:
        return "l"
    if c in TX.UPPER:
        return "U"
    if c in TX.DIGITS:
        return "9"
    if c == "_":
        return "_"
    if c in TX.SYMBOL_CHARS:
        return "#"
    if c in "!;,|[]{}()%":
        return c
    if c in "'\"`":
        return c
    if c == " ":
        return "s"
    if c == "\n" or c == "\t":
        return "n"
    if ord(c) < 32:
        return "c"
    return "u"


def atom_sig(atom):
    if TX.is_ascii(atom) and all(c in TX.SYMBOL_CHARS for c in atom) and atom:
        return "sym:" + atom if len(atom) <= 3 else "sym"
    return "".join(char_class(c) for c in atom) or "empty"


def run_atoms(w, ats):
    """-> list per atom of dict (ctx, writer) -> text, or abn string"""
    rs = px.run_goals(w, ["g(c55a(%s))" % S.codes(a) for a in ats])
    out = []
    for a, r in zip(ats, rs):
        if r.abn or r.status != "done":
            out.append(r.abn or ("exc: " + terms.show(r.exc) if r.status == "exc" else str(r.status)))
            continue
        parts = r.text.split("\x02")[1:]
        if len(parts) != 12:
            out.append("unexpected output shape: %d parts" % len(parts))
            continue
        d = {}
        i = 0
        for ctx in CTX:
            for wr in WR:
                d[(ctx, wr)] = parts[i]
                i += 1
        out.append(d)
    return out


def readback(w, ats, texts):
    rs = px.run_goals(w, ["g(c55b(%s,%s,R))" % (S.codes(a), S.codes(t)) for a, t in zip(ats, texts)])
    out = []
    for r in rs:
        if r.abn:
            out.append("abn:" + r.abn)
        elif r.status == "done" and len(r.sols) == 1:
            x = r.sols[0]["R"]
            out.append("ok" if x == "ok" else ("diff" if isinstance(x, tuple) and x[0] == "diff" else "err"))
        else:
            out.append("err")
    return out


def atom_shard(w, k, n, tier, acc):
    mine = [a for i, a in enumerate(atoms(tier)) if i % n == k]
    for batch in px.chunked(mine, 400):
        obs = run_atoms(w, batch)
        good = [(a, o) for a, o in zip(batch, obs) if isinstance(o, dict)]
        rbs = {}
        for wr in ("wq", "wc", "tq"):
            for (a, _), rb in zip(good, readback(w, [a for a, _ in good], [o[("alone", wr)] for _, o in good])):
                rbs[(a, wr)] = rb
        for a, o in zip(batch, obs):
            nt = not (a and a[0] in TX.LOWER and all(c in TX.ALNUM for c in a))
            if not isinstance(o, dict):
                acc.case(nt, "abnormal")
                acc.violation("atom abn:%s %s" % (o, atom_sig(a)), {"kind": "atom", "atom": a}, expected="12 texts", observed=o)
                continue
            for ctx in CTX:
                for wr in WR:
                    label, vk = judge_atom(a, ctx, wr, o[(ctx, wr)])
                    acc.case(nt, "%s:%s" % (wr, label),
                             sample=None if len(acc.samples) >= 3 else {"atom": a, "context": ctx, "writer": wr, "text": o[(ctx, wr)]})
                    if vk:
                        acc.violation("atom %s %s %s %s" % (wr, ctx, vk, atom_sig(a)),
                                      {"kind": "atom", "atom": a, "ctx": ctx, "writer": wr},
                                      expected=expected_text(a, wr), observed=o[(ctx, wr)])
            for wr in ("wq", "wc", "tq"):
                rb = rbs.get((a, wr))
                acc.case(nt, "readback:" + rb)
                if rb != "ok":
                    acc.violation("atom %s readback_%s %s" % (wr, rb, atom_sig(a)),
                                  {"kind": "atom", "atom": a, "ctx": "readback", "writer": wr},
                                  expected="text that reads back to the atom", observed=o[("alone", wr)])


def expected_text(a, wr):
    if wr == "wr":
        return "the atom's characters unchanged"
    if TX.is_ascii(a):
        return "unquoted" if TX.quote_class(a) == "bare" else "a quoted token denoting the atom"
    return "bare or quoted text denoting the atom"


# --------------------------------------------------------------------------
# part 2
CANON_WR = ["wc", "tqi"]


def canon_expected(desc):
    """abstract term with rationals as rdiv(N,D) compounds"""
    def fix(t):
        if isinstance(t, Fraction):
            return ("rdiv", t.numerator, t.denominator)
        if isinstance(t, tuple):
            return tuple([t[0]] + [fix(x) for x in t[1:]])
        return t
    return fix(S.to_abstract(desc))


def judge_canon(desc, text, ot):
    """-> (label, violation kind or None, observed)"""
    exp = canon_expected(desc)
    try:
        got = TX.parse_canonical(text)
    except TX.ParseError as e:
        return ("not_canonical", "not_functional exp=%s" % S.shape_desc(desc, ot)[:80], "%s (%s)" % (text, e))
    if TX.same_modulo_vars(exp, got):
        return ("canonical", None, text)
    e, o = C15.focus(exp, got)
    return ("wrong_term", "wrong_term exp=%s obs=%s" % (S.shape_term(e, ot), S.shape_term(o, ot)),
            "%s denotes %s" % (text, terms.show(got)))


def has_structure(d, ot):
    k = d[0]
    if k == "c":
        return ot.fclass(d[1], len(d[2])) != "fn" or any(has_structure(x, ot) for x in d[2])
    if k in ("l", "s"):
        return True
    if k == "k":
        return has_structure(d[1], ot)
    return False


def run_canon(w, descs):
    wl = "[" + ",".join(CANON_WR) + "]"
    rs = px.run_goals(w, ["g(c15a(%s,%s))" % (S.fmt_desc(d), wl) for d in descs])
    out = []
    for r in rs:
        if r.abn or r.status != "done":
            out.append(r.abn or ("exc: " + terms.show(r.exc) if r.status == "exc" else str(r.status)))
        else:
            out.append(C15.split_texts(r, len(CANON_WR)))
    return out


def canon_shard(w, shard, tier, acc):
    name, table, k, n = shard
    gen = C15._family_gen(tier, name, table)
    ot = C15.set_table(w, table)
    try:
        mine = (d for i, d in enumerate(gen()) if i % n == k)
        for batch in px.chunked(mine, 400):
            for d, o in zip(batch, run_canon(w, batch)):
                nt = has_structure(d, ot)
                for j, wr in enumerate(CANON_WR):
                    case = {"kind": "canon", "table": table, "desc": d, "writer": wr}
                    if not isinstance(o, list):
                        acc.case(nt, "abnormal")
                        acc.violation("canon %s %s abn:%s exp=%s" % (wr, table, o, S.shape_desc(d, ot)), case,
                                      expected="canonical text of " + S.show(d), observed=o)
                        continue
                    text, werr = o[j]
                    if werr:
                        acc.case(nt, "writer_error")
                        acc.violation("canon %s %s writer_error:%s exp=%s" % (wr, table, werr, S.shape_desc(d, ot)), case,
                                      expected="canonical text of " + S.show(d), observed="writer raised " + werr)
                        continue
                    label, vk, obs = judge_canon(d, text, ot)
                    acc.case(nt, "canon:" + label,
                             sample=None if len(acc.samples) >= 3 else {"term": S.show(d), "table": table, "writer": wr, "text": text})
                    if vk:
                        acc.violation("canon %s %s %s routes=%s" % (wr, table, vk, C15.routes_of(d)), case,
                                      expected="functional-notation text denoting " + S.show(d), observed=obs)
    finally:
        C15.restore_table(w, table)


def run_shard(w, shard, tier):
    acc = px.ShardAcc()
    if shard[0] == "atoms":
        atom_shard(w, shard[1], shard[2], tier, acc)
    else:
        canon_shard(w, shard[1:], tier, acc)
    return acc.result()


def recheck(w, case, tier):
    if case["kind"] == "atom":
        a = case["atom"]
        o = run_atoms(w, [a])[0]
        if not isinstance(o, dict):
            return {"sig": "atom abn:%s %s" % (o, atom_sig(a)), "case": case, "expected": "12 texts", "observed": o}
        if case["ctx"] == "readback":
            wr = case.get("writer", "wq")
            rb = readback(w, [a], [o[("alone", wr)]])[0]
            if rb != "ok":
                return {"sig": "atom %s readback_%s %s" % (wr, rb, atom_sig(a)), "case": case,
                        "expected": "text that reads back to the atom", "observed": o[("alone", wr)]}
            return None
        ctx, wr = case["ctx"], case["writer"]
        label, vk = judge_atom(a, ctx, wr, o[(ctx, wr)])
        if vk:
            return {"sig": "atom %s %s %s %s" % (wr, ctx, vk, atom_sig(a)), "case": case,
                    "expected": expected_text(a, wr), "observed": o[(ctx, wr)]}
        return None
    d, table, wr = case["desc"], case["table"], case["writer"]
    ot = C15.set_table(w, table)
    try:
        o = run_canon(w, [d])[0]
    finally:
        C15.restore_table(w, table)
    exp = "functional-notation text denoting " + S.show(d)
    if not isinstance(o, list):
        return {"sig": "canon %s %s abn:%s exp=%s" % (wr, table, o, S.shape_desc(d, ot)), "case": case, "expected": exp, "observed": o}
    text, werr = o[CANON_WR.index(wr)]
    if werr:
        return {"sig": "canon %s %s writer_error:%s exp=%s" % (wr, table, werr, S.shape_desc(d, ot)), "case": case,
                "expected": exp, "observed": "writer raised " + werr}
    label, vk, obs = judge_canon(d, text, ot)
    if vk:
        return {"sig": "canon %s %s %s routes=%s" % (wr, table, vk, C15.routes_of(d)), "case": case, "expected": exp, "observed": obs}
    return None
