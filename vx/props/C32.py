"""C32 — concurrent machines intern atoms consistently (DESIGN §6 C32).

Engine RMC-sched: harness/src/bin/mc_atoms.rs runs the real
AtomTable::build_with on real OS threads under a baton scheduler (hook H8):
exactly one thread runs at a time and control changes hands only at the 11
shared-state steps of the interning slow path (two epoch reads, the lookup's
table read, lock, two re-check reads, alloc, grow+replace, byte write, table
publish, unlock) and at a reader's as_str. All schedules are enumerated by
depth-first search over choice lists, iteratively bounded by the number of
preemptions; the 2-thread x 1-intern harnesses are explored with no bound at
all in the thorough tier. A fresh 64-byte atom table per execution forces
growth after one or two atoms.
"""
import json
import os
import subprocess

from vx.core import pool, px

ID = "C32"
LEVEL = "model_checking"
ENGINE = "RMC-sched"
BINS = ("pworker", "mc_atoms")
NEEDS_WORKER = False
TECHNIQUE = ("stateless model checking of the real interning code under a controlled (baton) scheduler: "
             "exhaustive DFS over schedules with iterative preemption bounding; invariant checked after every execution")
RULE = ("harnesses: 2 threads x 1 intern over text pairs (same, disjoint, long/growth), 2 x 2 interns, 3 threads, "
        "2 interning threads + 1 reader; every schedule with at most b preemptions (b per harness and tier, 99 = all "
        "interleavings). Non-trivial: another thread ran between a thread's lookup miss and its lock acquisition, or "
        "the table grew during the execution.")
LEVEL_TEXT = ("every interleaving of the listed harnesses at hook granularity within the preemption bound is executed "
              "on the real code; after each: one atom per text, re-intern returns the same atom, text preserved, "
              "one table entry per dynamic text, no deadlock/livelock")
ASSUMPTIONS = ["sequentially consistent interleavings at the granularity of the H8 scheduling points; reorderings allowed by Relaxed/Acquire atomics and races inside the arcu crate are not explored",
               "the model lock (acquire/release hooks) stands for the update mutex; the real mutex is therefore never contended",
               "text comparisons made during a table lookup are not scheduling points (their number depends on the table's random hash seed)"]
MIN_OUTCOMES = 3
MC = os.path.join(pool.BUILD, "release", "mc_atoms")

QUICK = {"A_SS": 3, "A_SD": 3, "A_SL": 3, "A_LL": 3, "A_LL2": 3, "A_DD": 3, "A_PI": 3,
         "B_SD_DS": 2, "B_LS_SL": 2, "B_SS_SS": 2, "C_SSS": 2, "C_SLD": 1, "D_read": 2}
THOROUGH = {"A_SS": 99, "A_SD": 99, "A_SL": 99, "A_LL": 99, "A_LL2": 99, "A_DD": 99, "A_PI": 99,
            "B_SD_DS": 4, "B_LS_SL": 4, "B_SS_SS": 4, "C_SSS": 3, "C_SLD": 3, "D_read": 4}


def bound_text(tier):
    return "preemption bounds per harness: %s" % json.dumps(THOROUGH if tier == "thorough" else QUICK, sort_keys=True)


def shards(tier):
    d = THOROUGH if tier == "thorough" else QUICK
    return sorted(([h, b] for h, b in d.items()), key=lambda x: -x[1])


def run_mc(args, timeout=3000):
    p = subprocess.run([MC] + [str(a) for a in args], capture_output=True, timeout=timeout)
    out = p.stdout.decode()
    if p.returncode == 3:
        return {"fatal": json.loads(out.strip().splitlines()[-1])}
    if p.returncode != 0:
        raise pool.MachineryError("mc_atoms exited %d: %s" % (p.returncode, p.stderr.decode()[-400:]))
    return json.loads(out)


def run_shard(w, shard, tier):
    h, b = shard
    acc = px.ShardAcc()
    # the harness owns every choice: the default schedule replays identically
    d0 = run_mc(["replay", h, ""])
    if "fatal" in d0 or not d0.get("deterministic"):
        raise pool.MachineryError("mc_atoms: default schedule of %s does not replay deterministically: %r" % (h, d0))
    r = run_mc(["explore", h, b])
    if "fatal" in r:
        f = r["fatal"]
        acc.case(True, "fatal")
        acc.violation("sched %s: %s" % (h, f.get("fatal")), {"harness": h, "choices": ",".join(map(str, f.get("choices", [])))},
                      observed=f)
        return acc.result()
    if not r["complete"]:
        raise pool.MachineryError("mc_atoms: exploration of %s capped" % h)
    if r["schedules"] > 10 and r["retry_path"] == 0 and h not in ("A_PI",) and b >= 1:
        raise pool.MachineryError("mc_atoms: vacuous exploration of %s (retry path never taken)" % h)
    acc.evals = r["schedules"]
    acc.nontrivial = r["nontrivial"]
    acc.states = r["distinct_finals"]
    acc.transitions = r["schedules"] * r["max_steps"]
    acc.outcomes["ok"] = r["schedules"] - r["nviol"]
    acc.outcomes["retry_path"] = r["retry_path"]
    acc.outcomes["growth_path"] = r["growth_path"]
    acc.outcomes["finals_%s" % h] = r["distinct_finals"]
    acc.extra["schedules_%s_b%d" % (h, b)] = r["schedules"]
    acc.samples.append({"harness": h, "bound": b, "schedules": r["schedules"], "retry_path": r["retry_path"],
                        "growth_path": r["growth_path"], "max_steps": r["max_steps"]})
    for v in r["violations"]:
        acc.violation("sched %s: %s" % (h, v["sig"]), {"harness": h, "choices": v["choices"]},
                      observed={"error": v["observed"], "trace": v["trace"]})
    acc.nviol = r["nviol"]
    return acc.result()


def recheck(w, case, tier):
    r = run_mc(["replay", case["harness"], case["choices"]], timeout=120)
    if "fatal" in r:
        return {"sig": "sched %s: %s" % (case["harness"], r["fatal"].get("fatal")), "case": case, "observed": r}
    if not r["deterministic"]:
        return {"sig": "nondeterministic replay", "case": case, "observed": r}
    if r["error"] is None:
        return None
    return {"sig": "sched %s: %s" % (case["harness"], r["sig"]), "case": case, "observed": r["error"]}
