"""C01 — integer arithmetic is exact at every magnitude (DESIGN §6 C01).

Space: every binary functor x INT x INT in both operand encodings, every unary
functor x INT, shifts x SHIFT, ^ over a base/exponent alphabet; thorough adds
depth-2 nests over a boundary sub-alphabet. Oracle: Python int.
"""
import itertools

from vx.core import px
from vx.model import numbers as N

ID = "C01"
LEVEL = "exploration"
ENGINE = "PEX"
RULE = ("all (functor, operand, operand) combinations over the boundary-value integer alphabet "
        "(43 values x 2 heap encodings), shifts over SHIFT, ^ over a base/exponent alphabet; "
        "thorough adds depth-2 nests over a 12-value sub-alphabet. Non-trivial: an operand or "
        "the exact result lies outside the 56-bit small-integer range, or an error is expected.")
ASSUMPTIONS = ["Python int arithmetic is exact", "driver transport (read_term_from_chars, write/1 of integers)",
               "negative shift counts are implementation defined and only required not to crash"]
MIN_OUTCOMES = 3


def bound_text(tier):
    return "all pairs over INT(%d)x2 encodings" % len(N.INT) + ", 13 binary + 5 unary functors, shifts, ^" + (
        "; depth-2 nests over 12 values" if tier == "thorough" else "")


POW_BASE = [0, 1, -1, 2, -2, 3, -3, 10, 2 ** 31, -(2 ** 31), 2 ** 32, 2 ** 64]
POW_EXP = [0, 1, 2, 3, 31, 32, 54, 55, 62, 63, 64, -1, -2]
ENCS = ["lit", "arith"]


def shards(tier):
    sh = []
    for op in N.BIN_INT_OPS:
        for ea in ENCS:
            sh.append(("bin", op, ea))
    sh.append(("un",))
    sh.append(("shift", "<<"))
    sh.append(("shift", ">>"))
    sh.append(("pow",))
    if tier == "thorough":
        for op1 in N.BIN_INT_OPS:
            sh.append(("nest", op1))
    return sh


def gen(shard):
    """yields (case, expr_text, expected, nontrivial); case is JSON-able"""
    kind = shard[0]
    if kind == "bin":
        _, op, ea = shard
        for a in N.INT:
            for b in N.INT:
                for eb in ENCS:
                    exp = N.int_binop(op, a, b)
                    txt = N.bin_text(op, N.int_text(a, ea), N.int_text(b, eb))
                    yield (["bin", op, str(a), ea, str(b), eb], txt, exp, nontriv(exp, a, b))
    elif kind == "un":
        for op in N.UN_INT_OPS + ["+"]:
            for a in N.INT:
                for ea in ENCS:
                    exp = N.int_unop(op, a)
                    txt = N.un_text(op, N.int_text(a, ea))
                    yield (["un", op, str(a), ea], txt, exp, nontriv(exp, a))
    elif kind == "shift":
        op = shard[1]
        for a in N.INT:
            for s in N.SHIFT + [-x for x in N.SHIFT if x] + [2 ** 32, 2 ** 64]:
                if op == "<<" and s > 1000 and a != 0:
                    continue
                if s > 1000 and op == "<<":
                    continue
                for ea in ENCS:
                    exp = N.int_binop(op, a, s)
                    txt = N.bin_text(op, N.int_text(a, ea), N.int_text(s, "lit"))
                    yield (["shift", op, str(a), ea, str(s)], txt, exp, nontriv(exp, a, s))
    elif kind == "pow":
        for a in POW_BASE:
            for b in POW_EXP + ([2 ** 70] if a in (0, 1, -1) else []):
                for ea in ENCS:
                    exp = N.int_binop("^", a, b)
                    txt = N.bin_text("^", N.int_text(a, ea), N.int_text(b, "lit"))
                    yield (["pow", str(a), ea, str(b)], txt, exp, nontriv(exp, a, b))
    elif kind == "nest":
        op1 = shard[1]
        A = N.INT_SMALL
        for op2 in N.BIN_INT_OPS:
            for a, b, c in itertools.product(A, A, A):
                inner = N.int_binop(op2, a, b)
                if isinstance(inner, tuple):
                    exp = inner
                else:
                    exp = N.int_binop(op1, inner, c)
                if not isinstance(exp, tuple) and abs(exp).bit_length() > 400:
                    continue
                txt = N.bin_text(op1, N.bin_text(op2, N.int_text(a, "lit"), N.int_text(b, "lit")),
                                 N.int_text(c, "lit"))
                nt = nontriv(exp, a, b, c) or (not isinstance(inner, tuple) and not N.is_fix(inner))
                yield (["nest", op1, op2, str(a), str(b), str(c)], txt, exp, nt)


def nontriv(exp, *ops):
    if isinstance(exp, tuple) or exp is None:
        return True
    return (not N.is_fix(exp)) or any(not N.is_fix(o) for o in ops)


def goal(txt):
    return "g(X is %s)" % txt


def judge(res, exp):
    """-> (outcome label, violation kind or None, observed)"""
    if res.abn:
        return ("abnormal", res.abn, res.abn)
    if res.status == "exc":
        f = res.formal()
        if exp is None:
            return ("impl_defined", None, f)
        if isinstance(exp, tuple) and exp[0] == "error":
            want = exp[1]
            if f == want or (want[0] == "type_error" and isinstance(f, tuple) and f[:2] == want[:2]):
                return ("error:" + px.formal_sig(f), None, f)
            return ("wrong_error", "wrong_error", f)
        # resource errors for enormous results are outside the statement
        if isinstance(f, tuple) and f[0] == "resource_error":
            return ("resource_error", None, f)
        return ("unexpected_error", "unexpected_error:" + px.formal_sig(f), f)
    if len(res.sols) != 1:
        return ("nosol", "no_solution", "failed")
    x = res.sols[0].get("X")
    if exp is None:
        return ("impl_defined", None, x)
    if isinstance(exp, tuple):
        return ("missing_error", "missing_error", x)
    if isinstance(x, bool) or not isinstance(x, int):
        return ("not_integer", "not_integer", x)
    if x != exp:
        return ("wrong_value", "wrong_value", x)
    return ("ok", None, x)


def sig_of(case, kind, exp, obs):
    k = case[0]
    if k == "bin":
        _, op, a, ea, b, eb = case
        return "bin %s a=%s/%s b=%s/%s %s" % (op, N.mag_class(int(a)), ea, N.mag_class(int(b)), eb, kind)
    if k == "un":
        _, op, a, ea = case
        return "un %s a=%s/%s %s" % (op, N.mag_class(int(a)), ea, kind)
    if k == "shift":
        _, op, a, ea, s = case
        sc = "s<64" if abs(int(s)) < 64 else "s>=64"
        return "shift %s a=%s/%s %s%s %s" % (op, N.mag_class(int(a)), ea, "neg" if int(s) < 0 else "", sc, kind)
    if k == "pow":
        _, a, ea, b = case
        return "pow a=%s/%s b=%s %s" % (a if abs(int(a)) < 11 else N.mag_class(int(a)), ea, N.mag_class(int(b)), kind)
    if k == "nest":
        return "nest %s(%s) %s" % (case[1], case[2], kind)
    return "?"


def run_shard(w, shard, tier):
    acc = px.ShardAcc()
    for batch in px.chunked(gen(shard), 500):
        rs = px.run_goals(w, [goal(t) for (_, t, _, _) in batch])
        for (case, txt, exp, nt), r in zip(batch, rs):
            label, vk, obs = judge(r, exp)
            acc.case(nt, label, sample={"goal": "X is " + txt, "expected": str(exp), "observed": str(obs)})
            if vk:
                acc.violation(sig_of(case, vk, exp, obs), {"case": case, "expr": txt},
                              expected=str(exp), observed=str(obs))
    return acc.result()


def recheck(w, case, tier):
    txt = case["expr"]
    c = case["case"]
    # recompute the expectation from the case, not from the replay file
    exp = expect_of(c)
    r = px.run_goals(w, [goal(txt)])[0]
    label, vk, obs = judge(r, exp)
    if vk:
        return {"sig": sig_of(c, vk, exp, obs), "case": case, "expected": str(exp), "observed": str(obs)}
    return None


def expect_of(c):
    k = c[0]
    if k == "bin":
        return N.int_binop(c[1], int(c[2]), int(c[4]))
    if k == "un":
        return N.int_unop(c[1], int(c[2]))
    if k == "shift":
        return N.int_binop(c[1], int(c[2]), int(c[4]))
    if k == "pow":
        return N.int_binop("^", int(c[1]), int(c[3]))
    if k == "nest":
        inner = N.int_binop(c[2], int(c[3]), int(c[4]))
        return inner if isinstance(inner, tuple) else N.int_binop(c[1], inner, int(c[5]))
