"""C51 — CSV parsing and writing follow the documented format (DESIGN §6 C51).

Parse side: every table of <= 2 rows x <= 2 columns over a field alphabet
(empty, plain, embedded separator / quote / LF / CRLF / bare CR, padded, numeric,
numeric-looking string, non-ASCII) is rendered by an RFC 4180 writer in five
text forms (LF/CRLF, with/without final line end, minimal/always quoting) x
four option sets (separator , ; TAB, header on/off) and parsed with
phrase(parse_csv(F, Opts), Text); the result must be the documented frame/2
term (strings as character lists, unquoted numbers as numbers, empty fields
as []). Write side: write_csv/2,3 of the same tables (documented field types,
and separately atoms) to a real file; the bytes must be a CSV text that an
RFC 4180 parser, and parse_csv//2 itself, read back as the same rows.
"""
import itertools
import os

from vx.core import px, pool
from vx.core.terms import mklist, unlist, chars_list, list_to_str, NIL, fmt_float, show

ID = "C51"
LEVEL = "exploration"
ENGINE = "PEX"
TECHNIQUE = "bounded exhaustive input sweep against an RFC 4180 reader/writer model mapped to the documented frame/2 term"
LEVEL_TEXT = "exhaustive enumeration of small tables x text forms x documented options, both directions (write goes through a real file)"
RULE = ("tables: 1x1, 1x2, 2x1 over 20 fields (5 of them with a bare CR at the start / middle / end), 2x2 over 8 (quick) / 11 (thorough) fields; parse: x 5 text forms x 4 option sets; "
        "write: x 6 option sets for string/number/[] fields and for atom fields; invalid texts: unterminated quotes. "
        "Non-trivial: some field needs quoting (separator, quote, line break), is numeric-looking, or is empty.")
ASSUMPTIONS = ["RFC 4180 with LF accepted as a record end; an unquoted field that is canonical Prolog number syntax denotes that number "
               "(documented example), every other field its characters, an empty field []", "a row consisting of one unquoted empty "
               "field (a blank line) is ambiguous and not generated", "files written under /verif/work/agentF are read back by Python"]
MIN_OUTCOMES = 4

# field alphabet: (kind, value). kind 'str' (value python str, may be empty = []), 'num' (value int/float)
FIELDS_FULL = [("str", ""), ("str", "a"), ("str", "a b"), ("str", "a,b"), ("str", 'a"b'), ("str", '"'), ("str", "a\nb"), ("str", "a\r\nb"),
               ("str", " a "), ("num", 12), ("num", 1.5), ("str", "é"), ("str", ";"), ("str", "12"), ("num", -3),
               ("str", "\ra"), ("str", "a\rb"), ("str", "tail\r"), ("str", "a\r b\rc"), ("str", "\r")]
FIELDS_MID = [("str", ""), ("str", "a"), ("str", "a,b"), ("str", 'a"b'), ("str", "a\nb"), ("str", "a\r\nb"), ("str", " a "),
              ("num", 12), ("str", "12"), ("str", "a\rb"), ("str", "tail\r")]
FIELDS_SMALL = [("str", ""), ("str", "a"), ("str", "a,b"), ("str", 'a"b'), ("str", "a\nb"), ("num", 12), ("str", " a "), ("str", "a\rb")]

FORMS = [("\n", True, False), ("\r\n", True, False), ("\n", False, False), ("\r\n", False, True), ("\n", True, True)]
POPTS = [(",", True), (";", True), ("\t", False), (",", False)]
WOPTS = [(",", "\n", True, None), (",", "\r\n", True, "explicit"), (";", "\n", True, "explicit"), (",", "\n", False, "explicit"),
         ("\t", "\r\n", False, "explicit"), (",", "\n", True, "null")]


def qchars(s):
    out = ['"']
    for c in s:
        o = ord(c)
        if c in '"\\':
            out.append("\\" + c)
        elif 0x20 <= o < 0x7f:
            out.append(c)
        else:
            out.append("\\x%x\\" % o)
    out.append('"')
    return "".join(out)


def qatom(s):
    out = ["'"]
    for c in s:
        o = ord(c)
        if c in "'\\":
            out.append("\\" + c)
        elif 0x20 <= o < 0x7f:
            out.append(c)
        else:
            out.append("\\x%x\\" % o)
    out.append("'")
    return "".join(out)


# --------------------------------------------------------------------------
# RFC 4180 model

def num_text(v):
    if isinstance(v, int):
        return str(v)
    return fmt_float(v) if v >= 0 else "-" + fmt_float(-v)


def needs_quote(s, sep):
    return any(c in s for c in (sep, '"', "\n", "\r"))


def render_field(f, sep, always):
    kind, v = f
    if kind == "num":
        return num_text(v)
    if v == "":
        return '""' if always == "empty_too" else ""
    if always or needs_quote(v, sep) or looks_numeric(v):
        return '"' + v.replace('"', '""') + '"'
    return v


def looks_numeric(s):
    try:
        float(s)
        return True
    except ValueError:
        return False


def render(table, sep, eol, final, always):
    lines = [sep.join(render_field(f, sep, always) for f in row) for row in table]
    return eol.join(lines) + (eol if final else "")


def rfc_parse(text, sep):
    """-> list of rows of (quoted?, text) | None if malformed"""
    rows = []
    row = []
    i = 0
    n = len(text)
    if n == 0:
        return []
    while True:
        # one field
        if i < n and text[i] == '"':
            i += 1
            buf = []
            while True:
                if i >= n:
                    return None
                if text[i] == '"':
                    if i + 1 < n and text[i + 1] == '"':
                        buf.append('"')
                        i += 2
                        continue
                    i += 1
                    break
                buf.append(text[i])
                i += 1
            row.append((True, "".join(buf)))
        else:
            j = i
            while j < n and text[j] not in (sep, "\n", "\r"):
                if text[j] == '"':
                    return None
                j += 1
            row.append((False, text[i:j]))
            i = j
        if i < n and text[i] == sep:
            i += 1
            continue
        # end of record
        rows.append(row)
        row = []
        if i >= n:
            return rows
        if text.startswith("\r\n", i):
            i += 2
        elif text[i] in "\n\r":
            i += 1
        else:
            return None
        if i >= n:
            return rows


def typed(q, s):
    """field text -> abstract term as parse_csv documents it"""
    if s == "":
        return NIL
    if not q and canonical_number(s):
        return int(s) if s.lstrip("-").isdigit() else float(s)
    return chars_list(s)


def canonical_number(s):
    import re
    return re.fullmatch(r"-?[0-9]+(\.[0-9]+)?", s) is not None


def field_term(f):
    kind, v = f
    if kind == "num":
        return v
    return chars_list(v) if v else NIL


def frame_term(table, header):
    rows = [mklist([field_term(f) for f in row]) for row in table]
    if header:
        return ("frame", rows[0], mklist(rows[1:]))
    return ("frame", NIL, mklist(rows))


def same_term(a, b):
    """structural equality with number types kept apart"""
    if isinstance(a, tuple) and isinstance(b, tuple):
        return len(a) == len(b) and all(same_term(x, y) for x, y in zip(a, b))
    if isinstance(a, tuple) or isinstance(b, tuple):
        return False
    return type(a) is type(b) and a == b


# --------------------------------------------------------------------------
# spaces

def tables(tier):
    full, small = FIELDS_FULL, FIELDS_SMALL
    out = []
    for f in full:
        out.append([[f]])
    for a, b in itertools.product(full, repeat=2):
        out.append([[a, b]])
        out.append([[a], [b]])
    pool2 = FIELDS_MID if tier == "thorough" else small
    for a, b, c, d in itertools.product(pool2, repeat=4):
        out.append([[a, b], [c, d]])
    # one ragged shape
    for a, b, c in itertools.product(small, repeat=3):
        out.append([[a, b], [c]])
    return out


def ambiguous(table):
    """a one-field row whose field is empty is a blank line when unquoted"""
    return any(len(row) == 1 and row[0] == ("str", "") for row in table)


def nontrivial(table, sep):
    return any(k == "str" and (v == "" or needs_quote(v, sep) or looks_numeric(v)) for row in table for k, v in row)


NSH = 32


def shards(tier):
    return [("parse", i) for i in range(NSH)] + [("write", i) for i in range(NSH)] + [("writeatoms", i) for i in range(8)] + [("invalid",)]


def bound_text(tier):
    n = len(tables(tier))
    return "%d tables (<= 2x2) x 5 text forms x 4 parse option sets; x 6 write option sets through real files; atom-field tables" % n


def setup(w, tier):
    os.makedirs(os.path.join(pool.WORK, "agentF"), exist_ok=True)
    w.consult(":- use_module(library(csv)).\n:- use_module(library(dcgs)).\n:- use_module(library(pio)).\n", persist=True)


def popts_text(sep, header):
    return "[with_header(%s),token_separator(%s)]" % ("true" if header else "false", qatom(sep))


def table_json(table):
    return [[[k, v] for k, v in row] for row in table]


def table_of_json(j):
    return [[(k, v) for k, v in row] for row in j]


def table_class(table, sep):
    cls = set()
    for row in table:
        for k, v in row:
            if k == "num":
                cls.add("num")
            elif v == "":
                cls.add("empty")
            elif '"' in v:
                cls.add("quote")
            elif sep in v:
                cls.add("sep")
            elif "\n" in v:
                cls.add("newline")
            elif "\r" in v:
                cls.add("bare_cr")
            elif looks_numeric(v):
                cls.add("numeric_string")
            else:
                cls.add("plain")
    for c in ("quote", "sep", "newline", "bare_cr", "numeric_string", "plain", "empty", "num"):
        if c in cls:
            return c
    return "none"


# ---- parse side -------------------------------------------------------------

def parse_cases(tier, part):
    k = 0
    for table in tables(tier):
        for fi, (eol, final, always) in enumerate(FORMS):
            for oi, (sep, header) in enumerate(POPTS):
                k += 1
                if k % NSH != part:
                    continue
                if always:
                    # a quoted empty field in a one-field row is a legal, unambiguous document
                    yield table, fi, oi, "empty_too" if ambiguous(table) else True
                elif not ambiguous(table):
                    yield table, fi, oi, False


def judge_parse(table, sep, header, r):
    """-> (label, violation kind|None, expected, observed)"""
    want = frame_term(table, header)
    et = show(want)
    if r.abn:
        return ("abnormal", r.abn, et, r.abn)
    if r.status == "exc":
        return ("error", "unexpected_error:" + px.formal_sig(r.formal()), et, "error " + show(r.exc))
    if not r.sols:
        return ("fail", "rejects_valid", et, "no parse")
    for s in r.sols:
        if not same_term(want, s.get("F")):
            return ("sol", "wrong_frame", et, show(s.get("F")))
    return ("%dsol" % min(len(r.sols), 3), None, et, None)


def run_parse(w, cases, acc):
    viols = []
    for batch in px.chunked(cases, 300):
        texts = []
        for table, fi, oi, always in batch:
            eol, final, _ = FORMS[fi]
            sep, header = POPTS[oi]
            t = render(table, sep, eol, final, always)
            texts.append("g(phrase(parse_csv(F,%s),%s), 4)" % (popts_text(sep, header), qchars(t)))
        rs = px.run_goals(w, texts)
        for (table, fi, oi, always), r in zip(batch, rs):
            eol, final, _ = FORMS[fi]
            sep, header = POPTS[oi]
            label, vk, et, ot = judge_parse(table, sep, header, r)
            nt = nontrivial(table, sep)
            if acc is not None:
                acc.case(nt, "parse:" + label, sample={"text": render(table, sep, eol, final, always)[:80], "options": popts_text(sep, header), "expected": et[:160]})
            if vk:
                form = "%s/%s/%s" % ("crlf" if eol == "\r\n" else "lf", "final" if final else "nofinal",
                                     "quoted" if always else "minimal")
                shape = "%dx%s" % (len(table), "x".join(str(len(r_)) for r_ in table))
                v = {"sig": "parse %s %s %s %s" % (table_class(table, sep), form, shape_class(table), vk),
                     "case": {"fam": "parse", "table": table_json(table), "form": fi, "opts": oi, "always": always},
                     "expected": et, "observed": ot}
                viols.append(v)
                if acc is not None:
                    acc.violation(v["sig"], v["case"], v["expected"], v["observed"])
    return viols


def shape_class(table):
    if any(len(r) == 1 and r[0] == ("str", "") for r in table):
        return "single_empty_field_row"
    if len(set(len(r) for r in table)) > 1:
        return "ragged"
    return "rect"


# ---- write side ---------------------------------------------------------------

def wopts_text(sep, eol, header, mode):
    if mode is None:
        return None
    o = ["token_separator(%s)" % qatom(sep), "line_separator(%s)" % qatom(eol), "with_header(%s)" % ("true" if header else "false")]
    if mode == "null":
        o.append("null_value('NULL')")
    return "[" + ",".join(o) + "]"


def field_src(f, atoms):
    kind, v = f
    if kind == "num":
        return num_text(v)
    if v == "":
        return "[]"
    return qatom(v) if atoms else qchars(v)


def frame_src(table, atoms):
    rows = ["[" + ",".join(field_src(f, atoms) for f in row) + "]" for row in table]
    return "frame(%s,[%s])" % (rows[0], ",".join(rows[1:]))


def write_cases(tier, part, atoms):
    k = 0
    nsh = 8 if atoms else NSH
    for table in tables(tier):
        if atoms and not any(kd == "str" and v for row in table for kd, v in row):
            continue
        if atoms and any(kd == "str" and looks_numeric(v) for row in table for kd, v in row):
            continue  # an atom that looks like a number has no documented CSV form
        if ambiguous(table):
            continue  # a row holding one empty field would have to be written as a blank line
        for wi in range(len(WOPTS)):
            k += 1
            if k % nsh != part:
                continue
            if len(table) == 1 and not WOPTS[wi][2]:
                continue  # header-less write of a one-row table writes nothing at all
            yield table, wi


def run_write(w, cases, acc, atoms):
    viols = []
    base = "agentF/c51_%d" % os.getpid()
    fam = "writeatoms" if atoms else "write"
    for batch in px.chunked(cases, 100):
        texts = []
        paths = []
        for i, (table, wi) in enumerate(batch):
            sep, eol, header, mode = WOPTS[wi]
            path = "%s_%d.csv" % (base, i)
            full = os.path.join(pool.WORK, path)
            if os.path.exists(full):
                os.remove(full)
            paths.append((path, full))
            ot = wopts_text(sep, eol, header, mode)
            call = "write_csv(%s,%s)" % (qchars(path), frame_src(table, atoms)) if ot is None else \
                   "write_csv(%s,%s,%s)" % (qchars(path), frame_src(table, atoms), ot)
            texts.append("g((%s, vx_all(F, phrase_from_file(parse_csv(F,%s),%s), 4, Fs, St)), 2)"
                         % (call, popts_text(sep, header), qchars(path)))
        rs = px.run_goals(w, texts)
        for (table, wi), (path, full), r in zip(batch, paths, rs):
            sep, eol, header, mode = WOPTS[wi]
            try:
                with open(full, "rb") as f:
                    data = f.read()
                os.remove(full)
            except OSError:
                data = None
            label, vk, et, ot = judge_write(table, wi, r, data)
            if vk and vk.startswith("written_text_wrong") and data is not None:
                vk += diagnose_text(table, data.decode("utf-8", "replace"), atoms, sep)
            nt = nontrivial(table, sep)
            if acc is not None:
                acc.case(nt, "%s:%s" % (fam, label), sample={"frame": frame_src(table, atoms)[:100], "options": wopts_text(sep, eol, header, mode)})
            if vk:
                shape = "norows" if (header and len(table) == 1) else "rows"
                v = {"sig": "%s %s %s %s" % (fam, table_class(table, sep), shape, vk),
                     "case": {"fam": fam, "table": table_json(table), "wopts": wi}, "expected": et, "observed": ot}
                viols.append(v)
                if acc is not None:
                    acc.violation(v["sig"], v["case"], v["expected"], v["observed"])
    return viols


def diagnose_text(table, text, atoms, sep):
    """names the recognised wrong-output classes"""
    strs = [v for row in table for k, v in row if k == "str" and v]
    if not atoms and strs and any("[" + ",".join(v.replace('"', '""')) + "]" in text for v in strs):
        return ":strings_in_list_syntax"
    if atoms and any(needs_quote(v, sep) and v in text and ('"' + v.replace('"', '""') + '"') not in text for v in strs):
        return ":special_characters_unquoted"
    return ""


def judge_write(table, wi, r, data):
    sep, eol, header, mode = WOPTS[wi]
    rows = table if header else table[1:]
    et = "a CSV text for rows " + repr([[v for _, v in row] for row in rows])
    if r.abn:
        return ("abnormal", r.abn, et, r.abn)
    if r.status == "exc":
        return ("error", "unexpected_error:" + px.formal_sig(r.formal()), et, "error " + show(r.exc))
    if not r.sols:
        return ("fail", "write_fails", et, "write_csv failed")
    if data is None:
        return ("nofile", "no_file_written", et, "no file")
    try:
        text = data.decode("utf-8")
    except UnicodeDecodeError:
        return ("sol", "written_bytes_not_utf8", et, repr(data[:100]))
    model = rfc_parse(text, sep)
    want_rows = [[field_term(f) for f in row] for row in rows]
    if mode == "null":
        # [] is written as NULL: the text must say so; reading it back is outside the documented options
        exp = [[("str", "NULL") if f == ("str", "") else f for f in row] for row in rows]
        ok = model is not None and [[typed(q, s) for q, s in row] for row in model] == [[field_term(f) for f in row] for row in exp]
        if not ok:
            return ("sol", "written_text_wrong(null_value)", et + " with [] as NULL", repr(text[:200]))
        return ("text_ok", None, et, None)
    ok = model is not None and len(model) == len(want_rows) and all(
        len(mr) == len(wr) and all(same_term(typed(q, s), x) for (q, s), x in zip(mr, wr)) for mr, wr in zip(model, want_rows))
    if not ok:
        return ("sol", "written_text_wrong", et, repr(text[:200]))
    # line separator as requested
    if len(rows) > 1 and eol == "\r\n" and "\r\n" not in text:
        return ("sol", "line_separator_ignored", et + " with CRLF", repr(text[:200]))
    # Scryer's own reader on its own output
    sol = r.sols[0]
    fs, _ = unlist(sol.get("Fs"))
    want = ("frame", mklist(want_rows[0]) if header else NIL, mklist([mklist(x) for x in (want_rows[1:] if header else want_rows)]))
    if not fs or not all(same_term(want, f) for f in fs):
        st = sol.get("St")
        return ("sol", "reparse_differs", show(want), "; ".join(show(f) for f in fs) or "no parse (%s)" % show(st))
    return ("roundtrip", None, et, None)


# ---- invalid -------------------------------------------------------------------

def invalid_items():
    out = []
    for t in ('a\n"abc', 'a\n"abc\n', '"', 'a,"b\n1,2\n', 'a\n"x""', 'a\n1,"'):
        out.append(t)
    return out


def run_invalid(w, acc, only=None):
    viols = []
    items = invalid_items() if only is None else [only]
    rs = px.run_goals(w, ["g(phrase(parse_csv(F),%s), 3)" % qchars(t) for t in items])
    for t, r in zip(items, rs):
        if r.abn:
            label, vk = "abnormal", r.abn
        elif r.status == "exc" or not r.sols:
            label, vk = "rejected", None
        else:
            label, vk = "accepted", "accepts_unterminated_quote"
        if acc is not None:
            acc.case(True, "invalid:" + label, sample={"text": t})
        if vk:
            v = {"sig": "invalid %s" % vk, "case": {"fam": "invalid", "text": t}, "expected": "failure or error",
                 "observed": show(r.sols[0].get("F")) if r.sols else str(vk)}
            viols.append(v)
            if acc is not None:
                acc.violation(v["sig"], v["case"], v["expected"], v["observed"])
    return viols


# --------------------------------------------------------------------------

def run_shard(w, shard, tier):
    acc = px.ShardAcc()
    if shard[0] == "parse":
        run_parse(w, list(parse_cases(tier, shard[1])), acc)
    elif shard[0] == "write":
        run_write(w, list(write_cases(tier, shard[1], False)), acc, False)
    elif shard[0] == "writeatoms":
        run_write(w, list(write_cases(tier, shard[1], True)), acc, True)
    else:
        run_invalid(w, acc)
    return acc.result()


def recheck(w, case, tier):
    fam = case["fam"]
    if fam == "parse":
        vs = run_parse(w, [(table_of_json(case["table"]), case["form"], case["opts"], case["always"])], None)
    elif fam in ("write", "writeatoms"):
        vs = run_write(w, [(table_of_json(case["table"]), case["wopts"])], None, fam == "writeatoms")
    else:
        vs = run_invalid(w, None, only=case["text"])
    return vs[0] if vs else None
