"""C47 — Parsing a file lazily equals parsing its contents (DESIGN §6 C47).

phrase_from_file/2,3 (library(pio): a lazy, freeze/2-driven list that reads
4096 characters per step through get_n_chars/3 and restores the stream
position before every step) is compared with phrase/2 on the complete
character list, for files whose sizes and contents sit on the buffer
boundaries (4096 characters per lazy step; 8192 bytes per CharReader chunk):

  uniform    filler^n for filler in {a, e-acute, euro, emoji} (1..4 bytes), n in
             {0,1,2,4095,4096,4097,8191,8192,8193,12288,12289}
  straddle   one multi-byte character (2, 3, 4 bytes) starting at every byte
             offset B-4..B+1 around each byte boundary B and at every character
             index K-2..K+1 around each character boundary K, in ASCII text, with
             and without a 100-character 2-byte prefix (which separates byte
             boundaries from character boundaries)
  needle     "xyz" before / across / after each boundary, twice, or absent
  short      every string of length <= 3 over {a, b, e-acute, newline}

Each file is parsed with a set of grammars (whole text, needle search, early
stop, needs-the-end, counting, n-th character, all split positions, and
grammars that read to the end, fail and backtrack to the start).  Oracle:
(1) Python computes the expected outcome of every grammar from the file
contents it wrote; (2) the same grammar is run by phrase/2 on the full
character list sent as a string literal, and the two outcomes must be
identical terms.
"""
import itertools
import os

from vx.core import px, pool
from vx.core.terms import fmt, S, list_to_str, unlist

ID = "C47"
LEVEL = "exploration"
ENGINE = "PEX"
TECHNIQUE = "exhaustive boundary-value enumeration of file contents x grammars; differential against phrase/2 and a Python oracle"
RULE = ("all files of the uniform/straddle/needle/short families x every grammar of the family's list x open options; "
        "non-trivial: the file is longer than one lazy step (4096 chars) or one reader chunk (8192 bytes) and the "
        "grammar backtracks over / searches across a boundary, or a multi-byte character or the needle straddles one")
LEVEL_TEXT = "bounded exhaustive exploration of the buffer-boundary input space; each case runs the real library(pio)"
ASSUMPTIONS = ["Python's UTF-8 codec", "pworker put_file", "string literals in the case text are read correctly (C15/C20)",
               "phrase/2 on complete lists (C39) is the reference leg"]
MIN_OUTCOMES = 6

SCRATCH = os.path.join(pool.WORK, "agentH")
HELPER = os.path.join(pool.ROOT, "vx", "prolog", "c47_pio.pl")

FILLERS = ["a", "é", "€", "\U0001F600"]
MB = ["é", "€", "\U0001F600"]
SIZES = [0, 1, 2, 4095, 4096, 4097, 8191, 8192, 8193, 12288, 12289]
STEP = 4096
CHUNK = 8192


def bound_text(tier):
    return ("uniform: 4 fillers x %d sizes; straddle: 3 multi-byte chars x byte offsets B-4..B+1 (B in %s) and char "
            "indices K-2..K+1 (K in %s) x 2 prefixes; needle and short families; %s"
            % (len(sizes(tier)), byte_bounds(tier), char_bounds(tier),
               "options none/[type(text)]/[type(binary)] on subsets" if tier == "quick" else "all option variants"))


def sizes(tier):
    return SIZES if tier == "quick" else SIZES + [16383, 16384, 16385, 24576, 24577]


def byte_bounds(tier):
    return [4096, 8192, 12288] if tier == "quick" else [4096, 8192, 12288, 16384, 24576]


def char_bounds(tier):
    return [4096, 8192] if tier == "quick" else [4096, 8192, 12288, 16384]


# ---------------------------------------------------------------------------
# files: (family, tag, content str, kinds)

def k_uniform(f, n):
    c = f * n
    ks = [("all",), ("len",), ("last",), ("endq",), ("count", f), ("back",),
          ("prefix", c[:2]), ("prefix", "zz"), ("nth", 4095), ("nth", 4096), ("nth", 8192), ("back2", 4097)]
    return ks


def files_uniform(tier):
    for f in FILLERS:
        for n in sizes(tier):
            yield ("uniform", "%s^%d" % (fname(f), n), f * n, k_uniform(f, n))


def fname(ch):
    return {"a": "a", "é": "e2", "€": "e3", "\U0001F600": "e4"}.get(ch, "x")


def files_straddle(tier):
    seen = set()
    for base in ("", "é" * 100):
        lb = len(base.encode("utf-8"))
        lc = len(base)
        for c in MB:
            pos = []
            for B in byte_bounds(tier):
                for d in range(-4, 2):
                    pos.append(("b%d%+d" % (B, d), B + d - lb + lc))   # char index with ASCII filler after base
            for K in char_bounds(tier):
                for d in range(-2, 2):
                    pos.append(("c%d%+d" % (K, d), K + d))
            for tag, i in pos:
                if i < lc:
                    continue
                content = base + "a" * (i - lc) + c + "a" * 6
                if content in seen:
                    continue
                seen.add(content)
                ks = [("all",), ("count", c), ("last",), ("back2", i + 1), ("nth", i), ("nth", i + 1),
                      ("needle", c + "a"), ("positions", c), ("len",)]
                yield ("straddle", "%s%s@%s" % ("p" if base else "", fname(c), tag), content, ks)


def files_needle(tier):
    for f in ("a", "é"):
        L = 8200 if tier == "quick" else 12300
        spots = [None, 0, L - 3]
        for B in char_bounds(tier):
            if B + 2 < L:
                spots += [B + d for d in range(-4, 2)]
        for p in spots:
            if p is None:
                content = f * L
            else:
                content = f * p + "xyz" + f * (L - p - 3)
            ks = [("needle", "xyz"), ("positions", "xyz"), ("all",), ("back",), ("needle", "xyz" + f + "q"), ("prefix", f * 2)]
            yield ("needle", "%s@%s" % (fname(f), p), content, ks)
        # two needles, one across each boundary
        content = f * 4094 + "xyz" + f * (8191 - 4097) + "xyz" + f * 10
        yield ("needle", "%s@two" % fname(f), content, [("positions", "xyz"), ("needle", "xyz"), ("count", "y"), ("all",)])


def files_short(tier):
    ks = [("all",), ("splits",), ("empty",), ("alt",), ("neg",), ("two",), ("call",), ("len",), ("last",)]
    for n in range(0, 4):
        for t in itertools.product(["a", "b", "é", "\n"], repeat=n):
            yield ("short", "s%d" % n, "".join(t), ks)


def all_files(tier):
    out = []
    for g in (files_uniform, files_straddle, files_needle, files_short):
        out.extend(g(tier))
    return out


def option_variants(tier, fam, tag, content):
    """-> list of (opts text, decoded content as the stream will deliver it)"""
    v = [("none", content)]
    ascii_only = all(ord(c) < 128 for c in content)
    if tier == "thorough":
        v.append(("[type(text)]", content))
        v.append(("[]", content))
        v.append(("[type(binary)]", content.encode("utf-8").decode("latin-1")))
    else:
        if fam == "short" or (fam == "uniform" and tag.startswith("e2")):
            v.append(("[type(text)]", content))
        if fam in ("short", "needle") or (fam == "uniform" and tag.startswith(("a^", "e2"))):
            v.append(("[type(binary)]", content.encode("utf-8").decode("latin-1")))
    return v


def shards(tier):
    fs = all_files(tier)
    # big files first; round-robin into shards
    idx = sorted(range(len(fs)), key=lambda i: -len(fs[i][2]))
    n = 32 if tier == "quick" else 64
    return [("files", idx[k::n]) for k in range(n) if idx[k::n]]


def setup(w, tier):
    with open(HELPER) as f:
        w.consult(f.read(), persist=True)


# ---------------------------------------------------------------------------
# expectation

def kind_term(k):
    if k[0] in ("needle", "prefix", "positions"):
        return "%s(%s)" % (k[0], fmt(S(k[1])))
    if k[0] == "count":
        return "count(%s)" % fmt(k[1])
    if k[0] in ("nth", "back2"):
        return "%s(%d)" % (k[0], k[1])
    return k[0]


def chars_sum(i, c):
    return ("chars", i, "eq" if i == len(c) else "prefix")


def expect(k, c):
    """expected summary of kind k on content c (as a comparable Python value)"""
    n = len(c)
    t = k[0]
    if t in ("all", "back", "back2", "call"):
        return ("sol", ("chars", n, "eq"))
    if t == "len":
        return ("sol", n)
    if t == "last":
        return ("sol", c[-1]) if c else "none"
    if t == "endq":
        return "none"
    if t == "count":
        return ("sol", c.count(k[1]))
    if t == "prefix":
        return ("sol", "yes") if c.startswith(k[1]) else "none"
    if t == "needle":
        return ("sol", "found") if k[1] in c else "none"
    if t == "nth":
        return ("sol", c[k[1]]) if k[1] < n else "none"
    if t == "positions":
        out = []
        i = c.find(k[1])
        while i >= 0:
            out.append(chars_sum(i, c))
            i = c.find(k[1], i + 1)
        return ("sols", out)
    if t == "splits":
        return ("sols", [chars_sum(i, c) for i in range(n + 1)])
    if t == "empty":
        return ("sol", "yes") if c == "" else "none"
    if t == "alt":
        return ("sols", ["yes"] if c in ("a", "b", "") else [])
    if t == "neg":
        return ("sol", "yes") if c and not c.startswith("a") else "none"
    if t == "two":
        return ("sols", [("-", c[0], c[1])] if n == 2 else [])
    raise ValueError(k)


def conv_sum(t):
    """driver summary term -> comparable value"""
    if t == "none":
        return "none"
    if isinstance(t, tuple):
        if t[0] == "sol":
            return ("sol", conv_val(t[1]))
        if t[0] == "sols":
            return ("sols", [conv_val(x) for x in unlist(t[1])[0]])
        if t[0] == "error":
            return ("error", px.formal_sig(t[1]))
    return ("?", repr(t))


def conv_val(v):
    if isinstance(v, tuple) and v[0] == "chars":
        return ("chars", v[1], v[2])
    if isinstance(v, tuple) and v[0] in ("diff", "partial"):
        return (v[0], v[1])
    return v


def cls(v):
    """coarse class of a summary for signatures"""
    if v == "none":
        return "fails"
    if v[0] == "error":
        return "error:" + v[1]
    if v[0] == "sol":
        x = v[1]
        if isinstance(x, tuple) and x and x[0] in ("chars", "diff", "partial"):
            return "text-" + (x[2] if x[0] == "chars" else x[0])
        return "sol"
    if v[0] == "sols":
        return "sols#%s" % ("0" if not v[1] else "1" if len(v[1]) == 1 else "n")
    return "?"


def size_class(c):
    nb = len(c.encode("utf-8"))
    return "chars%s,bytes%s" % ("<=4096" if len(c) <= STEP else "<=8192" if len(c) <= 2 * STEP else ">8192",
                               "<=8192" if nb <= CHUNK else ">8192")


BACKTRACKING = {"back", "back2", "positions", "last", "endq", "needle", "splits"}


def nontrivial(fam, k, c):
    big = len(c) > STEP or len(c.encode("utf-8")) > CHUNK
    if not big:
        return False
    return k[0] in BACKTRACKING or fam in ("straddle", "needle")


def qstr(s):
    """double-quoted literal; control characters *and* U+007F..U+00BF are written as \\xHH\\ escapes: the
    reader rejects raw C1 control characters inside quoted items (they occur when UTF-8 bytes are
    delivered one char per byte by a binary stream), and vx.core.terms.quote_string leaves them raw"""
    out = ['"']
    for c in s:
        o = ord(c)
        if c == '"':
            out.append('\\"')
        elif c == "\\":
            out.append("\\\\")
        elif o < 32 or 0x7f <= o <= 0xbf:
            out.append("\\x%x\\" % o)
        else:
            out.append(c)
    out.append('"')
    return "".join(out)


def file_goal(path, content, opts, kinds):
    return "c47_file(%s,%s,%s,[%s],R)" % (fmt(S(path)), qstr(content), opts, ",".join(kind_term(k) for k in kinds))


def judge_file(acc, fam, tag, content, delivered, opts, kinds, r, w, path):
    base_case = {"fam": fam, "tag": tag, "opts": opts, "content_hex": content.encode("utf-8").hex() if len(content) < 64 else None,
                 "gen": gen_key(fam, tag)}
    if r.abn or r.status != "done" or len(r.sols) != 1:
        if len(kinds) > 1:
            # attribute to a grammar: run them one at a time
            for k in kinds:
                r1 = px.run_goals(w, [file_goal(path, delivered, opts, [k])])[0]
                judge_file(acc, fam, tag, content, delivered, opts, [k], r1, w, path)
            return
        k = kinds[0]
        what = r.abn or ("raised " + px.formal_sig(r.formal()) if r.status == "exc" else "no single solution")
        acc.case(True, "abnormal")
        acc.violation("%s %s opts=%s %s: %s" % (fam, k[0], opts, size_class(delivered), what),
                      dict(base_case, kind=list(k)), expected="an outcome", observed=what)
        return
    res = unlist(r.sols[0]["R"])[0]
    for k, t in zip(kinds, res):
        s1, s2, same = conv_sum(t[2]), conv_sum(t[3]), t[4]
        exp = expect(k, delivered)
        nt = nontrivial(fam, k, delivered)
        case = dict(base_case, kind=list(k))
        if s2 != exp:
            acc.case(nt, "deviation")
            acc.violation("%s %s: phrase/2 on the full list gives %s, expected %s" % (fam, k[0], cls(s2), cls(exp)),
                          case, expected=repr(exp)[:300], observed=repr(s2)[:300])
        elif s1 != exp or same != "same":
            acc.case(nt, "deviation")
            acc.violation("%s %s opts=%s %s: phrase_from_file gives %s, phrase/2 gives %s" % (
                fam, k[0], opts, size_class(delivered), cls(s1) if s1 != exp else "a different term", cls(exp)),
                case, expected=repr(exp)[:300], observed=repr(s1)[:300] + " same=" + str(same))
        else:
            acc.case(nt, "%s:%s:%s" % (fam, k[0], cls(exp)),
                     sample={"file": tag, "chars": len(content), "bytes": len(content.encode("utf-8")), "opts": opts,
                             "grammar": kind_term(k), "outcome": repr(exp)[:120]})


def gen_key(fam, tag):
    return [fam, tag]


def wdir():
    d = os.path.join(SCRATCH, str(os.getpid()))
    os.makedirs(d, exist_ok=True)
    return d


def run_shard(w, shard, tier):
    acc = px.ShardAcc()
    fs = all_files(tier)
    d = wdir()
    for i in shard[1]:
        fam, tag, content, kinds = fs[i]
        path = os.path.join(d, "c47_%d.txt" % i)
        w.put_file(path, content.encode("utf-8"))
        for opts, delivered in option_variants(tier, fam, tag, content):
            r = px.run_goals(w, [file_goal(path, delivered, opts, kinds)])[0]
            judge_file(acc, fam, tag, content, delivered, opts, kinds, r, w, path)
        try:
            os.remove(path)
        except OSError:
            pass
    return acc.result()


def recheck(w, case, tier):
    acc = px.ShardAcc()
    fam, tag = case["gen"]
    for t in ("quick", "thorough"):
        hit = [f for f in all_files(t) if f[0] == fam and f[1] == tag and
               (case.get("content_hex") is None or f[2].encode("utf-8").hex() == case["content_hex"])]
        if hit:
            break
    if not hit:
        return None
    fam, tag, content, kinds = hit[0]
    k = tuple(case["kind"])
    path = os.path.join(wdir(), "c47_replay.txt")
    w.put_file(path, content.encode("utf-8"))
    opts = case["opts"]
    delivered = content.encode("utf-8").decode("latin-1") if "binary" in opts else content
    r = px.run_goals(w, [file_goal(path, delivered, opts, [k])])[0]
    judge_file(acc, fam, tag, content, delivered, opts, [k], r, w, path)
    return acc.violations[0] if acc.violations else None
