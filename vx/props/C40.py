"""C40 — inference-limited execution is deterministic and faithful (DESIGN §6 C40).

No model of the inference counter (it is implementation defined).  For every
goal of a fixed list the check finds the threshold N (the least limit from
which no answer is inference_limit_exceeded), runs EVERY limit 0..N+2 twice
(the second pass in reverse order with unrelated goals in between) and checks

  deterministic   both passes give the same answer list for every limit
  shape           answers = solutions with R = true (only the last one may have
                  R = !) optionally followed by exactly one
                  R = inference_limit_exceeded, after which nothing follows
  faithful        the solutions reported are a prefix of G's own solutions; for
                  limits >= N they are all of them, and an exception of G is
                  passed through
  monotone        the solutions reported for L are a prefix of those for L+1;
                  once complete, always complete
  bound R         a pre-bound R filters the answers (R = foo gives none)
  nested          call_with_inference_limit(call_with_inference_limit(G,L1,R1),L2,R2)
                  for all L1, L2: the outer answers are a prefix of the inner
                  call's own answers (R2 = true/!) optionally followed by one
                  outer exceeded; with a generous outer limit the inner call
                  behaves exactly as it does alone; with a generous inner limit
                  the outer threshold exists and exceeds G's own threshold by a
                  constant that does not depend on the goal's inference count
                  (the inner count is charged to the outer counter).
"""
from vx.core import px
from vx.model import grpe

ID = "C40"
LEVEL = "exploration"
ENGINE = "PEX"
TECHNIQUE = "exhaustive sweep of every limit up to the measured threshold, metamorphic oracles (no counter model)"
RULE = ("a fixed list of goals (control constructs, library predicates, user recursion, goals that throw, goals that "
        "fail late, non-terminating goals) x every limit L in 0..N+2 (N = measured threshold; non-terminating goals: "
        "0..LCAP) x 2 passes, R pre-bound to {foo, true, !, inference_limit_exceeded} for every L, and for goals with "
        "N <= NEST_MAX every pair (L1, L2) of nested limits. A case is one (goal, limit[, limit]) run. "
        "Non-trivial: 0 < L < N (the limit cuts the computation short).")
LEVEL_TEXT = "every limit value in the stated range is executed; the oracles are relations between runs and with the plain goal"
ASSUMPTIONS = ["the plain goal run through the driver is the reference for the goal's own solutions",
               "whether the last solution reports true or ! is implementation defined (choice points left by indexing)",
               "driver transport"]
MIN_OUTCOMES = 3
WORKER_KWARGS = {"horizon": 3.0}

PROGRAM = """
c40_app([],L,L).
c40_app([H|T],L,[H|R]) :- c40_app(T,L,R).
c40_nrev([],[]).
c40_nrev([H|T],R) :- c40_nrev(T,RT), c40_app(RT,[H],R).
c40_loop :- c40_loop.
c40_down(0).
c40_down(N) :- N > 0, N1 is N-1, c40_down(N1).
c40_nat(0).
c40_nat(N) :- c40_nat(M), N is M+1.
c40_num(N, L) :- findall(I, between(1,N,I), L).
"""

EXC = "inference_limit_exceeded"


def nlist(n):
    return "[" + ",".join(str(i) for i in range(1, n + 1)) + "]"


# (name, goal text, infinite?)
GOALS_Q = [
    ("true", "true", False),
    ("fail", "fail", False),
    ("unify", "X = a", False),
    ("disj", "(X = a ; X = b)", False),
    ("member3", "member(X,[1,2,3])", False),
    ("member_gt", "(member(X,[1,2,3]), X > 1)", False),
    ("fail_late", "(member(X,[1,2,3]), X > 5)", False),
    ("naf", "\\+ member(x,[a,b])", False),
    ("ite", "(member(X,[1,2]) -> Y = a ; Y = b)", False),
    ("conj2", "(member(X,[1,2]), member(Y,[a,b]))", False),
    ("length2", "length(L, 2)", False),
    ("app_split", "c40_app(X, Y, [1,2,3])", False),
    ("lib_append", "append(X, Y, [1,2])", False),
    ("between5", "between(1,5,X)", False),
    ("findall3", "findall(X, member(X,[1,2,3]), L)", False),
    ("throw_late", "(member(X,[1,2]), X > 1, throw(oops))", False),
    ("sol_then_throw", "(X = 1 ; throw(oops))", False),
    ("caught", "catch((member(X,[1,2]), X > 1, throw(oops)), oops, X = caught)", False),
    ("once", "once(member(X,[1,2,3]))", False),
    ("cut_in_call", "(member(X,[1,2,3]), X >= 2, !)", False),
    ("atom_length", "atom_length(abc, X)", False),
    ("sort3", "sort([c,a,b], X)", False),
    ("forall", "forall(member(X,[1,2,3]), X > 0)", False),
    ("nrev5", "c40_nrev([1,2,3,4,5], R0)", False),
    ("nrev30", "c40_nrev(%s, R0)" % nlist(30), False),
    ("down50", "c40_down(50)", False),
    ("loop", "c40_loop", True),
    ("nat", "c40_nat(X)", True),
    ("length_enum", "length(L, N0)", True),
]
GOALS_T = GOALS_Q + [
    ("nrev60", "c40_nrev(%s, R0)" % nlist(60), False),
    ("down2000", "c40_down(2000)", False),
    ("setof", "setof(X-Y, member(X-Y,[2-b,1-a,3-a]), L)", False),
    ("bagof_free", "bagof(X, member(X-Y,[2-b,1-a,3-a]), L)", False),
    ("num200", "c40_num(200, L)", False),
    ("len_cut", "(length(L, N0), N0 >= 3, !)", False),
]
LCAP = {"quick": 120, "thorough": 400}       # limits swept for non-terminating goals
NEST_MAX = {"quick": 40, "thorough": 90}     # nested sweep for goals whose threshold is at most this
NMAX = 1 << 22


def goals(tier):
    return GOALS_T if tier == "thorough" else GOALS_Q


def bound_text(tier):
    return ("%d goals x every limit 0..N+2 x 2 passes + 4 pre-bound R values; non-terminating goals to limit %d; "
            "all nested limit pairs for goals with N <= %d" % (len(goals(tier)), LCAP[tier], NEST_MAX[tier]))


def shards(tier):
    return [("g", i) for i in range(len(goals(tier)))]


def setup(w, tier):
    grpe.consult_checked(w, ":- use_module(library(between)).\n:- use_module(library(lists)).\n" + PROGRAM, persist=True)


# ---------------------------------------------------------------------------
# observation

def answer_list(res, nested=False):
    """-> (status, [(canonical solution without the result variables, R)]) or, nested,
    (status, [((canonical solution, R1), R)])"""
    if res.abn:
        return ("abn:" + res.abn, [])
    out = []
    for s in res.sols:
        r = s.get("R")
        r = r if isinstance(r, str) else "?" + repr(r)
        rest = sorted((k, v) for k, v in s.items() if k not in ("R", "R1"))
        sol = grpe.canon(("s",) + tuple(v for _, v in rest))
        if nested:
            r1 = s.get("R1")
            r1 = r1 if isinstance(r1, str) else "?" + repr(r1)
            out.append(((sol, r1), r))
        else:
            out.append((sol, r))
    st = res.status
    if st == "exc":
        f = res.formal()
        st = "exc:" + (repr(f[1]) if f[0] == "$ball" else px.formal_sig(f))
    return (st, out)


def plain_answers(res):
    if res.abn:
        return ("abn:" + res.abn, [])
    out = [grpe.canon(("s",) + tuple(v for _, v in sorted(s.items()))) for s in res.sols]
    st = res.status
    if st == "exc":
        f = res.formal()
        st = "exc:" + (repr(f[1]) if f[0] == "$ball" else px.formal_sig(f))
    return (st, out)


def lim_text(g, l, r="R"):
    return "g(call_with_inference_limit(%s, %d, %s), 300)" % (g, l, r)


UNRELATED = "g((atom_length(abcdef, _), findall(Q, member(Q,[1,2,3]), _), catch(throw(x), _, true)))"


def has_exceeded(ans):
    return any(r == EXC for _, r in ans[1])


def shape_problem(ans, plain):
    """None or a short description; ans = (status, [(sol, R)])"""
    st, xs = ans
    if st.startswith("abn:"):
        return "abnormal"
    if st == "cap":
        return None if plain[0] == "cap" else "cap"
    n = len(xs)
    for i, (sol, r) in enumerate(xs):
        if r == EXC:
            if i != n - 1:
                return "answers_after_exceeded"
            if st != "done":
                return "exceeded_then_" + st.split(":")[0]
        elif r == "!":
            if i != n - 1:
                return "cut_result_on_nonlast_solution"
        elif r != "true":
            return "bad_R_value"
    sols = [s for s, r in xs if r != EXC]
    if sols != plain[1][:len(sols)]:
        return "solutions_not_a_prefix_of_the_goal's"
    if st.startswith("exc"):
        if st != plain[0]:
            return "wrong_exception"
        if len(sols) != len(plain[1]):
            return "exception_before_all_solutions"
    if st == "done" and not has_exceeded(ans):
        if plain[0] == "cap":
            return None
        if plain[0] != "done":
            return "completed_but_goal_raises"
        if len(sols) != len(plain[1]):
            return "solutions_missing_without_exceeded"
    return None


def sol_prefix_len(ans):
    return len([1 for _, r in ans[1] if r != EXC])


def complete(ans):
    return not ans[0].startswith("abn") and not has_exceeded(ans)


# ---------------------------------------------------------------------------

def run_shard(w, shard, tier):
    acc = px.ShardAcc()
    name, g, infinite = goals(tier)[shard[1]]
    explore(w, acc, name, g, infinite, tier)
    return acc.result()


def explore(w, acc, name, g, infinite, tier, only=None):
    def viol(kind, case, expected, observed):
        acc.violation("%s %s" % (name, kind), dict(case, goal=name, tier=tier), expected=expected, observed=repr(observed)[:800])

    if infinite:
        # the reference prefix of a non-terminating goal is taken under a generous limit
        a = answer_list(px.run_goals(w, [lim_text(g, 20000)])[0])
        plain = ("cap", [sol for sol, r in a[1] if r != EXC])
    else:
        plain = plain_answers(px.run_goals(w, ["g((%s), 300)" % g])[0])
    acc.extra["goals"] += 1
    # ---- threshold
    if infinite:
        top = LCAP[tier]
        N = None
    else:
        L = 1
        while True:
            a = answer_list(px.run_goals(w, [lim_text(g, L)])[0])
            if complete(a) or a[0].startswith("abn") or L >= NMAX:
                break
            L *= 2
        if not complete(a):
            viol("no_threshold", {"kind": "threshold"}, "some limit completes the goal", a)
            return
        top = L
    # ---- every limit, pass 1 ascending
    limits = list(range(0, top + 1))
    pass1 = [answer_list(r) for r in px.run_goals(w, [lim_text(g, l) for l in limits])]
    if not infinite:
        N = next(l for l in limits if complete(pass1[l]))
        limits = list(range(0, N + 3))
        extra = [answer_list(r) for r in px.run_goals(w, [lim_text(g, l) for l in limits[top + 1:]])]
        pass1 = (pass1 + extra)[:N + 3]
    acc.extra["threshold:%s" % name] = -1 if N is None else N
    # ---- pass 2 descending with unrelated goals in between
    texts = []
    for l in reversed(limits):
        texts.append(lim_text(g, l))
        texts.append(UNRELATED)
    rs = px.run_goals(w, texts)
    pass2 = [answer_list(r) for r in rs[0::2]][::-1]
    for l in limits:
        a = pass1[l]
        nt = N is None and l > 0 or (N is not None and 0 < l < N)
        label = "complete" if complete(a) else ("exceeded:%d" % min(sol_prefix_len(a), 3) if not a[0].startswith("abn") else "abnormal")
        if a[0].startswith("exc") :
            label = "exception"
        acc.case(nt, label, sample={"goal": g, "limit": l, "answers": repr(a)[:200]})
        case = {"kind": "limit", "L": l}
        if a != pass2[l]:
            viol("nondeterministic", case, a, pass2[l])
        p = shape_problem(a, plain)
        if p:
            viol("shape:" + p, case, "see module doc", a)
        if l > 0 and not a[0].startswith("abn") and not pass1[l - 1][0].startswith("abn"):
            b = pass1[l - 1]
            sb = [s for s, r in b[1] if r != EXC]
            sa = [s for s, r in a[1] if r != EXC]
            if sb != sa[:len(sb)]:
                viol("monotone:solutions_shrink", case, b, a)
            elif complete(b) and not complete(a):
                viol("monotone:complete_then_exceeded", case, b, a)
        if N is not None and l >= N and not complete(a):
            viol("threshold_not_upward_closed", case, "complete", a)
    # ---- pre-bound R (for non-terminating goals one limit only: a wrong outcome there is a hang)
    blimits = [5] if infinite else limits
    for rb in ("foo", "true", "!", EXC):
        rs = px.run_goals(w, ["g(call_with_inference_limit(%s, %d, %s), 300)" % (g, l, "'!'" if rb == "!" else rb) for l in blimits])
        for l, r in zip(blimits, rs):
            rbn = rb if rb != EXC else "exceeded"
            a = pass1[l]
            if a[0].startswith("abn"):
                continue
            if r.abn:
                acc.case(False, "boundR:%s:abnormal" % rbn)
                viol("boundR:%s:abnormal" % rbn, {"kind": "boundR", "L": l, "R": rb}, "terminates", r.abn)
                continue
            got = plain_answers(r)
            # the answers whose R equals the pre-bound value
            want = [s for s, rr in a[1] if rr == rb]
            ok = got[1] == want
            acc.case(False, "boundR:%s:%s" % (rbn, "ok" if ok else "differs"))
            if not ok:
                if rb in ("true", "!"):
                    # true/! is implementation defined for the last solution: accept the other reading too
                    alt = [s for s, rr in a[1] if rr in ("true", "!")]
                    if got[1] == alt[:len(got[1])] and len(want) - 1 <= len(got[1]) <= len(want) + 1 and len(got[1]) <= len(alt):
                        continue
                viol("boundR:%s:%s" % (rbn, "accepted" if len(got[1]) > len(want) else "lost"),
                     {"kind": "boundR", "L": l, "R": rb}, want, got)
    # ---- nested
    if N is not None and N <= NEST_MAX[tier]:
        nested(w, acc, name, g, N, pass1, plain, viol)


def nested(w, acc, name, g, N, alone, plain, viol):
    BIG = 100000
    rng = list(range(0, N + 3))

    def ntext(l1, l2):
        return "g(call_with_inference_limit(call_with_inference_limit(%s, %d, R1), %d, R), 300)" % (g, l1, l2)

    def inner_view(ans):
        """answers of the nested call seen as answers of the inner call: [(sol-with-R1...)]"""
        return ans

    # (a) generous outer limit: the inner call behaves as alone
    rs = px.run_goals(w, [ntext(l1, BIG) for l1 in rng])
    for l1, r in zip(rng, rs):
        a = answer_list(r, nested=True)
        acc.case(0 < l1 < N, "nested:outer_big")
        got = split_inner(a)
        if a[0].startswith("abn") or got != (alone[l1][0], alone[l1][1]):
            viol("nested:inner_disturbed", {"kind": "nested", "L1": l1, "L2": BIG}, alone[l1], a)
    # (b) generous inner limit: the outer threshold exists; offset to the goal's own threshold
    top = N + 60
    rs = px.run_goals(w, [ntext(BIG, l2) for l2 in range(0, top + 1)])
    outer = [answer_list(r, nested=True) for r in rs]
    n2 = next((l for l in range(0, top + 1) if complete(outer[l])), None)
    acc.extra["nested_offset:%s" % name] = -1 if n2 is None else n2 - N
    if n2 is None or n2 < N:
        viol("nested:outer_threshold", {"kind": "nested_threshold"}, "N <= outer threshold <= N+60 (N=%d)" % N, n2)
    OFFSET.setdefault(name, None if n2 is None else n2 - N)
    # (c) all pairs
    pairs = [(l1, l2) for l1 in rng for l2 in range(0, (n2 if n2 is not None else N) + 3)]
    for part in px.chunked(pairs, 400):
        rs = px.run_goals(w, [ntext(l1, l2) for l1, l2 in part])
        for (l1, l2), r in zip(part, rs):
            a = answer_list(r, nested=True)
            nt = 0 < l1 < N or 0 < l2 < (n2 or N)
            if a[0].startswith("abn"):
                acc.case(nt, "nested:abnormal")
                viol("nested:abnormal", {"kind": "nested", "L1": l1, "L2": l2}, "normal", a)
                continue
            p = nested_problem(a, alone[l1])
            acc.case(nt, "nested:%s" % ("outer_exceeded" if has_exceeded(a) else "outer_complete"))
            if p:
                viol("nested:" + p, {"kind": "nested", "L1": l1, "L2": l2}, alone[l1], a)


    # (d) work AFTER the nested call: the enclosing limit must still be in force once the inner call has
    # exited.  The nested form does every inference of the plain conjunction (G, W) and some more, so it
    # can only be complete under an outer limit under which the plain conjunction is complete too.
    W = "c40_down(10)"
    lim = 700
    # the two forms are not counted identically to the last inference (the nested form was seen to need one
    # inference LESS than the plain conjunction for a deterministic inner goal): W costs about 40, so a limit
    # that is lifted at the inner exit shows as completion far more than SLACK below the plain threshold
    SLACK = 12

    def ptext(l2):
        return "g(call_with_inference_limit((%s, %s), %d, R), 300)" % (g, W, l2)

    def wtext(l1, l2):
        return ("g(call_with_inference_limit((call_with_inference_limit(%s, %d, R1), %s), %d, R), 300)"
                % (g, l1, W, l2))
    rs = px.run_goals(w, [ptext(l2) for l2 in range(0, lim + 1)])
    plain_c = [complete(answer_list(r)) and not answer_list(r)[0].startswith("exc") for r in rs]
    has_sols = bool(plain[1]) if isinstance(plain, tuple) else True
    np_ = next((l for l in range(0, lim + 1) if plain_c[l]), None)
    if np_ is not None and has_sols:
        for l1 in (BIG, N + 5, N + 45):
            rs = px.run_goals(w, [wtext(l1, l2) for l2 in range(0, np_)])
            for l2, r in zip(range(0, np_), rs):
                a = answer_list(r, nested=True)
                acc.case(l2 > 0, "nested_then:%s" % ("cut_short" if not complete(a) else "complete"))
                if a[0].startswith("abn"):
                    viol("nested_then:abnormal %s" % a[0], {"kind": "nested_then", "L1": l1, "L2": l2}, "normal", a)
                elif l2 < np_ - SLACK and complete(a) and a[1] and not a[0].startswith("exc"):
                    viol("nested_then:outer_limit_not_enforced_after_inner_exit",
                         {"kind": "nested_then", "L1": l1, "L2": l2},
                         "inference_limit_exceeded (the plain conjunction needs a limit of %d)" % np_, a)


OFFSET = {}


def split_inner(a):
    """nested answers -> the inner call's answers (status, [(sol, R1)]) provided every outer result is true/!"""
    st, xs = a
    out = []
    for inner, r in xs:
        if r not in ("true", "!"):
            return (st + "+outer:" + r, [])
        out.append(inner)
    return (st, out)


def nested_problem(a, alone_l1):
    st, xs = a
    seq = []
    for i, (sol, r) in enumerate(xs):
        if r == EXC:
            if i != len(xs) - 1:
                return "answers_after_outer_exceeded"
            break
        if r not in ("true", "!"):
            return "bad_outer_R"
        if r == "!" and i != len(xs) - 1:
            return "outer_cut_result_on_nonlast"
        seq.append(sol)
    want = alone_l1[1]
    if seq != want[:len(seq)]:
        return "outer_answers_not_a_prefix_of_inner_alone"
    if not has_exceeded(a):
        if st != alone_l1[0]:
            return "status_differs_from_inner_alone"
        if len(seq) != len(want):
            return "inner_answers_missing_without_outer_exceeded"
    return None


class AllAcc(px.ShardAcc):
    """keeps every violation (the replayed case must be found among them)"""

    def violation(self, sig, case, expected=None, observed=None):
        self.nviol += 1
        self.violations.append({"sig": sig, "case": case, "expected": px._j(expected), "observed": px._j(observed)})


def recheck(w, case, tier):
    t = case.get("tier", tier)
    for name, g, infinite in goals(t):
        if name == case["goal"]:
            acc = AllAcc()
            explore(w, acc, name, g, infinite, t)
            for v in acc.violations:
                c = v["case"]
                if all(c.get(k) == case.get(k) for k in ("kind", "L", "L1", "L2", "R")):
                    return v
            return None
    return None
