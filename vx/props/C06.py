"""C06 — clause selection returns exactly the clauses whose heads unify (DESIGN §6 C06).

Families
  f1   p(Key, I): every ordered clause list of length <= N over the key alphabet,
       called with every key value through every route.  Modes: static
       (consulted, plus a no-index twin p(X,I) :- X = Key), dynamic built by
       assertz in order, dynamic built by asserta in reverse order, dynamic
       after retract of one clause, retract/1 with the key bound.
  f2   p(A1, A2, I): keys in the first and/or second argument (the indexed
       argument is chosen per clause run by codegen.rs split_predicate).
  seq  explicit-state search over update sequences assertz/asserta/retract on
       one dynamic predicate; after the last update of every sequence the
       clause/2 listing and the calls for every key value are compared.
Oracle: head-unification filter in textual order (vx.model.grpe.unify).
"""
import itertools
from fractions import Fraction

from vx.core import px, pool
from vx.core.terms import V, mklist
from vx.model import grpe

ID = "C06"
LEVEL = "model_checking"
ENGINE = "PEX"
TECHNIQUE = "bounded exhaustive enumeration of predicates x calls, explicit-state search over database updates"
RULE = ("f1: all ordered clause lists p(Key,I) of length <= N over 16 key kinds (atom a/b/[], fixnum 1/2, bignum 2^70, "
        "rational 1r2, float 1.5, strings \"ab\"/\"a\", list [x], partial list [a|T], f(x), f(Y), g(x,y), variable; "
        "computed-key encodings of 1 and 2^70 as extra head kinds in the dynamic modes), each called with every key value "
        "through every applicable route (lit, arith, chars, cons, attributed variable) in the modes static (+ no-index twin), "
        "assertz, asserta-reversed, after-retract, retract-with-bound-key; f2: keys in argument 1 and/or 2; "
        "seq: every update sequence of length <= L over {assertz k, asserta k, retract clause j} with 6 key kinds, "
        "checked after its last update (states = distinct clause/2 listings observed per first-operation shard, "
        "transitions = distinct sequences executed). Non-trivial: >= 2 clauses and either the index has to "
        "discriminate (at least one clause selected and one rejected) or the call reaches a head of the same type "
        "through a different route.")
LEVEL_TEXT = ("Every case is executed on the real compiler/indexer/dispatcher; the space is a complete enumeration of a "
              "finite alphabet built from the branches of select_switch_on_term_index, constant_key_alternatives, "
              "split_predicate and the dynamic index maintenance; the dynamic part is an explicit-state search.")
ASSUMPTIONS = ["the 80-line Python unifier (vx/model/grpe.py)", "driver transport", "clause/2 lists the database in order"]
MIN_OUTCOMES = 3
WORKER_KWARGS = {"horizon": 4.0}   # every request is a batch of millisecond goals

BIG = 2 ** 70

# kid -> (type class, abstract term)
KEYS = {
    "a": ("atom", "a"), "b": ("atom", "b"), "nil": ("atom", "[]"),
    "i1": ("fix", 1), "i2": ("fix", 2), "big": ("big", BIG), "rat": ("rat", Fraction(1, 2)),
    "flt": ("flt", 1.5),
    "sab": ("str", grpe.strlist("ab")), "sa": ("str", grpe.strlist("a")),
    "lx": ("lst", mklist(["x"])), "pl": ("plst", (".", "a", V("T"))),
    "fx": ("stc", ("f", "x")), "fy": ("stcv", ("f", V("Y"))), "gxy": ("stc", ("g", "x", "y")),
    "var": ("var", V("U")),
    # call-only values (a structure whose arguments look like the cells of a list head)
    "fa": ("stc", ("f", "a")), "gab": ("stc", ("g", "a", "b")),
}
ORDER = ["a", "b", "nil", "i1", "i2", "big", "rat", "flt", "sab", "sa", "lx", "pl", "fx", "fy", "gxy", "var"]

# source text of a key in a clause head / assert (route lit)
HEADTXT = {"a": "a", "b": "b", "nil": "[]", "i1": "1", "i2": "2", "big": str(BIG), "flt": "1.5",
           "sab": '"ab"', "sa": '"a"', "lx": "[x]", "pl": "[a|_]", "fx": "f(x)", "fy": "f(_)",
           "gxy": "g(x,y)", "var": "_"}
# computed encodings: kid -> {route: goal text with %s for the variable}
COMPUTED = {
    "i1": {"arith": "%s is 2^80-2^80+1"},
    "i2": {"arith": "%s is 2^80-2^80+2"},
    "big": {"arith": "%s is 2^69*2"},
    "rat": {"arith": "%s is 1 rdiv 2"},
    "flt": {"arith": "%s is 3.0/2"},
    "sab": {"chars": "atom_chars(ab,%s)", "cons": "(T0 =.. ['.',b,[]], %s =.. ['.',a,T0])"},
    "sa": {"chars": "atom_chars(a,%s)"},
    "lx": {"cons": "%s =.. ['.',x,[]]"},
    "pl": {"cons": "%s =.. ['.',a,T]"},
    "fx": {"cons": "%s =.. [f,x]"},
}
CALLTXT = dict(HEADTXT)
CALLTXT.update({"pl": "[a|T]", "fy": "f(Y)", "var": "U", "fa": "f(a)", "gab": "g(a,b)"})

# heads
H_STATIC = [(k, "lit") for k in ORDER if k != "rat"]
H_DYN = [(k, "lit") for k in ORDER if k != "rat"] + [("rat", "arith"), ("i1", "arith"), ("big", "arith")]
H_SEQ = [("a", "lit"), ("i1", "lit"), ("big", "lit"), ("lx", "lit"), ("fx", "lit"), ("var", "lit")]


def call_values():
    out = []
    for k in ORDER:
        if k != "rat":
            out.append((k, "lit"))
        for r in COMPUTED.get(k, {}):
            out.append((k, r))
    out.append(("var", "attr"))
    out.append(("fa", "lit"))
    out.append(("gab", "lit"))
    return out


CALLS = call_values()
CALLS_SEQ = [c for c in CALLS if c[1] in ("lit", "arith")]

# family 2
F2_FULL = ["var", "a", "i1", "big", "fx"]
F2_RED = ["var", "a", "big"]
F2_CALL_FULL = [("var", "lit"), ("a", "lit"), ("b", "lit"), ("i1", "lit"), ("i1", "arith"), ("big", "lit"),
                ("big", "arith"), ("fx", "lit")]
F2_CALL_RED = [("var", "lit"), ("a", "lit"), ("b", "lit"), ("big", "lit"), ("big", "arith")]


def bound_text(tier):
    if tier == "thorough":
        return ("f1: clause lists of length <= 4 static(+twin)/assertz (length 4 without the computed-key head kinds), <= 3 asserta/after-retract/bound-retract; "
                "f2: length <= 3 over 25 head shapes; seq: update sequences of length <= 4")
    return ("f1: clause lists of length <= 3 static(+twin)/assertz/asserta, <= 2 after-retract/bound-retract; "
            "f2: length <= 2 over 25 head shapes and length 3 over 9; seq: update sequences of length <= 3")


# ---------------------------------------------------------------------------
# shards

def shards(tier):
    T = tier == "thorough"
    sh = []
    n1 = 4 if T else 3
    for mode, heads, nmax in (("st", H_STATIC, n1), ("dz", H_DYN, n1), ("da", H_DYN, 3),
                              ("dr", H_DYN, 3 if T else 2), ("rk", H_DYN, 3 if T else 2)):
        sh.append(("f1", mode, "short"))            # lengths 1..2
        for n in range(3, nmax + 1):
            if n == 3:
                for i in range(len(heads)):
                    sh.append(("f1", mode, 3, i))
            else:
                h4 = [h for h in heads if h in H_STATIC or h == ("rat", "arith")]
                for i in range(len(h4)):
                    for j in range(len(h4)):
                        sh.append(("f1", mode, n, i, j))
    for mode in ("st", "dz"):
        sh.append(("f2", mode, "full", "short"))
        if T:
            for i in range(25):
                sh.append(("f2", mode, "full", 3, i))
        else:
            for i in range(9):
                sh.append(("f2", mode, "red", 3, i))
    nseq = 4 if T else 3
    sh.append(("seq", nseq, None))
    return [tuple(s) for s in expand_seq(sh, nseq)]


def expand_seq(sh, nseq):
    out = []
    for s in sh:
        if s[0] == "seq":
            # one shard per first operation (a first operation is always an assert)
            for i in range(len(H_SEQ)):
                out.append(("seq", nseq, "z", i))
                out.append(("seq", nseq, "a", i))
        else:
            out.append(s)
    return out


# ---------------------------------------------------------------------------
# model

def head_term(hk, idx):
    return grpe.rename(KEYS[hk[0]][1], "_h%d" % idx)


def call_term(ck):
    return grpe.rename(KEYS[ck[0]][1], "_c")


def expect_f1(heads, ids, ck):
    ct = call_term(ck)
    return [i for h, i in zip(heads, ids) if grpe.unify(head_term(h, i), ct, {}) is not None]


def expect_f2(heads, ck):
    c1 = grpe.rename(KEYS[ck[0][0]][1], "_c1")
    c2 = grpe.rename(KEYS[ck[1][0]][1], "_c2")
    out = []
    for i, (h1, h2) in enumerate(heads):
        t1 = grpe.rename(KEYS[h1][1], "_h1_%d" % i)
        t2 = grpe.rename(KEYS[h2][1], "_h2_%d" % i)
        s = grpe.unify(t1, c1, {})
        if s is not None and grpe.unify(t2, c2, s) is not None:
            out.append(i + 1)
    return out


# ---------------------------------------------------------------------------
# text generation

def key_goal(k, var):
    """(setup goal text or None, argument text) realising key k=(kid, route)"""
    kid, route = k
    if route == "lit":
        return None, None
    if route == "attr":
        return "freeze(%s,true)" % var, var
    return COMPUTED[kid][route] % var, var


def call_goal(pred, ck, extra_first=()):
    setup, arg = key_goal(ck, "K")
    if arg is None:
        arg = CALLTXT[ck[0]]
    args = list(extra_first) + [arg, "I"]
    g = "%s(%s)" % (pred, ",".join(args))
    return "%s, %s" % (setup, g) if setup else g


def head_arg(hk, var):
    setup, arg = key_goal(hk, var)
    if arg is None:
        arg = HEADTXT[hk[0]]
    return setup, arg


def build_goal(pred, heads, ids, how):
    """one goal that builds the dynamic predicate: how = 'z' (assertz in order) | 'a' (asserta reversed)"""
    parts = []
    seq = list(zip(heads, ids))
    if how == "a":
        seq = seq[::-1]
    for j, (h, i) in enumerate(seq):
        setup, arg = head_arg(h, "H%d" % j)
        if setup:
            parts.append(setup)
        parts.append("assert%s(%s(%s,%d))" % (how, pred, arg, i))
    return ", ".join(parts) if parts else "true"


def static_text(pred, heads, twin):
    out = ["%s(%s,%d)." % (pred, HEADTXT[h[0]], i + 1) for i, h in enumerate(heads)]
    if twin:
        out += ["%s(X,%d) :- X = %s." % (twin, i + 1, HEADTXT[h[0]]) for i, h in enumerate(heads)]
    return "\n".join(out)


# ---------------------------------------------------------------------------
# judging

def ids_of(res):
    return [s.get("I") for s in res.sols]


def judge(res, exp, heads, ids, ck, tag, lost=frozenset()):
    """-> (label, sig or None, observed).  `lost` = clause ids that even the call with an
    unbound key does not reach (a broken clause chain rather than a wrong index entry);
    they are named separately in the signature so that the two causes do not mix."""
    if res.abn:
        return "abnormal", "%s call=%s/%s %s" % (tag, KEYS[ck[0]][0], ck[1], res.abn), res.abn
    if res.status != "done":
        f = px.formal_sig(res.formal()) if res.status == "exc" else res.status
        return "error", "%s call=%s/%s status=%s" % (tag, KEYS[ck[0]][0], ck[1], f), str(res.exc)
    got = ids_of(res)
    if got == exp:
        return "sel:%d/%d" % (len(exp), len(heads)), None, got
    kind_of = {i: "%s/%s" % (KEYS[h[0]][0], h[1]) for h, i in zip(heads, ids)}
    missing = sorted({kind_of.get(i, "?") for i in exp if i not in got and i not in lost})
    unreach = sorted({kind_of.get(i, "?") for i in exp if i not in got and i in lost})
    extra = sorted({kind_of.get(i, "?") for i in got if i not in exp})
    dis = ""
    if not missing and not extra and not unreach:
        dis = " order" if sorted(got, key=str) == sorted(exp, key=str) and len(got) == len(exp) else " multiplicity"
    if unreach:
        dis += " +unreachable=" + ",".join(unreach)
    sig = "%s call=%s/%s missing=%s extra=%s%s" % (tag, KEYS[ck[0]][0], ck[1], ",".join(missing) or "-",
                                                   ",".join(extra) or "-", dis)
    return "wrong_selection", sig, got


UNBOUND = ("var", "lit")


def lost_ids(calls, rs, k, exp_all):
    """ids the unbound call fails to reach (calls must contain UNBOUND)"""
    r = rs[k + calls.index(UNBOUND)]
    if r.abn or r.status != "done":
        return frozenset()
    got = ids_of(r)
    return frozenset(i for i in exp_all if i not in got)


def nontrivial(heads, ck, exp):
    if len(heads) < 2:
        return False
    if 0 < len(exp) < len(heads):
        return True
    ccls = KEYS[ck[0]][0]
    return any(KEYS[h[0]][0] == ccls and h[1] != ck[1] for h in heads)


# ---------------------------------------------------------------------------
# family 1

def f1_preds(shard):
    _, mode, n = shard[:3]
    heads = H_STATIC if mode == "st" else H_DYN
    if n == "short":
        for ln in (1, 2):
            for t in itertools.product(heads, repeat=ln):
                yield list(t)
    elif n == 3:
        first = heads[shard[3]]
        for t in itertools.product(heads, repeat=2):
            yield [first] + list(t)
    else:
        # length 4: the two extra computed-key head kinds of the dynamic alphabet are left out
        heads = [h for h in heads if h in H_STATIC or h == ("rat", "arith")]
        f1, f2 = heads[shard[3]], heads[shard[4]]
        for t in itertools.product(heads, repeat=n - 2):
            yield [f1, f2] + list(t)


def f1_variants(mode, heads):
    """-> list of (variant tag, surviving heads, surviving ids, extra)"""
    n = len(heads)
    ids = list(range(1, n + 1))
    if mode in ("st", "dz", "da"):
        return [(None, heads, ids)]
    return [(j, heads[:j] + heads[j + 1:], ids[:j] + ids[j + 1:]) for j in range(n)]


def run_f1(w, mode, predlist, calls, acc, case_base):
    """predlist: list of head lists.  Creates every predicate, runs all calls, judges."""
    jobs = []  # (pred name, heads(all), variant j, live heads, live ids)
    ctext = []
    n = 0
    for heads in predlist:
        for (j, lh, li) in f1_variants(mode, heads):
            name = "p%d" % n
            n += 1
            jobs.append((name, heads, j, lh, li))
            if mode == "st":
                ctext.append(static_text(name, heads, "t" + name))
            else:
                ctext.append(":- dynamic(%s/2)." % name)
    consults = ["\n".join(part) + "\n" for part in px.chunked(ctext, 500)]
    cmds = []
    for (name, heads, j, lh, li) in jobs:
        goals = []
        ids = list(range(1, len(heads) + 1))
        if mode == "da":
            goals.append(build_goal(name, heads, ids, "a"))
        elif mode in ("dz", "dr", "rk"):
            goals.append(build_goal(name, heads, ids, "z"))
        if mode == "dr":
            goals.append("retract(%s(_,%d))" % (name, j + 1))
        if mode == "rk":
            setup, arg = head_arg(heads[j], "R")
            goals.append(("%s, " % setup if setup else "") + "retract(%s(%s,%d))" % (name, arg, j + 1))
            goals.append("clause(%s(_,I),true)" % name)
        else:
            for ck in calls:
                goals.append(call_goal(name, ck))
            if mode == "st":
                for ck in calls:
                    goals.append(call_goal("t" + name, ck))
        cmds.append(goals)
    allres = grpe.run_robust(w, consults, cmds)
    for (name, heads, j, lh, li), goals, rs in zip(jobs, cmds, allres):
        ids = list(range(1, len(heads) + 1))
        k = 0
        hl = [list(h) for h in heads]
        if rs[0].abn:
            acc.case(True, "abnormal")
            acc.violation("f1:%s abnormal heads=%s%s what=%s" % (
                mode, ",".join("%s/%s" % (KEYS[h[0]][0], h[1]) for h in heads),
                "" if j is None else " retracted=%s/%s" % (KEYS[heads[j][0]][0], heads[j][1]), rs[0].abn),
                dict(case_base, heads=hl, j=j), expected="normal termination", observed=rs[0].abn)
            continue
        if mode != "st":
            k = check_setup(rs[0], acc, "f1:%s build" % mode, dict(case_base, heads=hl))
        if mode == "dr":
            k += check_setup(rs[k], acc, "f1:dr retract", dict(case_base, heads=hl, j=j))
        if mode == "rk":
            # retract/1 with the key bound must find and remove exactly clause j
            r = rs[k]
            hk = heads[j]
            tag = "f1:rk"
            case = dict(case_base, heads=hl, j=j)
            okr = (not r.abn) and r.status == "done" and len(r.sols) == 1
            exp_left = li
            lst = rs[k + 1]
            got_left = ids_of(lst) if lst.status == "done" else lst.status
            nt = len(heads) >= 2
            if okr and got_left == exp_left:
                acc.case(nt, "retract_ok", sample={"heads": hl, "retract": j})
            else:
                acc.case(nt, "retract_wrong")
                sig = "%s key=%s/%s retract=%s left=%s" % (
                    tag, KEYS[hk[0]][0], hk[1],
                    r.abn or ("ok" if okr else ("failed" if r.status == "done" else "status:" + str(r.status))),
                    "ok" if got_left == exp_left else "wrong")
                acc.violation(sig, case, expected={"retract": "succeeds once", "left": exp_left},
                              observed={"retract_sols": len(r.sols), "status": r.status, "left": got_left})
            continue
        lost = lost_ids(calls, rs, k, li)
        for ci, ck in enumerate(calls):
            exp = expect_f1(lh, li, ck)
            r = rs[k + ci]
            label, sig, got = judge(r, exp, heads, ids, ck, "f1:%s" % mode, lost)
            acc.case(nontrivial(lh, ck, exp), label,
                     sample={"mode": mode, "heads": hl, "call": list(ck), "expected": exp, "observed": got})
            if sig:
                acc.violation(sig, dict(case_base, heads=hl, j=j, call=list(ck)), expected=exp, observed=got)
            if mode == "st":
                rt = rs[k + len(calls) + ci]
                label, sig, got = judge(rt, exp, heads, ids, ck, "f1:twin")
                acc.case(False, "twin:" + label)
                if sig:
                    acc.violation(sig, dict(case_base, heads=hl, j=j, call=list(ck), twin=True),
                                  expected=exp, observed=got)


def check_setup(r, acc, tag, case):
    """a build/update goal must succeed exactly once"""
    if r.abn or r.status != "done" or len(r.sols) != 1:
        acc.violation("%s %s" % (tag, r.abn or ("failed" if r.status == "done" else px.formal_sig(r.formal()) if r.status == "exc" else r.status)),
                      case, expected="succeeds once", observed=str(r))
    return 1


# ---------------------------------------------------------------------------
# family 2

def f2_preds(shard):
    _, mode, alpha, n = shard[:4]
    ks = F2_FULL if alpha == "full" else F2_RED
    opts = [(a, b) for a in ks for b in ks]
    if n == "short":
        for ln in (1, 2):
            for t in itertools.product(opts, repeat=ln):
                yield list(t)
    else:
        first = opts[shard[4]]
        for t in itertools.product(opts, repeat=2):
            yield [first] + list(t)


def f2_call_goal(name, ck):
    parts = []
    args = []
    for pos, c in enumerate(ck):
        setup, arg = key_goal(c, "K%d" % pos)
        if arg is None:
            arg = "U%d" % pos if c[0] == "var" else CALLTXT[c[0]]
        if setup:
            parts.append(setup)
        args.append(arg)
    parts.append("%s(%s,%s,I)" % (name, args[0], args[1]))
    return ", ".join(parts)


def run_f2(w, mode, alpha, predlist, calls, acc):
    ctext = []
    for n, heads in enumerate(predlist):
        name = "q%d" % n
        if mode == "st":
            ctext.append("\n".join("%s(%s,%s,%d)." % (name, HEADTXT[a], HEADTXT[b], i + 1)
                                   for i, (a, b) in enumerate(heads)))
        else:
            ctext.append(":- dynamic(%s/3)." % name)
    consults = ["\n".join(part) + "\n" for part in px.chunked(ctext, 500)]
    cmds = []
    for n, heads in enumerate(predlist):
        name = "q%d" % n
        goals = []
        if mode != "st":
            goals.append(", ".join("assertz(%s(%s,%s,%d))" % (name, HEADTXT[a], HEADTXT[b], i + 1)
                                   for i, (a, b) in enumerate(heads)))
        for ck in calls:
            goals.append(f2_call_goal(name, ck))
        cmds.append(goals)
    allres = grpe.run_robust(w, consults, cmds)
    for heads, rs in zip(predlist, allres):
        hl = [list(h) for h in heads]
        k = 0
        case_base = {"fam": "f2", "mode": mode, "heads": hl}
        if rs[0].abn:
            acc.case(True, "abnormal")
            acc.violation("f2:%s abnormal heads=%s what=%s" % (
                mode, ";".join("%s,%s" % (KEYS[a][0], KEYS[b][0]) for a, b in heads), rs[0].abn),
                case_base, expected="normal termination", observed=rs[0].abn)
            continue
        if mode != "st":
            k = check_setup(rs[0], acc, "f2:%s build" % mode, case_base)
        for ci, ck in enumerate(calls):
            exp = expect_f2(heads, ck)
            r = rs[k + ci]
            label, sig, got = judge_f2(r, exp, heads, ck, "f2:%s" % mode)
            nt = len(heads) >= 2 and 0 < len(exp) < len(heads)
            acc.case(nt, label, sample={"mode": mode, "heads": hl, "call": [list(c) for c in ck], "expected": exp,
                                        "observed": got})
            if sig:
                acc.violation(sig, dict(case_base, call=[list(c) for c in ck]), expected=exp, observed=got)


def judge_f2(res, exp, heads, ck, tag):
    cs = "%s/%s,%s/%s" % (KEYS[ck[0][0]][0], ck[0][1], KEYS[ck[1][0]][0], ck[1][1])
    if res.abn:
        return "abnormal", "%s call=%s %s" % (tag, cs, res.abn), res.abn
    if res.status != "done":
        f = px.formal_sig(res.formal()) if res.status == "exc" else res.status
        return "error", "%s call=%s status=%s" % (tag, cs, f), str(res.exc)
    got = ids_of(res)
    if got == exp:
        return "sel:%d/%d" % (len(exp), len(heads)), None, got
    # name each wrongly treated clause by (call encoding at the clause's indexed argument -> kind of its key there);
    # the indexed argument of a clause is its first non-variable argument (codegen.rs split_predicate)
    def pair(i):
        h = heads[i - 1]
        pos = 0 if h[0] != "var" else 1
        return "%s/%s->%s" % (KEYS[ck[pos][0]][0], ck[pos][1], KEYS[h[pos]][0])
    missing = sorted({pair(i) for i in exp if i not in got})
    extra = sorted({pair(i) for i in got if i not in exp})
    dis = "" if (missing or extra) else " order"
    return "wrong_selection", "%s miss=%s extra=%s%s" % (tag, ",".join(missing) or "-",
                                                         ",".join(extra) or "-", dis), got


# ---------------------------------------------------------------------------
# explicit-state search over update sequences

def seq_enumerate(nseq, first):
    """all op sequences of length 1..nseq starting with `first`; an op is
    ['z', hi] / ['a', hi] (assert key H_SEQ[hi]) or ['r', j] (retract the clause at position j)"""
    def rec(ops, length):
        yield ops
        if len(ops) == nseq:
            return
        for hi in range(len(H_SEQ)):
            yield from rec(ops + [["z", hi]], length + 1)
            yield from rec(ops + [["a", hi]], length + 1)
        for j in range(length):
            yield from rec(ops + [["r", j]], length - 1)
    yield from rec([first], 1)


def seq_model(ops):
    """-> clause list [(head kind, id)] after ops; ids are 1-based step numbers"""
    db = []
    for step, op in enumerate(ops):
        if op[0] == "z":
            db.append((H_SEQ[op[1]], step + 1))
        elif op[0] == "a":
            db.insert(0, (H_SEQ[op[1]], step + 1))
        else:
            del db[op[1]]
    return db


def seq_goals(name, ops):
    """update goals; retract addresses the clause by its unique id (key unbound)"""
    db = []
    gs = []
    for step, op in enumerate(ops):
        if op[0] in "za":
            h = H_SEQ[op[1]]
            gs.append("assert%s(%s(%s,%d))" % (op[0], name, HEADTXT[h[0]], step + 1))
            if op[0] == "z":
                db.append(step + 1)
            else:
                db.insert(0, step + 1)
        else:
            gs.append("retract(%s(_,%d))" % (name, db[op[1]]))
            del db[op[1]]
    return ", ".join(gs)


def run_seq(w, seqs, acc, calls=CALLS_SEQ):
    names = ["u%d" % i for i in range(len(seqs))]
    consults = ["\n".join(":- dynamic(%s/2)." % n for n in part) + "\n" for part in px.chunked(names, 2000)]
    cmds = []
    for name, ops in zip(names, seqs):
        goals = [seq_goals(name, ops), "clause(%s(_,I),true)" % name]
        for ck in calls:
            goals.append(call_goal(name, ck))
        cmds.append(goals)
    allres = grpe.run_robust(w, consults, cmds)
    states = set()
    for ops, rs in zip(seqs, allres):
        db = seq_model(ops)
        heads = [h for h, _ in db]
        ids = [i for _, i in db]
        case = {"fam": "seq", "ops": ops}
        if rs[0].abn:
            acc.case(True, "abnormal")
            acc.transitions += 1
            acc.violation("seq(%s) abnormal keys=%s what=%s" % (
                "".join(o[0] for o in ops),
                ",".join(KEYS[H_SEQ[o[1]][0]][0] if o[0] in "za" else str(o[1]) for o in ops), rs[0].abn),
                case, expected="normal termination", observed=rs[0].abn)
            continue
        check_setup(rs[0], acc, "seq(%s) updates" % "".join(o[0] for o in ops), case)
        acc.transitions += 1
        lst = rs[1]
        got = ids_of(lst) if lst.status == "done" and not lst.abn else (lst.abn or lst.status)
        if isinstance(got, list):
            states.add(tuple(got))
        if got != ids:
            acc.case(True, "listing_wrong")
            acc.violation("seq(%s) listing %s" % ("".join(o[0] for o in ops), "wrong" if isinstance(got, list) else got), case,
                          expected=ids, observed=got)
        lost = lost_ids(calls, rs, 2, ids)
        for ci, ck in enumerate(calls):
            exp = expect_f1(heads, ids, ck)
            r = rs[2 + ci]
            label, sig, got = judge(r, exp, heads, ids, ck, "seq(%s)" % "".join(o[0] for o in ops), lost)
            acc.case(nontrivial(heads, ck, exp), label,
                     sample={"ops": ops, "call": list(ck), "expected": exp, "observed": got})
            if sig:
                acc.violation(sig, dict(case, call=list(ck)), expected=exp, observed=got)
    acc.states += len(states)


# ---------------------------------------------------------------------------

def setup(w, tier):
    grpe.consult_checked(w, ":- use_module(library(freeze)).\n", persist=True)


def run_shard(w, shard, tier):
    acc = px.ShardAcc()
    fam = shard[0]
    if fam == "f1":
        mode = shard[1]
        preds = list(f1_preds(shard))
        for part in px.chunked(preds, 1500 if mode in ("st", "dz", "da") else 600):
            run_f1(w, mode, part, CALLS, acc, {"fam": "f1", "mode": mode})
    elif fam == "f2":
        mode, alpha = shard[1], shard[2]
        preds = list(f2_preds(shard))
        cv = F2_CALL_FULL if alpha == "full" else F2_CALL_RED
        calls = [(a, b) for a in cv for b in cv]
        for part in px.chunked(preds, 1500):
            run_f2(w, mode, alpha, part, calls, acc)
    else:
        _, nseq, how, hi = shard
        seqs = list(seq_enumerate(nseq, [how, hi]))
        for part in px.chunked(seqs, 4000):
            run_seq(w, part, acc)
    return acc.result()


def recheck(w, case, tier):
    acc = px.ShardAcc()
    fam = case["fam"]
    # a case without "call" is a command-level observation (build failure, abnormal ending):
    # re-run it with the complete call list, as the explorer did
    if fam == "f1":
        heads = [tuple(h) for h in case["heads"]]
        mode = case["mode"]
        calls = [UNBOUND] + ([tuple(case["call"])] if tuple(case["call"]) != UNBOUND else []) if "call" in case else CALLS
        run_f1(w, mode, [heads], calls, acc, {"fam": "f1", "mode": mode})
        vs = [v for v in acc.violations if v["case"].get("j") == case.get("j")]
    elif fam == "f2":
        heads = [tuple(h) for h in case["heads"]]
        if "call" in case:
            calls = [tuple(tuple(c) for c in case["call"])]
        else:
            cv = F2_CALL_FULL
            calls = [(a, b) for a in cv for b in cv]
        run_f2(w, case["mode"], None, [heads], calls, acc)
        vs = acc.violations
    else:
        calls = [UNBOUND] + ([tuple(case["call"])] if tuple(case["call"]) != UNBOUND else []) if "call" in case else CALLS_SEQ
        run_seq(w, [case["ops"]], acc, calls=calls)
        vs = acc.violations
    for v in vs:
        c = v["case"]
        if c.get("call") == case.get("call") and bool(c.get("twin")) == bool(case.get("twin")):
            return v
    # the same command may now end abnormally as a whole
    for v in vs:
        if "call" not in v["case"]:
            return v
    return None
