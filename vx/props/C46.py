"""C46 — clp(B) decides satisfiability and counts models exactly (DESIGN §6 C46).

Every formula of the space is posted on the real library(clpb) in five
independent observations (each inside findall/3, so nothing is shared):
  S  findall(Vs, sat(F), S)                       success + the bindings sat/1 makes
  L  findall(Vs, (sat(F), labeling(Vs)), L)       all labelings of [X,Y,Z]
  C  sat_count(F, N)                               models over the formula's own variables
  C2 sat(F), sat_count(+[1|Vs], N)                 models over [X,Y,Z] after posting
  T  findall(T, taut(F, T), Ts)
Oracle: the truth table over the 2^3 assignments, computed in Python.
A second family posts two formulas one after the other (sat(F1), sat(F2))
and compares with the truth table of the conjunction.
"""
import itertools

from vx.core import px
from vx.core.terms import V, fmt, unlist, mklist

ID = "C46"
LEVEL = "exploration"
ENGINE = "PEX"
TECHNIQUE = "truth-table oracle over all 2^3 assignments for sat/1, taut/2, sat_count/2, labeling/1"
RULE = ("all formulas of depth <= 2 over leaves {0,1,X,Y,Z} and connectives ~ * + # =:= =\\= =< >= < > "
        "(quick: at most one compound argument at the top; thorough: both compound), card(Is,Es), +(Es), *(Es) for all "
        "lists Es of length <= 3 over {X,Y,Z,1,~X,X*Y} and Is over the subsets of {0..3} and three range forms; "
        "ordered pairs of depth-1 formulas posted in sequence; a wide family over 4, 5 and 6 variables (n-ary +, *, card with "
        "every k, xor/equivalence/implication chains and their pairwise combinations with * + # =<). Non-trivial: 0 < models < 2^n.")
LEVEL_TEXT = ("bounded exhaustive input-space exploration with an exact oracle (the truth table); labeling is compared "
              "as a multiset, sat_count exactly, taut/2 in both directions")
ASSUMPTIONS = ["findall/3 and the driver transport", "Python integer truth tables",
               "bindings made by sat/1 are only required to be sound (a value or an aliasing that holds in every model); "
               "whether every forced value is bound is recorded, not compared"]
MIN_OUTCOMES = 4

X, Y, Z = V("X"), V("Y"), V("Z")
VARS = ["X", "Y", "Z"]
LEAVES = [0, 1, X, Y, Z]
BIN = ["*", "+", "#", "=:=", "=\\=", "=<", ">=", "<", ">"]

HELPERS = r"""
:- use_module(library(clpb)).
:- use_module(library(lists)).

c46_f(T, G, L) :- catch(findall(T, G, L), E, c46_err(E, L)).
c46_err(E, L) :- ( nonvar(E), E = error(F, _) -> L = exc(F) ; L = exc(ball(E)) ).

c46_all(F, Vs, r(S, L, C, C2, T)) :-
    c46_f(Vs, sat(F), S),
    c46_f(Vs, (sat(F), labeling(Vs)), L),
    c46_f(N, sat_count(F, N), C),
    c46_f(N, (sat(F), sat_count(+[1|Vs], N)), C2),
    c46_f(T0, taut(F, T0), T).

c46_seq(F1, F2, Vs, r(S, L, C2)) :-
    c46_f(Vs, (sat(F1), sat(F2)), S),
    c46_f(Vs, (sat(F1), sat(F2), labeling(Vs)), L),
    c46_f(N, (sat(F1), sat(F2), sat_count(+[1|Vs], N)), C2).
"""


def bound_text(tier):
    return ("formulas of depth <= 2 over 5 leaves and 10 connectives (%s), card/+/* over lists of length <= 3, "
            "pairs of depth-1 formulas posted in sequence" % ("both arguments compound" if tier == "thorough"
                                                               else "one compound argument"))


# ---------------------------------------------------------------------------
# space

def depth1():
    out = list(LEAVES)
    out += [("~", a) for a in LEAVES]
    out += [(op, a, b) for op in BIN for a in LEAVES for b in LEAVES]
    return out


def compounds1():
    return [f for f in depth1() if isinstance(f, tuple)]


def formulas(tier):
    d1 = depth1()
    for f in d1:
        yield f
    c1 = compounds1()
    for f in c1:
        yield ("~", f)
    for op in BIN:
        for f in c1:
            for l in LEAVES:
                yield (op, f, l)
                yield (op, l, f)
    if tier == "thorough":
        for op in BIN:
            for f in c1:
                for g in c1:
                    yield (op, f, g)


ELEMS = [X, Y, Z, 1, ("~", X), ("*", X, Y)]
IS_FORMS = [list(s) for n in range(0, 5) for s in itertools.combinations([0, 1, 2, 3], n)] + \
           [[("-", 0, 1)], [("-", 1, 3)], [0, ("-", 2, 3)]]


def list_formulas():
    for n in range(0, 4):
        for es in itertools.product(ELEMS, repeat=n):
            es = list(es)
            yield ("+l", es)
            yield ("*l", es)
            for is_ in IS_FORMS:
                yield ("card", is_, es)


def wide_base(n):
    vs = [V(x) for x in WIDE[:n]]
    out = [("+l", vs), ("*l", vs)]
    out += [("card", [k], vs) for k in range(n + 1)]
    out += [("card", [("-", 0, 1)], vs), ("card", [("-", 1, n - 1)], vs), ("card", list(range(0, n + 1, 2)), vs)]
    x = vs[0]
    e = vs[0]
    for v in vs[1:]:
        x = ("#", x, v)
        e = ("=:=", e, v)
    out += [x, e]
    out.append(("*l", [("=<", a, b) for a, b in zip(vs, vs[1:])]))
    out.append(("+l", [("*", a, b) for a, b in zip(vs[0::2], vs[1::2])]))
    out.append(("*l", [("+", a, b) for a, b in zip(vs[0::2], vs[1::2])]))
    out.append(("card", [1], [("*", a, b) for a, b in zip(vs, vs[1:])]))
    out.append(("card", [1, 2], [("~", v) for v in vs]))
    return out


def wide_formulas():
    for n in (4, 5, 6):
        base = wide_base(n)
        for f in base:
            yield n, f
            yield n, ("~", f)
        for op in ("*", "+", "#", "=<"):
            for f in base:
                for g in base:
                    yield n, (op, f, g)


def seq_pairs(tier):
    if tier == "thorough":
        base = depth1()
    else:
        vs = [X, Y, Z]
        base = vs + [("~", a) for a in vs] + [(op, a, b) for op in BIN for a in vs for b in vs]
    for f in base:
        for g in base:
            yield (f, g)


NSH = {"quick": (24, 8, 8), "thorough": (160, 8, 32)}
NWIDE = 16


def shards(tier):
    a, b, c = NSH[tier]
    return ([("f", i, a) for i in range(a)] + [("l", i, b) for i in range(b)] + [("s", i, c) for i in range(c)] +
            [("w", i, NWIDE) for i in range(NWIDE)])


# ---------------------------------------------------------------------------
# formula text / semantics

def ftext(f):
    if isinstance(f, int):
        return str(f)
    if isinstance(f, V):
        return f.n
    k = f[0]
    if k == "+l":
        return "+([%s])" % ",".join(ftext(e) for e in f[1])
    if k == "*l":
        return "*([%s])" % ",".join(ftext(e) for e in f[1])
    if k == "card":
        is_ = ",".join("%d-%d" % (i[1], i[2]) if isinstance(i, tuple) else str(i) for i in f[1])
        return "card([%s],[%s])" % (is_, ",".join(ftext(e) for e in f[2]))
    if k == "~":
        return "~(%s)" % ftext(f[1])
    return "%s(%s,%s)" % (k, ftext(f[1]), ftext(f[2]))


def ev(f, env):
    if isinstance(f, int):
        return f
    if isinstance(f, V):
        return env[f.n]
    k = f[0]
    if k == "~":
        return 1 - ev(f[1], env)
    if k == "+l":
        return 1 if any(ev(e, env) for e in f[1]) else 0
    if k == "*l":
        return 1 if all(ev(e, env) for e in f[1]) else 0
    if k == "card":
        n = sum(ev(e, env) for e in f[2])
        for i in f[1]:
            if isinstance(i, tuple):
                if i[1] <= n <= i[2]:
                    return 1
            elif i == n:
                return 1
        return 0
    a, b = ev(f[1], env), ev(f[2], env)
    if k == "*":
        return a & b
    if k == "+":
        return a | b
    if k in ("#", "=\\="):
        return a ^ b
    if k == "=:=":
        return 1 - (a ^ b)
    if k == "=<":
        return 1 if a <= b else 0
    if k == ">=":
        return 1 if a >= b else 0
    if k == "<":
        return 1 if a < b else 0
    if k == ">":
        return 1 if a > b else 0
    raise ValueError(k)


def fvars(f, acc=None):
    acc = set() if acc is None else acc
    if isinstance(f, V):
        acc.add(f.n)
    elif isinstance(f, tuple):
        for a in f[1:]:
            if isinstance(a, list):
                for e in a:
                    fvars(e, acc)
            else:
                fvars(a, acc)
    return acc


def models(fs, vars_=None):
    vars_ = vars_ or VARS
    out = []
    for vals in itertools.product((0, 1), repeat=len(vars_)):
        env = dict(zip(vars_, vals))
        if all(ev(f, env) for f in fs):
            out.append(vals)
    return out


def jf(f):
    if isinstance(f, V):
        return {"v": f.n}
    if isinstance(f, tuple):
        return [jf(a) for a in f]
    if isinstance(f, list):
        return {"l": [jf(a) for a in f]}
    return f


def uf(j):
    if isinstance(j, dict):
        if "v" in j:
            return V(j["v"])
        return [uf(a) for a in j["l"]]
    if isinstance(j, list):
        return tuple(uf(a) for a in j)
    return j


def skeleton(f):
    if isinstance(f, (int, V)):
        return "leaf"
    k = f[0]
    if k in ("+l", "*l"):
        return "%s/%d" % (k, len(f[1]))
    if k == "card":
        return "card/%d" % len(f[2])
    return "%s(%s)" % (k, ",".join("leaf" if isinstance(a, (int, V)) else a[0] for a in f[1:]))


# ---------------------------------------------------------------------------
# judging

def conv_list(t):
    if isinstance(t, tuple) and t and t[0] == "exc":
        return ("exc", px.formal_sig(t[1]))
    el, _ = unlist(t)
    return el


def row(t):
    el, _ = unlist(t)
    return tuple(el)


def check_bindings(srow, M):
    """soundness of the bindings made by sat/1; -> (problem or None, complete?)"""
    complete = True
    for i, v in enumerate(srow):
        vals = {m[i] for m in M}
        if isinstance(v, V):
            if len(vals) == 1:
                complete = False
        elif isinstance(v, int) and not isinstance(v, bool):
            if vals != {v}:
                return "unsound-value", complete
        else:
            return "non-boolean-binding", complete
    for i in range(len(srow)):
        for j in range(i + 1, len(srow)):
            if isinstance(srow[i], V) and srow[i] == srow[j]:
                if any(m[i] != m[j] for m in M):
                    return "unsound-aliasing", complete
    return None, complete


def judge_obs(fs, robs, single, vars_=None):
    """fs: list of formulas posted; robs: r(...) term; -> (label, [(kind, expected, observed)], extra flags)"""
    vars_ = vars_ or VARS
    nvars = len(vars_)
    M = models(fs, vars_)
    viols = []
    flags = []
    args = robs[1:]
    S = conv_list(args[0])
    L = conv_list(args[1])
    # sat success + bindings
    if isinstance(S, tuple):
        viols.append(("sat exception:" + S[1], "success" if M else "failure", S[1]))
    elif M and len(S) != 1:
        viols.append(("sat %s" % ("fails-on-satisfiable" if not S else "succeeds-%d-times" % len(S)), "1 success", len(S)))
    elif not M and S:
        viols.append(("sat succeeds-on-unsatisfiable", "failure", "success"))
    elif M:
        prob, complete = check_bindings(row(S[0]), M)
        if prob:
            viols.append(("sat " + prob, "models %s" % (M,), px.terms.show(S[0])))
        if not complete:
            flags.append("sat_forced_value_left_unbound")
    # labeling
    if isinstance(L, tuple):
        viols.append(("labeling exception:" + L[1], str(M), L[1]))
    else:
        rows = sorted(row(x) for x in L) if all(all(isinstance(e, int) for e in row(x)) for x in L) else None
        if rows is None:
            viols.append(("labeling non-ground", str(M), px.terms.show(args[1])))
        elif rows != sorted(M):
            es, os_ = set(M), set(rows)
            kind = "missing" if es - os_ and not os_ - es else "extra" if os_ - es and not es - os_ else \
                "duplicates" if es == os_ else "wrong"
            viols.append(("labeling " + kind, str(sorted(M)), str(rows)))
    if single:
        f = fs[0]
        C = conv_list(args[2])
        C2 = conv_list(args[3])
        T = conv_list(args[4])
        nv = len(fvars(f))
        expc = len(M) // (2 ** (nvars - nv))
        if isinstance(C, tuple):
            viols.append(("sat_count exception:" + C[1], expc, C[1]))
        elif C != [expc]:
            viols.append(("sat_count wrong", [expc], px.terms.show(args[2])))
        expt = [1] if len(M) == 2 ** nvars else [0] if not M else []
        if isinstance(T, tuple):
            viols.append(("taut exception:" + T[1], expt, T[1]))
        elif T != expt:
            viols.append(("taut exp=%s obs=%s" % (expt, px.terms.show(args[4])), expt, px.terms.show(args[4])))
    else:
        C2 = conv_list(args[2])
    expc2 = [len(M)] if M else []
    if isinstance(C2, tuple):
        viols.append(("sat_count-after-sat exception:" + C2[1], expc2, C2[1]))
    elif C2 != expc2:
        viols.append(("sat_count-after-sat wrong", expc2, str(C2)))
    if nvars == 3:
        label = "unsat" if not M else "taut" if len(M) == 8 else "models=%d" % len(M)
    else:
        label = "wide%d:%s" % (nvars, "unsat" if not M else "taut" if len(M) == 2 ** nvars else
                               "few" if len(M) <= nvars else "many")
    return label, viols, flags, M


WIDE = ["A", "B", "C", "D", "E", "F"]


def case_vars(case):
    return WIDE[:case["nv"]] if "nv" in case else VARS


def goal_of(case):
    if case["kind"] == "f":
        return "g(c46_all(%s, [%s], R))" % (ftext(uf(case["f"])), ",".join(case_vars(case)))
    return "g(c46_seq(%s, %s, [X,Y,Z], R))" % (ftext(uf(case["f"])), ftext(uf(case["g"])))


def judge(case, res):
    fs = [uf(case["f"])] + ([uf(case["g"])] if case["kind"] == "s" else [])
    sk = "+".join(skeleton(f) for f in fs)
    if res.abn:
        return "abnormal", [("%s abnormal %s" % (sk, res.abn), "", res.abn)], [], None
    if res.status != "done" or len(res.sols) != 1:
        what = "exception:" + px.formal_sig(res.formal()) if res.status == "exc" else "no-result"
        return "broken", [("%s harness %s" % (sk, what), "", what)], [], None
    label, viols, flags, M = judge_obs(fs, res.sols[0]["R"], case["kind"] == "f", case_vars(case))
    return (("seq:" if case["kind"] == "s" else "") + label,
            [("%s %s" % (k, sk), e, o) for (k, e, o) in viols], flags, M)


def gen(shard, tier):
    kind, idx, n = shard
    if kind == "f":
        for k, f in enumerate(formulas(tier)):
            if k % n == idx:
                yield {"kind": "f", "f": jf(f)}
    elif kind == "l":
        for k, f in enumerate(list_formulas()):
            if k % n == idx:
                yield {"kind": "f", "f": jf(f)}
    elif kind == "w":
        for k, (nv, f) in enumerate(wide_formulas()):
            if k % n == idx:
                yield {"kind": "f", "f": jf(f), "nv": nv}
    else:
        for k, (f, g) in enumerate(seq_pairs(tier)):
            if k % n == idx:
                yield {"kind": "s", "f": jf(f), "g": jf(g)}


def setup(w, tier):
    w.consult(HELPERS, persist=True)


def run_shard(w, shard, tier):
    acc = px.ShardAcc(max_viol=500)
    for batch in px.chunked(gen(shard, tier), 200):
        rs = px.run_goals(w, [goal_of(c) for c in batch])
        for case, r in zip(batch, rs):
            label, viols, flags, M = judge(case, r)
            nt = M is not None and 0 < len(M) < 2 ** len(case_vars(case))
            acc.case(nt, label, sample={"goal": goal_of(case)[2:-1], "models": str(M)})
            for fl in flags:
                acc.extra[fl] += 1
            for vi, (sig, e, o) in enumerate(viols):
                c2 = dict(case)
                c2["which"] = vi
                acc.violation(sig, c2, expected=str(e), observed=str(o))
    return acc.result()


def recheck(w, case, tier):
    c = {k: v for k, v in case.items() if k != "which"}
    r = px.run_goals(w, [goal_of(c)])[0]
    label, viols, flags, M = judge(c, r)
    if not viols:
        return None
    sig, e, o = viols[min(case.get("which", 0), len(viols) - 1)]
    return {"sig": sig, "case": case, "expected": str(e), "observed": str(o)}
