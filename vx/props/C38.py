"""C38 — delimited control and tabling compute the specified answers (DESIGN §6 C38).

(a) Tabling: every directed graph on <= 3 nodes (thorough: 4 nodes up to
isomorphism), each with its own renamed-apart static edge predicate and
tabled transitive closure in three forms (left-, right- and doubly
recursive), called in the modes path(+,-), path(-,-), path(+,+) in two call
orders; the untabled right-recursive definition on the acyclic graphs; one
abolish_all_tables + recomputation per graph.  Oracle: Python transitive
closure (answer SET, each answer exactly once, termination).
(b) reset/3 and shift/1: small effect programs (bodies over log/shift/
conjunction/disjunction/nested reset, run under three handlers) against a
direct Python model of delimited continuations.
"""
import itertools

from vx.core import px
from vx.model import grpe

ID = "C38"
LEVEL = "exploration"
ENGINE = "PEX"
TECHNIQUE = "bounded exhaustive enumeration of graphs x recursion forms x call modes; Python transitive closure / continuation model"
RULE = ("(a) all 512 directed graphs on the nodes {1,2,3} incl. self loops (thorough: all 4-node graphs up to isomorphism) x "
        "{left, right, double} recursive tabled closure x 13 (21) calls in the modes (+,-), (-,-), (+,+), in two call orders "
        "on separate predicate copies; untabled right recursion on the acyclic graphs; abolish_all_tables + recomputation "
        "once per graph. (b) every reset/shift body of size <= 4 (thorough 5) over {log(k), shift(k), (A,B), (A;B), "
        "reset(A,Ball,Cont) nested, fail} under the handlers {collect-and-resume, ignore continuation, resume twice}. "
        "A case is one call. Non-trivial: the graph has a cycle; the program shifts inside a disjunction or nested reset.")
LEVEL_TEXT = "complete enumeration of small graphs / effect programs on the real tabling library and continuation primitives"
ASSUMPTIONS = ["Python transitive closure", "answer order of tabled predicates is unspecified (compared as sets, duplicates reported)",
               "the continuation model in this module (shift captures the rest of the nearest enclosing reset goal)",
               "driver transport"]
MIN_OUTCOMES = 3
WORKER_KWARGS = {"horizon": 15.0}

FORMS = {
    "l": "%(p)s(X,Y) :- %(e)s(X,Y).\n%(p)s(X,Y) :- %(p)s(X,Z), %(e)s(Z,Y).",
    "r": "%(p)s(X,Y) :- %(e)s(X,Y).\n%(p)s(X,Y) :- %(e)s(X,Z), %(p)s(Z,Y).",
    "d": "%(p)s(X,Y) :- %(e)s(X,Y).\n%(p)s(X,Y) :- %(p)s(X,Z), %(p)s(Z,Y).",
}


def closure(n, edges):
    reach = {i: set() for i in range(1, n + 1)}
    for a, b in edges:
        reach[a].add(b)
    changed = True
    while changed:
        changed = False
        for a in reach:
            new = set()
            for b in reach[a]:
                new |= reach[b]
            if not new <= reach[a]:
                reach[a] |= new
                changed = True
    return reach


def has_cycle(n, edges):
    r = closure(n, edges)
    return any(a in r[a] for a in r)


def graphs(n, reduce_iso):
    pairs = [(a, b) for a in range(1, n + 1) for b in range(1, n + 1)]
    seen = set()
    out = []
    perms = list(itertools.permutations(range(1, n + 1)))
    for mask in range(1 << len(pairs)):
        edges = [p for i, p in enumerate(pairs) if mask >> i & 1]
        if reduce_iso:
            best = None
            for pm in perms:
                m2 = 0
                for a, b in edges:
                    m2 |= 1 << pairs.index((pm[a - 1], pm[b - 1]))
                if best is None or m2 < best:
                    best = m2
            if best in seen:
                continue
            seen.add(best)
        out.append(edges)
    return out


_G = {}


def graph_list(tier):
    if tier not in _G:
        g = [(3, e) for e in graphs(3, False)]
        if tier == "thorough":
            g += [(4, e) for e in graphs(4, True)]
        _G[tier] = g
    return _G[tier]


NSHARD = 32


def shards(tier):
    return [("tab", i) for i in range(NSHARD)] + [("cont", i) for i in range(4)]


def bound_text(tier):
    return ("%d graphs x 3 recursion forms x 2 call orders x all call modes, untabled twin on acyclic graphs, "
            "abolish_all_tables once per graph; reset/shift bodies of size <= %d x 3 handlers"
            % (len(graph_list(tier)), 5 if tier == "thorough" else 4))


def setup(w, tier):
    grpe.consult_checked(w, ":- use_module(library(tabling)).\n:- use_module(library(cont)).\n:- use_module(library(lists)).\n"
                         + CONT_PROGRAM, persist=True)


# ---------------------------------------------------------------------------
# (a) tabling

def calls_for(n, order):
    nodes = list(range(1, n + 1))
    cs = [("+-", a, None) for a in nodes] + [("--", None, None)] + [("++", a, b) for a in nodes for b in nodes]
    return cs if order == 0 else cs[::-1]


def call_text(p, c):
    mode, a, b = c
    if mode == "+-":
        return "%s(%d,Y)" % (p, a)
    if mode == "--":
        return "%s(X,Y)" % p
    return "%s(%d,%d)" % (p, a, b)


def want(reach, n, c):
    mode, a, b = c
    if mode == "+-":
        return sorted((a, y) for y in reach[a])
    if mode == "--":
        return sorted((x, y) for x in reach for y in reach[x])
    return [(a, b)] if b in reach[a] else []


def got_pairs(res, c):
    mode, a, b = c
    out = []
    for s in res.sols:
        x = s.get("X", a)
        y = s.get("Y", b)
        out.append((x, y))
    return out


def run_tab(w, shard, tier, acc, only=None):
    gl = graph_list(tier)
    idxs = list(range(shard, len(gl), NSHARD)) if only is None else [only]
    # a machine never gives heap back and the tabling library keeps its tables on it: a batch of 60
    # four-node graphs grew a worker past 8 GB (16 workers exhausted the sandbox's memory, the kernel
    # killed one and the run ended as a machinery failure); 12 graphs per machine stay far below that
    for part in px.chunked(idxs, 12 if tier == "thorough" else 60):
        text = [":- use_module(library(tabling))."]
        jobs = []
        for gi in part:
            n, edges = gl[gi]
            e = "e%d" % gi
            if edges:
                text.append("\n".join("%s(%d,%d)." % (e, a, b) for a, b in edges))
            else:
                text.append(":- dynamic(%s/2)." % e)
            acyclic = not has_cycle(n, edges)
            for form in "lrd":
                for order in (0, 1):
                    p = "p%s%d_%d" % (form, order, gi)
                    text.append(":- table %s/2.\n%s" % (p, FORMS[form] % {"p": p, "e": e}))
                    jobs.append((gi, form, order, p, True))
            if acyclic:
                p = "u%d" % gi
                text.append(FORMS["r"] % {"p": p, "e": e})
                jobs.append((gi, "r", 0, p, False))
        consults = ["\n".join(tpart) + "\n" for tpart in px.chunked(text, 200)]
        goals = []
        meta = []
        for gi, form, order, p, tabled in jobs:
            n, edges = gl[gi]
            for c in calls_for(n, order):
                goals.append(call_text(p, c))
                meta.append((gi, form, order, tabled, c, "call"))
        # abolish_all_tables + recomputation: once per graph, on the left-recursive order-0 copy, at the very end
        for gi in part:
            goals.append("abolish_all_tables, pl0_%d(X,Y)" % gi)
            meta.append((gi, "l", 0, True, ("--", None, None), "abolish"))
        # a panic or hang would take the consulted programs with it: run_robust repeats the batch
        # one goal per request with the programs persisted when that happens
        w.new_machine()
        for t in consults:
            grpe.consult_checked(w, t)
        r0 = w.restarts
        rs = px.run_goals(w, ["g((%s), 200)" % g for g in goals])
        if w.restarts != r0 or any(r.abn for r in rs):
            rs = [x[0] for x in grpe.run_robust(w, consults, [[g] for g in goals], force_single=True)]
        for (gi, form, order, tabled, c, what), r in zip(meta, rs):
            n, edges = gl[gi]
            reach = closure(n, edges)
            cyc = has_cycle(n, edges)
            exp = want(reach, n, c)
            case = {"fam": "tab", "graph": gi, "n": n, "edges": [list(e) for e in edges], "form": form, "order": order,
                    "tabled": tabled, "call": list(c), "what": what, "tier": tier}
            tag = "%s %s%s %s" % (what, "tabled" if tabled else "untabled", "-" + form, c[0])
            if r.abn or r.status != "done":
                kind = r.abn or (px.formal_sig(r.formal()) if r.status == "exc" else r.status)
                acc.case(cyc, "error")
                acc.violation("%s %s" % (tag, kind.split(":")[0] if r.abn else kind), case, expected=exp, observed=kind)
                continue
            got = got_pairs(r, c)
            gs = sorted(set(got))
            if gs != exp:
                kind = "missing" if set(gs) < set(exp) else "extra" if set(gs) > set(exp) else "wrong"
                acc.case(cyc, "wrong_set")
                acc.violation("%s %s" % (tag, kind), case, expected=exp, observed=got)
            elif tabled and len(got) != len(gs):
                acc.case(cyc, "duplicates")
                acc.violation("%s duplicates" % tag, case, expected=exp, observed=got)
            else:
                acc.case(cyc, "%s:%s" % ("tabled" if tabled else "untabled", "empty" if not exp else "answers"),
                         sample={"edges": [list(e) for e in edges], "form": form, "tabled": tabled, "call": list(c),
                                 "answers": [list(x) for x in got]})


# ---------------------------------------------------------------------------
# (b) reset/shift

CONT_PROGRAM = """
c38_log(K) :- bb_get(c38_trace, T), bb_put(c38_trace, [K|T]).
c38_start :- bb_put(c38_trace, []).
c38_trace(T) :- bb_get(c38_trace, R), reverse(R, T).
% handlers: run goal G under reset; H selects what is done with a captured continuation cont(K)
c38_run(collect, G) :- reset(G, Ball, Cont), ( Cont == none -> c38_log(end) ; Cont = cont(K), c38_log(ball(Ball)), c38_run(collect, K) ).
c38_run(ignore, G) :- reset(G, Ball, Cont), ( Cont == none -> c38_log(end) ; c38_log(ball(Ball)) ).
c38_run(twice, G) :- reset(G, Ball, Cont), ( Cont == none -> c38_log(end) ; Cont = cont(K), c38_log(ball(Ball)), c38_once(K), c38_log(again), c38_once(K) ).
c38_once(K) :- reset(K, Ball, C2), ( C2 == none -> c38_log(end) ; c38_log(ball2(Ball)) ).
c38_inner(G) :- reset(G, Ball, Cont), ( Cont == none -> c38_log(iend) ; Cont = cont(K), c38_log(iball(Ball)), c38_inner(K) ).
"""

HANDLERS = ["collect", "ignore", "twice"]


def cont_bodies(maxsize):
    """-> list of (text, node); node: ('log',k) | ('shift',k) | ('fail',) | (',',a,b) | (';',a,b) | ('inner',a)"""
    leaves = [("c38_log(1)", ("log", 1)), ("c38_log(2)", ("log", 2)), ("shift(1)", ("shift", 1)), ("shift(2)", ("shift", 2)),
              ("fail", ("fail",))]
    by = {1: leaves}
    for size in range(2, maxsize + 1):
        cur = []
        for t, n in by[size - 1]:
            cur.append(("c38_inner(%s)" % t, ("inner", n)))
        for ls in range(1, size - 1):
            rs = size - 1 - ls
            for (ta, na) in by[ls]:
                for (tb, nb) in by.get(rs, []):
                    cur.append(("(%s, %s)" % (ta, tb), (",", na, nb)))
                    cur.append(("(%s ; %s)" % (ta, tb), (";", na, nb)))
        by[size] = cur
    out = []
    for s in range(1, maxsize + 1):
        out += by[s]
    return out


# --- model.  A goal is a generator of events in execution order: "sol" (one more solution) or
# ("shift", ball, resume): a shift reached this level; resume() starts a fresh execution of the
# captured continuation (the rest of the goal up to this level) and is itself such a generator.
# After a shift event the generator goes on with the older choice points of the goal, exactly as
# backtracking into reset/3 does.  The log is a global, non-backtrackable list (bb_put).

TRACE = []


def m_solve(node):
    k = node[0]
    if k == "log":
        TRACE.append(node[1])
        yield "sol"
    elif k == "fail":
        return
    elif k == "shift":
        def resume():
            yield "sol"
        yield ("shift", node[1], resume)
    elif k == ",":
        for ev in m_seq(m_solve(node[1]), node[2]):
            yield ev
    elif k == ";":
        for ev in m_solve(node[1]):
            yield ev
        for ev in m_solve(node[2]):
            yield ev
    elif k == "inner":
        for ev in m_inner(m_solve(node[1])):
            yield ev
    else:
        raise ValueError(node)


def m_seq(gen, rest):
    for ev in gen:
        if ev == "sol":
            for e2 in m_solve(rest):
                yield e2
        else:
            _, ball, r = ev
            yield ("shift", ball, lambda r=r: m_seq(r(), rest))


def m_inner(gen):
    """c38_inner(G) :- reset(G,Ball,Cont), ( Cont == none -> log(iend) ; log(iball(Ball)), c38_inner(Cont) )."""
    for ev in gen:
        if ev == "sol":
            TRACE.append("iend")
            yield "sol"
        else:
            _, ball, r = ev
            TRACE.append(("iball", ball))
            for e2 in m_inner(r()):
                yield e2


def m_once(gen):
    """c38_once(Cont) :- reset(Cont,Ball,C2), ( C2 == none -> log(end) ; log(ball2(Ball)) )."""
    for ev in gen:
        if ev == "sol":
            TRACE.append("end")
        else:
            TRACE.append(("ball2", ev[1]))
        yield "sol"


def m_run(handler, gen):
    for ev in gen:
        if ev == "sol":
            TRACE.append("end")
            yield "sol"
            continue
        _, ball, r = ev
        TRACE.append(("ball", ball))
        if handler == "collect":
            for e2 in m_run("collect", r()):
                yield e2
        elif handler == "ignore":
            yield "sol"
        else:
            for _ in m_once(r()):
                TRACE.append("again")
                for _ in m_once(r()):
                    yield "sol"


def cont_expected(node, handler, cap=50):
    del TRACE[:]
    out = []
    for _ in m_run(handler, m_solve(node)):
        out.append(list(TRACE))
        if len(out) >= cap:
            break
    return out


def tr_term(t):
    """observed trace term -> python list comparable with the model's"""
    el, _ = grpe.unlist(t)
    out = []
    for e in el:
        if isinstance(e, tuple):
            out.append((e[0], e[1]))
        else:
            out.append(e)
    return out


def shifts_in_special_place(node, under=False):
    k = node[0]
    if k == "shift":
        return under
    if k == ";":
        return shifts_in_special_place(node[1], True) or shifts_in_special_place(node[2], True)
    if k == "inner":
        return shifts_in_special_place(node[1], True)
    if k == ",":
        return shifts_in_special_place(node[1], under) or shifts_in_special_place(node[2], under)
    return False


def shape(node):
    k = node[0]
    if k in ("log", "fail", "shift"):
        return k[0]
    if k == "inner":
        return "R(%s)" % shape(node[1])
    return "(%s%s%s)" % (shape(node[1]), k, shape(node[2]))


def run_cont(w, shard, tier, acc, only=None):
    bodies = cont_bodies(5 if tier == "thorough" else 4)
    items = [(t, n, h) for i, (t, n) in enumerate(bodies) for h in HANDLERS]
    items = items[shard::4] if only is None else [it for it in items if it[0] == only[0] and it[2] == only[1]]
    for part in px.chunked(items, 200):
        rs = px.run_goals(w, ["g((c38_start, c38_run(%s, %s), c38_trace(T)), 50)" % (h, t) for t, n, h in part])
        for (t, n, h), r in zip(part, rs):
            exp = cont_expected(n, h)
            nt = shifts_in_special_place(n)
            case = {"fam": "cont", "body": t, "handler": h, "tier": tier}
            if r.abn or r.status not in ("done", "cap"):
                kind = r.abn or (px.formal_sig(r.formal()) if r.status == "exc" else r.status)
                acc.case(nt, "cont:error")
                acc.violation("cont %s %s %s" % (h, shape(n), kind.split(":")[0] if r.abn else kind), case,
                              expected=repr(exp)[:600], observed=kind)
                continue
            got = [tr_term(s.get("T")) for s in r.sols]
            if got == exp:
                acc.case(nt, "cont:%s" % ("none" if not exp else "one" if len(exp) == 1 else "many"),
                         sample={"body": t, "handler": h, "traces": repr(exp)[:300]})
            else:
                acc.case(nt, "cont:mismatch")
                kind = "fewer" if len(got) < len(exp) else "more" if len(got) > len(exp) else "differ"
                acc.violation("cont %s %s solutions:%s" % (h, shape(n), kind), case,
                              expected=repr(exp)[:800], observed=repr(got)[:800])


# ---------------------------------------------------------------------------

def run_shard(w, shard, tier):
    acc = px.ShardAcc()
    if shard[0] == "tab":
        run_tab(w, shard[1], tier, acc)
    else:
        run_cont(w, shard[1], tier, acc)
    return acc.result()


def recheck(w, case, tier):
    acc = AllAcc()
    if case["fam"] == "tab":
        run_tab(w, 0, case.get("tier", tier), acc, only=case["graph"])
        for v in acc.violations:
            c = v["case"]
            if all(c[k] == case[k] for k in ("form", "order", "tabled", "call", "what")):
                return v
        return None
    run_cont(w, 0, case.get("tier", tier), acc, only=(case["body"], case["handler"]))
    return acc.violations[0] if acc.violations else None


class AllAcc(px.ShardAcc):
    def violation(self, sig, case, expected=None, observed=None):
        self.nviol += 1
        self.violations.append({"sig": sig, "case": case, "expected": px._j(expected), "observed": px._j(observed)})
