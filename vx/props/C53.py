"""C53 — graph library results match graph-theoretic definitions (DESIGN §6 C53).

Every directed graph (self loops included) on <= 3 labelled vertices (quick;
thorough adds all 65 536 graphs on 4 vertices) in S-representation, under two
vertex namings (integers; a mixed-type naming whose standard order is
float < integer < atom < f/1 < g/2), through every exported predicate of
library(ugraphs); add/del of every subset of <= 2 vertices / edges (including
a new vertex); compose/3 both ways and ugraph_union/3 against a set of second
graphs on overlapping vertex sets (thorough: all ordered pairs of 3-vertex
graphs); vertices_edges_to_ugraph/3 from every ordering of the edge list.
Oracle: adjacency sets in Python.
"""
import itertools
import os

from vx.core import px
from vx.core.terms import mklist, unlist, chars_list, NIL, show
from vx.model import c14_model as M

ID = "C53"
LEVEL = "exploration"
ENGINE = "PEX"
TECHNIQUE = "bounded exhaustive input sweep against adjacency-set definitions in Python"
LEVEL_TEXT = "exhaustive enumeration of all small digraphs x every library(ugraphs) operation and small argument sets"
RULE = ("all digraphs with self loops on 0..3 (thorough: 4) vertices x 2 vertex namings x {vertices, edges, transpose, closure, "
        "complement, top_sort/2,3, connect_ugraph, neighbours/neighbors/reachable per vertex, add/del_vertices and add/del_edges "
        "for every subset of <= 2 (incl. a new vertex), compose x2 and ugraph_union with second graphs, "
        "vertices_edges_to_ugraph from all edge-list orderings}. Non-trivial: the graph has a cycle or the operation changes it.")
ASSUMPTIONS = ["graph-theoretic definitions as given in the predicate documentation (complement without self loops; reachable "
               "includes the start vertex; top_sort must succeed on weakly connected acyclic graphs, must fail on cyclic ones, "
               "and may fail on unconnected acyclic ones)", "standard order model of vx/model/c14_model.py", "driver transport"]
MIN_OUTCOMES = 6

NAMINGS = {
    "int": [("1", 1), ("2", 2), ("3", 3), ("4", 4), ("5", 5)],
    "mix": [("1.5", 1.5), ("2", 2), ("ab", "ab"), ("f(x)", ("f", "x")), ("g(a,b)", ("g", "a", "b"))],
}
DET = {"vertices_edges_to_ugraph", "del_vertices", "transpose_ugraph", "neighbours", "neighbors", "connect_ugraph", "top_sort", "top_sort/3", "top_sort/3(tail second)"}


# --------------------------------------------------------------------------
# graphs: (vertices tuple of indices, frozenset of (u, v))

def graphs_on(vs):
    vs = tuple(vs)
    pairs = [(u, v) for u in vs for v in vs]
    for mask in range(1 << len(pairs)):
        yield (vs, frozenset(p for i, p in enumerate(pairs) if mask >> i & 1))


def graph_id(g):
    return {"v": list(g[0]), "e": sorted(list(e) for e in g[1])}


def graph_of_id(j):
    return (tuple(j["v"]), frozenset((a, b) for a, b in j["e"]))


def norm(vs, es):
    return (tuple(sorted(set(vs))), frozenset(es))


def g_term(g, names):
    vs, es = g
    return mklist([("-", names[v][1], mklist([names[w][1] for w in sorted(x for (u, x) in es if u == v)])) for v in vs])


def g_text(g, names):
    vs, es = g
    return "[" + ",".join("%s-[%s]" % (names[v][0], ",".join(names[w][0] for w in sorted(x for (u, x) in es if u == v))) for v in vs) + "]"


def vlist_text(vs, names):
    return "[" + ",".join(names[v][0] for v in vs) + "]"


def elist_text(es, names):
    return "[" + ",".join("%s-%s" % (names[u][0], names[v][0]) for u, v in es) + "]"


# model operations
def transpose(g):
    return (g[0], frozenset((v, u) for u, v in g[1]))


def closure(g):
    vs, es = g
    reach = set(es)
    for k in vs:
        for i in vs:
            if (i, k) in reach:
                for j in vs:
                    if (k, j) in reach:
                        reach.add((i, j))
    return (vs, frozenset(reach))


def complement(g):
    vs, es = g
    return (vs, frozenset((u, v) for u in vs for v in vs if u != v and (u, v) not in es))


def reachable(g, v):
    c = closure(g)[1]
    return sorted({v} | {w for (u, w) in c if u == v})


def acyclic(g):
    return not any((v, v) in closure(g)[1] for v in g[0])


def weakly_connected(g):
    vs, es = g
    if not vs:
        return True
    und = set(es) | {(v, u) for u, v in es}
    seen = {vs[0]}
    todo = [vs[0]]
    while todo:
        x = todo.pop()
        for (u, w) in und:
            if u == x and w not in seen:
                seen.add(w)
                todo.append(w)
    return len(seen) == len(vs)


def del_vertices(g, sub):
    vs, es = g
    return (tuple(v for v in vs if v not in sub), frozenset((u, v) for u, v in es if u not in sub and v not in sub))


def add_vertices(g, sub):
    return norm(list(g[0]) + list(sub), g[1])


def add_edges(g, sub):
    return norm(list(g[0]) + [x for e in sub for x in e], set(g[1]) | set(sub))


def del_edges(g, sub):
    return (g[0], frozenset(set(g[1]) - set(sub)))


def compose(g, h):
    vs = sorted(set(g[0]) | set(h[0]))
    es = {(u, w) for (u, v) in g[1] for (v2, w) in h[1] if v == v2}
    return (tuple(vs), frozenset(es))


def union(g, h):
    return norm(list(g[0]) + list(h[0]), set(g[1]) | set(h[1]))


def gclass(g):
    if any(u == v for u, v in g[1]):
        return "selfloop"
    return "acyclic" if acyclic(g) else "cyclic"


def same_term(a, b):
    if isinstance(a, tuple) and isinstance(b, tuple):
        return len(a) == len(b) and all(same_term(x, y) for x, y in zip(a, b))
    if isinstance(a, tuple) or isinstance(b, tuple):
        return False
    return type(a) is type(b) and a == b


# --------------------------------------------------------------------------
# plans

def subsets2(universe, both_orders):
    out = [()]
    for x in universe:
        out.append((x,))
    for a, b in itertools.combinations(universe, 2):
        out.append((b, a))
        if both_orders:
            out.append((a, b))
    return out


def battery_plan(g, small):
    """-> (vsubs, esubs, [(obs id, op, expectation)]) in the order of c53_battery/5.
    expectation: ("term", t) | ("fail",) | ("topsort", g) | ("connect", g) | ("free",)"""
    vs, es = g
    n = len(vs)
    new = (max(vs) + 1) if vs else 0
    plan = []
    plan.append(("vertices", "vertices", ("vs", list(vs))))
    plan.append(("edges", "edges", ("es", sorted(es))))
    plan.append(("transpose_ugraph", "transpose_ugraph", ("g", transpose(g))))
    plan.append(("transitive_closure", "transitive_closure", ("g", closure(g))))
    plan.append(("complement", "complement", ("g", complement(g))))
    plan.append(("top_sort", "top_sort", ("topsort", False)))
    plan.append(("top_sort/3", "top_sort/3", ("topsort", True)))
    plan.append(("connect_ugraph", "connect_ugraph", ("connect",)))
    plan.append(("top_sort/3(tail second)", "top_sort/3(tail second)", ("topsort", True)))
    for v in vs:
        plan.append(("neighbours[%d]" % v, "neighbours", ("vs", sorted(w for (u, w) in es if u == v))))
    for v in vs:
        plan.append(("neighbors[%d]" % v, "neighbors", ("vs", sorted(w for (u, w) in es if u == v))))
    for v in vs:
        plan.append(("reachable[%d]" % v, "reachable", ("vs", reachable(g, v))))
    vuni = list(vs) + [new]
    vsubs = subsets2(vuni, not small) if not small else [()] + [(x,) for x in vuni] + [tuple(vuni[:2][::-1])] * (len(vuni) >= 2)
    euni = [(u, v) for u in vs for v in vs] + ([(vs[0], new), (new, vs[0])] if vs else []) + [(new, new)]
    if small:
        esubs = [()] + [(e,) for e in euni]
    else:
        esubs = subsets2(euni, False)
    for sub in vsubs:
        plan.append(("del_vertices%s" % list(sub), "del_vertices", ("g", del_vertices(g, sub))))
    for sub in vsubs:
        plan.append(("add_vertices%s" % list(sub), "add_vertices", ("g", add_vertices(g, sub))))
    for sub in esubs:
        plan.append(("add_edges%s" % [list(e) for e in sub], "add_edges", ("g", add_edges(g, sub))))
    for sub in esubs:
        plan.append(("del_edges%s" % [list(e) for e in sub], "del_edges", ("g", del_edges(g, sub))))
    return vsubs, esubs, plan


def battery_command(g, names, small):
    vsubs, esubs, plan = battery_plan(g, small)
    text = "g(c53_battery(%s,%s,[%s],[%s],Rs), 1)" % (
        g_text(g, names), vlist_text(g[0], names), ",".join(vlist_text(s, names) for s in vsubs),
        ",".join(elist_text(s, names) for s in esubs))
    return text, plan


def flatten_battery(rs):
    """Rs of c53_battery: 9 single results followed by 7 lists"""
    el, _ = unlist(rs)
    out = list(el[:9])
    for lst in el[9:]:
        out.extend(unlist(lst)[0])
    return out


def judge(op, exp, res, g, names):
    """-> (label, violation kind | None, expected text, observed text)"""
    if not (isinstance(res, tuple) and res[0] == "all" and len(res) == 3):
        return ("?", "bad_result_term", "all(Sols,St)", show(res))
    sols, _ = unlist(res[1])
    st = res[2]
    ot = "; ".join(show(s) for s in sols) if sols else "no solution"
    if st != "done":
        if isinstance(st, tuple) and st[0] == "error":
            return ("error", "unexpected_error:" + px.formal_sig(st[1]), exp_text(exp, g, names), "error " + show(st[1]))
        return ("status", "bad_status", exp_text(exp, g, names), show(st))
    et = exp_text(exp, g, names)
    kind = exp[0]
    if kind in ("vs", "es", "g"):
        want = exp_term(exp, names)
        if not sols:
            return ("fail", "unexpected_failure", et, ot)
        if not all(same_term(want, s) for s in sols):
            return ("sol", "wrong_result", et, ot)
        if len(sols) > 1 and op in DET:
            return ("%dsols" % len(sols), "not_deterministic", et + " exactly once", ot)
        return ("sol", None, et, None)
    if kind == "topsort":
        ac, conn = acyclic(g), weakly_connected(g)
        if not ac:
            return ("fail", None, et, None) if not sols else ("sol", "sorts_cyclic_graph", et, ot)
        if not sols:
            if conn:
                return ("fail", "fails_on_connected_dag", et, ot)
            return ("fail_unconnected", None, et, None)
        if len(sols) > 1:
            return ("%dsols" % len(sols), "not_deterministic", et, ot)
        el, tail = unlist(sols[0])
        if exp[1]:
            if not (el and el[-1] == "end" and tail == NIL):
                return ("sol", "wrong_tail", et, ot)
            el = el[:-1]
        elif tail != NIL:
            return ("sol", "wrong_result", et, ot)
        idx = []
        for x in el:
            hit = [v for v in g[0] if same_term(names[v][1], x)]
            if len(hit) != 1:
                return ("sol", "wrong_result", et, ot)
            idx.append(hit[0])
        if sorted(idx) != list(g[0]):
            return ("sol", "not_a_permutation_of_the_vertices", et, ot)
        pos = dict((v, i) for i, v in enumerate(idx))
        if any(pos[u] > pos[v] for u, v in g[1]):
            return ("sol", "order_violates_an_edge", et, ot)
        return ("sol", None, et, None)
    if kind == "connect":
        if not g[0]:
            return ("empty_graph", None, et, None)
        if len(sols) != 1:
            return ("%dsols" % len(sols), "unexpected_failure" if not sols else "not_deterministic", et, ot)
        s = sols[0]
        if not (isinstance(s, tuple) and s[0] == "-" and len(s) == 3):
            return ("sol", "wrong_result", et, ot)
        start, gout = s[1], s[2]
        el, tail = unlist(gout)
        want_rest = unlist(g_term(g, names))[0]
        want_first = ("-", start, mklist([names[v][1] for v in g[0]]))
        ok = tail == NIL and len(el) == len(want_rest) + 1 and same_term(el[0], want_first) and all(
            same_term(a, b) for a, b in zip(el[1:], want_rest))
        if not ok:
            return ("sol", "wrong_result", et, ot)
        if isinstance(start, M.V) or M.compare(start, names[g[0][0]][1], {}) < 0:
            return ("sol", None, et, None)
        return ("sol", "start_not_before_all_vertices", et, ot)
    raise ValueError(exp)


def exp_term(exp, names):
    if exp[0] == "vs":
        return mklist([names[v][1] for v in exp[1]])
    if exp[0] == "es":
        return mklist([("-", names[u][1], names[v][1]) for u, v in exp[1]])
    return g_term(exp[1], names)


def exp_text(exp, g, names):
    if exp[0] in ("vs", "es", "g"):
        return show(exp_term(exp, names))
    if exp[0] == "topsort":
        return "a topological order" if acyclic(g) else "failure (the graph has a cycle)"
    return "Start-[Start-AllVertices|Graph] with Start before every vertex"


# --------------------------------------------------------------------------

def all_graphs(tier):
    gs = []
    for k in range(0, 4):
        gs.extend(graphs_on(range(k)))
    return gs


def second_graphs(tier):
    hs = list(graphs_on((0, 1))) + list(graphs_on((1, 2))) + list(graphs_on((2, 3)))
    hs += [h for i, h in enumerate(graphs_on((0, 1, 2))) if i % 16 == 5 or i in (0, 511)]
    return hs


def shards(tier):
    sh = []
    for nm in NAMINGS:
        for i in range(16):
            sh.append(("battery", nm, i))
        for i in range(8):
            sh.append(("pairs", nm, i))
        sh.append(("build", nm))
    if tier == "thorough":
        for i in range(64):
            sh.append(("battery4", "int", i))
        for i in range(16):
            sh.append(("battery4", "mix", i))   # every eighth 4-vertex graph under the mixed naming
        for i in range(32):
            sh.append(("allpairs", "int", i))
    return sh


def bound_text(tier):
    return ("all %d digraphs on <= 3 vertices x 2 namings (full battery, subsets of <= 2), %d second graphs for compose/union%s"
            % (len(all_graphs(tier)), len(second_graphs(tier)),
               "; all 65536 digraphs on 4 vertices (integer naming; every eighth also under the mixed naming; battery, subsets of <= 1); all 262144 ordered pairs of 3-vertex graphs" if tier == "thorough" else ""))


def setup(w, tier):
    w.consult(":- use_module(library(ugraphs)).\n:- use_module(library(lists)).\n", persist=True)
    with open(os.path.join(os.path.dirname(os.path.dirname(os.path.abspath(__file__))), "prolog", "c53_helper.pl")) as f:
        w.consult(f.read(), persist=True)


class Ctx:
    def __init__(self, acc):
        self.acc = acc
        self.viols = []

    def case(self, nt, label, sample=None):
        if self.acc is not None:
            self.acc.case(nt, label, sample=sample)

    def viol(self, sig, case, exp, obs):
        v = {"sig": sig, "case": case, "expected": exp, "observed": obs}
        self.viols.append(v)
        if self.acc is not None:
            self.acc.violation(sig, case, exp, obs)


def bad_record(r):
    return r.abn or (None if (r.status in ("done", "cap") and len(r.sols) == 1) else
                     ("exc:" + px.formal_sig(r.formal()) if r.status == "exc" else "no_solution"))


def run_battery(w, gs, nm, small, cx, only=None):
    names = NAMINGS[nm]
    for batch in px.chunked(gs, 20):
        cmds = [battery_command(g, names, small) for g in batch]
        rs = px.run_goals(w, [c[0] for c in cmds])
        for g, (text, plan), r in zip(batch, cmds, rs):
            base = {"fam": "battery", "names": nm, "small": small, "g": graph_id(g)}
            cyc = not acyclic(g)
            bad = bad_record(r)
            if bad:
                cx.case(True, "battery:abnormal")
                cx.viol("battery command %s" % bad, dict(base, obs="*"), "one record", repr(r)[:300])
                continue
            results = flatten_battery(r.sols[0].get("Rs"))
            if len(results) != len(plan):
                cx.case(True, "battery:abnormal")
                cx.viol("battery result_count", dict(base, obs="*"), "%d results" % len(plan), "%d results" % len(results))
                continue
            for (oid, op, exp), res in zip(plan, results):
                if only not in (None, oid):
                    continue
                label, vk, et, ot = judge(op, exp, res, g, names)
                changes = exp[0] == "g" and exp[1] != g
                cx.case(cyc or changes, "%s:%s" % (op, label), sample={"graph": g_text(g, names), "op": oid, "expected": et[:150]})
                if vk:
                    cx.viol("%s %s n=%d %s" % (op, gclass(g), len(g[0]), vk), dict(base, obs=oid), et, ot)


def run_pairs(w, gs, hs, nm, cx, only=None):
    names = NAMINGS[nm]
    for g in gs:
        for hb in px.chunked(hs, 64):
            text = "g(c53_pairs(%s,[%s],Rs), 1)" % (g_text(g, names), ",".join(g_text(h, names) for h in hb))
            r = px.run_goals(w, [text])[0]
            base = {"fam": "pairs", "names": nm, "g": graph_id(g)}
            bad = bad_record(r)
            if bad:
                cx.case(True, "pairs:abnormal")
                cx.viol("pairs command %s" % bad, dict(base, h=graph_id(hb[0]), op="*"), "one record", repr(r)[:300])
                continue
            lists, _ = unlist(r.sols[0].get("Rs"))
            for op, lst, fn in zip(("compose", "compose_rev", "ugraph_union"), lists,
                                   (lambda a, b: compose(a, b), lambda a, b: compose(b, a), union)):
                el, _ = unlist(lst)
                for h, res in zip(hb, el):
                    if only is not None and (only[0] != op or only[1] != graph_id(h)):
                        continue
                    exp = ("g", fn(g, h))
                    opname = "compose" if op != "ugraph_union" else op
                    label, vk, et, ot = judge(opname, exp, res, g, names)
                    cx.case(True, "%s:%s" % (opname, label),
                            sample={"g": g_text(g, names), "h": g_text(h, names), "op": op, "expected": et[:150]})
                    if vk:
                        cx.viol("%s %s/%s %s" % (op, gclass(g), gclass(h), vk), dict(base, h=graph_id(h), op=op), et, ot)


def build_inputs(g):
    """every ordering (<= 3 edges) / some orderings of the edge list x vertex list variants"""
    vs, es = g
    es = sorted(es)
    iso = [v for v in vs if not any(v in e for e in es)]
    if len(es) <= 3:
        eorders = [list(p) for p in itertools.permutations(es)]
    else:
        eorders = [es, es[::-1], es[1:] + es[:1]]
    eorders.append(es[::-1] + es[:1])          # a duplicated edge
    vvariants = [list(vs)[::-1], iso, list(vs) + list(vs[:1])]
    out = []
    for eo in eorders:
        for vv in vvariants:
            out.append((vv, eo))
    return out


def run_build(w, gs, nm, cx, only=None):
    names = NAMINGS[nm]
    for g in gs:
        inputs = build_inputs(g)
        want = ("g", g)
        for chunk in px.chunked(inputs, 40):
            text = "g(c53_builds([%s],Rs), 1)" % ",".join("%s-%s" % (vlist_text(vv, names), elist_text(eo, names)) for vv, eo in chunk)
            r = px.run_goals(w, [text])[0]
            base = {"fam": "build", "names": nm, "g": graph_id(g)}
            bad = bad_record(r)
            if bad:
                cx.case(True, "build:abnormal")
                cx.viol("build command %s" % bad, dict(base, inp="*"), "one record", repr(r)[:300])
                continue
            el, _ = unlist(r.sols[0].get("Rs"))
            for (vv, eo), res in zip(chunk, el):
                inp = {"vs": list(vv), "es": [list(e) for e in eo]}
                if only is not None and only != inp:
                    continue
                label, vk, et, ot = judge("vertices_edges_to_ugraph", want, res, g, names)
                cx.case(len(eo) > 1, "vertices_edges_to_ugraph:%s" % label,
                        sample={"vertices": vlist_text(vv, names), "edges": elist_text(eo, names), "expected": et[:150]})
                if vk:
                    cx.viol("vertices_edges_to_ugraph %s n=%d %s" % (gclass(g), len(g[0]), vk), dict(base, inp=inp), et, ot)


def graphs4(part, nparts, step=1):
    for i, g in enumerate(graphs_on(range(4))):
        if i % step == 0 and (i // step) % nparts == part:
            yield g


def run_shard(w, shard, tier):
    acc = px.ShardAcc()
    cx = Ctx(acc)
    kind = shard[0]
    gs = all_graphs(tier)
    if kind == "battery":
        run_battery(w, [g for i, g in enumerate(gs) if i % 16 == shard[2]], shard[1], False, cx)
    elif kind == "pairs":
        three = [g for g in gs if len(g[0]) == 3]
        run_pairs(w, [g for i, g in enumerate(three) if i % 8 == shard[2]], second_graphs(tier), shard[1], cx)
    elif kind == "build":
        run_build(w, gs, shard[1], cx)
    elif kind == "battery4":
        if shard[1] == "int":
            run_battery(w, list(graphs4(shard[2], 64)), "int", True, cx)
        else:
            run_battery(w, list(graphs4(shard[2], 16, 8)), "mix", True, cx)
    elif kind == "allpairs":
        three = [g for g in gs if len(g[0]) == 3]
        run_pairs(w, [g for i, g in enumerate(three) if i % 32 == shard[2]], three, shard[1], cx)
    return acc.result()


def recheck(w, case, tier):
    cx = Ctx(None)
    g = graph_of_id(case["g"])
    fam = case["fam"]
    if fam == "battery":
        run_battery(w, [g], case["names"], case["small"], cx, only=None if case["obs"] == "*" else case["obs"])
    elif fam == "pairs":
        h = graph_of_id(case["h"])
        run_pairs(w, [g], [h], case["names"], cx, only=None if case["op"] == "*" else (case["op"], case["h"]))
    elif fam == "build":
        run_build(w, [g], case["names"], cx, only=None if case["inp"] == "*" else case["inp"])
    return cx.viols[0] if cx.viols else None
