"""C28 — embedded queries return faithful answers across a query history (DESIGN §6 C28).

Engine WRK-api: explicit-state search where a state is a history of
(query, k) steps executed through the public embedding API on a fresh Machine:
run_query(text), consume k answers (k in {0, 1, all}), drop the iterator. The
oracle for every step is the same query's answer stream on a fresh machine
(differential), which in turn is compared with the solutions the query has
inside Prolog (driver) and with the documented stream shape.
"""
import itertools
import json

from vx.core import pool, px, terms
from vx.core.terms import V

ID = "C28"
LEVEL = "model_checking"
ENGINE = "WRK-api"
TECHNIQUE = ("explicit-state search over embedding-API histories (each transition = run_query + consume k answers + "
             "drop, executed on the real Machine); invariant: every step's answers equal the fresh-machine reference")
RULE = ("blackboard family: all histories of depth <= 3 (4 thorough) over {bb_put red, bb_put blue, a 3-solution query doing bb_b_put consumed 0/1/2/all, bb_get} ending in bb_get; histories of depth <= d over 10 queries x consumption k in {0, 1, all}, each history on a fresh Machine; "
        "quick d=2 (all 27^2 histories + 27 singles), thorough d=3. Non-trivial: the history contains a partially "
        "consumed, throwing or failing query before its last step.")
LEVEL_TEXT = ("all histories up to the depth bound are executed through Machine::run_query on fresh machines; a "
              "history-dependent answer, a stale exception, or a panic after a dropped iterator is detected")
ASSUMPTIONS = ["the reference answer stream of each query is taken from a fresh machine of the same build (differential) and cross-checked against the driver's in-Prolog solutions and the documented shape",
               "whether a trailing False follows the last solution is implementation-defined (choice points) and only required to be history-independent"]
MIN_OUTCOMES = 2

QUERIES = [
    "X = 1.",
    "member(X, [a,b,c]).",
    "(X = 1 ; X = 2).",
    "false.",
    "throw(ball).",
    "atom_length(_, _).",
    "member(X, [1,2,3]), X > 1.",
    "assertz(h28(1)), retract(h28(1)).",
    "X = f(Y, \"str\", [1,2|Z]), Y = 2.5.",
    "catch(atom_length(_, _), b, true).",
]
KS = [0, 1, None]


def relsrc(where):
    f = where.rsplit(":", 1)[0]
    k = f.find("src/")
    return f[k:] if k > 0 else f


def bound_text(tier):
    return "all histories of depth <= %d over %d queries x 3 consumption modes" % (3 if tier == "thorough" else 2, len(QUERIES))


def steps():
    return [(qi, k) for qi in range(len(QUERIES)) for k in KS]


# Blackboard family: the only state that legitimately survives a query is what
# bb_put/2 stored; a backtrackable bb_b_put/2 made inside a query must be gone
# once the query is over, however much of its answer stream was consumed.
BB_QUERIES = [
    "bb_put(c28key, red).",
    "bb_put(c28key, blue).",
    "member(X, [1,2,3]), bb_b_put(c28key, X).",
    "bb_get(c28key, V).",
]
BB_STEPS = [(0, None), (1, None), (2, 0), (2, 1), (2, 2), (2, None), (3, None)]


def bb_model(hist):
    """expected answers of every bb_get step (None = key unset -> fails)"""
    val = None
    out = []
    for (qi, k) in hist:
        if qi == 0:
            val = "red"
        elif qi == 1:
            val = "blue"
        elif qi == 3:
            out.append(val)
    return out


def run_bb_history(w, hist):
    ops = [{"k": "query", "text": BB_QUERIES[qi], "take": k} for (qi, k) in hist]
    w.rpc({"op": "new_machine"}, timeout=120)
    try:
        r = w.rpc({"op": "api", "ops": ops, "fresh_after": False}, timeout=20)
    except pool.WorkerDied as d:
        w.restart()
        return None
    return r["r"]


def check_bb_history(w, hist, acc):
    out = run_bb_history(w, hist)
    want = bb_model(hist)
    viol = None
    if out is None:
        viol = "run_query never returned"
    else:
        gi = 0
        for (qi, k), res in zip(hist, out):
            if "panic" in res:
                viol = "panic@%s" % relsrc(res.get("where", ""))
                break
            if qi == 3:
                exp = want[gi]
                gi += 1
                got = res.get("answers")
                sols = [a["bindings"].get("V", {}).get("a") for a in got if isinstance(a, dict) and "bindings" in a]
                if exp is None:
                    ok = sols == [] and got in (["false"], [])
                else:
                    ok = sols == [exp]
                if not ok:
                    viol = "bb_get sees %s, expected %s" % (sols or got, exp)
                    break
    acc.transitions += len(hist)
    acc.states += 1
    acc.case(any(qi == 2 and k is not None and k != 0 or (qi == 2 and k in (1, 2)) for (qi, k) in hist), "bb_ok" if viol is None else "bb_violation",
             sample={"history": [[BB_QUERIES[qi], "all" if k is None else k] for (qi, k) in hist]})
    if viol:
        kinds = "".join("PPBG"[qi] + ("" if k is None else str(k)) for (qi, k) in hist)
        acc.violation("blackboard: %s" % viol.split(",")[0][:80], {"bb_history": [[qi, k] for (qi, k) in hist]},
                      expected=want, observed=out)


def shards(tier):
    d = 3 if tier == "thorough" else 2
    st = steps()
    sh = [["single"]]
    for s0 in range(len(BB_STEPS)):
        sh.append(["bb", 4 if tier == "thorough" else 3, s0])
    # shard by first step
    for s in range(len(st)):
        sh.append(["hist", d, s])
    return sh


def jterm(j):
    if "i" in j:
        return int(j["i"])
    if "f" in j:
        return float(j["f"])
    if "r" in j:
        from fractions import Fraction
        return Fraction(j["r"])
    if "a" in j:
        return j["a"]
    if "s" in j:
        return terms.chars_list(j["s"])
    if "l" in j:
        return terms.mklist([jterm(x) for x in j["l"]])
    if "c" in j:
        return (j["c"],) + tuple(jterm(x) for x in j["args"])
    if "v" in j:
        return V(j["v"])
    return ("$unknown", json.dumps(j))


def run_history(w, hist):
    ops = [{"k": "query", "text": QUERIES[qi], "take": k} for (qi, k) in hist]
    w.rpc({"op": "new_machine"}, timeout=120)
    try:
        r = w.rpc({"op": "api", "ops": ops, "fresh_after": False}, timeout=20)
    except pool.WorkerDied as d:
        # the API call never returned (or the process died): attribute it to the history
        w.restart()
        return [{"dead": "hang" if d.how == "hang" else "crash rc=%s" % d.rc}] + [{"skipped": True}] * (len(hist) - 1)
    return r["r"]


_ref = {}


def reference(w):
    """fresh-machine answer stream per query, validated for shape and against the driver"""
    if _ref:
        return _ref
    for qi, q in enumerate(QUERIES):
        res = run_history(w, [(qi, None)])[0]
        if "panic" in res or "dead" in res:
            # the query misbehaves even on a fresh machine: reported by the "single"
            # shard; it cannot serve as a step of longer histories
            res = {"broken": res.get("dead") or "panic", "answers": [], "detail": res}
        _ref[qi] = res
    return _ref


def usable(ref):
    return [qi for qi in range(len(QUERIES)) if "broken" not in ref[qi]]


def shape_violation(res):
    """documented shape of a fully consumed stream"""
    ans = res["answers"]
    if not res.get("ended"):
        return "stream did not end"
    if res.get("after_end") != "none":
        return "item after the end of the stream"
    kinds = []
    for a in ans:
        if a == "false":
            kinds.append("F")
        elif a == "true" or (isinstance(a, dict) and "bindings" in a):
            kinds.append("S")
        else:
            kinds.append("X")
    s = "".join(kinds)
    import re
    if not re.fullmatch(r"S*(F|X)?", s):
        return "bad stream shape %s" % s
    if s == "":
        return "empty stream (no solutions must be reported as [false])"
    return None


def driver_check(w, qi, res):
    """bindings equal those the query gives inside Prolog"""
    q = QUERIES[qi].rstrip(".")
    r = px.run_goals(w, ["g((%s))" % q])[0]
    sols_api = [a for a in res["answers"] if a == "true" or (isinstance(a, dict) and "bindings" in a)]
    if r.status == "exc":
        exc_api = [a for a in res["answers"] if isinstance(a, dict) and ("error" in a or "exception" in a)]
        if len(exc_api) != 1:
            return "driver raises but the API reports %d exceptions" % len(exc_api)
        return None
    if len(sols_api) != len(r.sols):
        return "API yields %d solutions, Prolog %d" % (len(sols_api), len(r.sols))
    for a, s in zip(sols_api, r.sols):
        if a == "true":
            continue
        for name, j in a["bindings"].items():
            t = jterm(j)
            want = s.get(name)
            if not variant(t, want):
                return "binding %s differs: API %r, Prolog %r" % (name, t, want)
    return None


def variant(a, b):
    m1, m2 = {}, {}

    def go(x, y):
        if isinstance(x, V) or isinstance(y, V):
            if not (isinstance(x, V) and isinstance(y, V)):
                return False
            if m1.setdefault(x.n, y.n) != y.n or m2.setdefault(y.n, x.n) != x.n:
                return False
            return True
        if isinstance(x, tuple) and isinstance(y, tuple):
            return len(x) == len(y) and x[0] == y[0] and all(go(p, q) for p, q in zip(x[1:], y[1:]))
        if isinstance(x, float) or isinstance(y, float):
            return type(x) == type(y) and x == y
        return x == y
    return go(a, b)


def judge_step(ref, qi, k, res):
    """-> violation kind or None"""
    if "panic" in res:
        return "panic@%s: %s" % (relsrc(res.get("where", "")),
                                 __import__("re").sub(r"\d+", "N", res["panic"])[:100])
    if res.get("skipped"):
        return None
    if "dead" in res:
        return "run_query never returned (%s)" % res["dead"]
    want = ref[qi]["answers"]
    got = res["answers"]
    if k is None:
        if got != want:
            return "answers differ from the fresh-machine answers"
        if not res.get("ended") or res.get("after_end") != "none":
            return "stream end differs"
    else:
        if got != want[:k]:
            return "consumed prefix differs from the fresh-machine answers"
    return None


def hist_text(hist):
    return [[QUERIES[qi], "all" if k is None else k] for (qi, k) in hist]


def check_history(w, hist, acc):
    ref = reference(w)
    out = run_history(w, hist)
    nontriv = any((k is not None) or qi in (3, 4, 5) for (qi, k) in hist[:-1])
    viol = None
    for pos, ((qi, k), res) in enumerate(zip(hist, out)):
        vk = judge_step(ref, qi, k, res)
        if vk:
            prev = hist[pos - 1] if pos else None
            prevtxt = "first" if prev is None else "after[%s take=%s]" % (QUERIES[prev[0]], "all" if prev[1] is None else prev[1])
            viol = ("%s: %s" % (prevtxt, vk), pos, res)
            break
    acc.transitions += len(hist)
    acc.states += 1
    acc.case(nontriv, "ok" if viol is None else "violation", sample={"history": hist_text(hist)})
    if viol:
        acc.violation(viol[0], {"history": [[qi, k] for (qi, k) in hist]},
                      expected=ref[hist[viol[1]][0]]["answers"], observed=viol[2])


def run_shard(w, shard, tier):
    acc = px.ShardAcc()
    if shard[0] == "bb":
        _, d, s0 = shard
        first = BB_STEPS[s0]
        for depth in range(1, d + 1):
            for rest in itertools.product(BB_STEPS, repeat=depth - 1):
                hist = [first] + list(rest)
                if hist[-1][0] != 3:
                    continue   # only histories that end in an observation
                check_bb_history(w, hist, acc)
        return acc.result()
    st = steps()
    if shard[0] == "single":
        ref = reference(w)
        for qi in range(len(QUERIES)):
            if "broken" in ref[qi]:
                acc.case(True, "single_broken", sample={"query": QUERIES[qi]})
                acc.violation("fresh machine: run_query %s [%s]" % (ref[qi]["broken"], QUERIES[qi]), {"single": qi}, observed=ref[qi]["detail"])
                continue
            sv = shape_violation(ref[qi])
            dv = driver_check(w, qi, ref[qi])
            acc.case(True, "single_ok" if not (sv or dv) else "single_violation", sample={"query": QUERIES[qi], "answers": ref[qi]["answers"]})
            acc.states += 1
            acc.transitions += 1
            if sv:
                acc.violation("fresh machine: %s [%s]" % (sv, QUERIES[qi]), {"single": qi}, observed=ref[qi])
            if dv:
                acc.violation("fresh machine: %s [%s]" % (dv.split(":")[0], QUERIES[qi]), {"single": qi}, observed=dv)
        ok = set(usable(ref))
        for s in st:
            if s[0] in ok:
                check_history(w, [s], acc)
        return acc.result()
    _, d, s0 = shard
    ok = set(usable(reference(w)))
    st = [s for s in st if s[0] in ok]
    first = steps()[s0]
    if first[0] not in ok:
        acc.case(False, "skipped_broken_query")
        return acc.result()
    for depth in range(2, d + 1):
        for rest in itertools.product(st, repeat=depth - 1):
            check_history(w, [first] + list(rest), acc)
    return acc.result()


def recheck(w, case, tier):
    acc = px.ShardAcc()
    if "bb_history" in case:
        check_bb_history(w, [(qi, k) for (qi, k) in case["bb_history"]], acc)
        if acc.violations:
            v = acc.violations[0]
            return {"sig": v["sig"], "case": case, "expected": v["expected"], "observed": v["observed"]}
        return None
    if "single" in case:
        ref = reference(w)
        qi = case["single"]
        if "broken" in ref[qi]:
            return {"sig": "fresh machine: run_query %s [%s]" % (ref[qi]["broken"], QUERIES[qi]), "case": case, "observed": ref[qi]["detail"]}
        sv = shape_violation(ref[qi])
        dv = driver_check(w, qi, ref[qi])
        if sv:
            return {"sig": "fresh machine: %s [%s]" % (sv, QUERIES[qi]), "case": case, "observed": ref[qi]}
        if dv:
            return {"sig": "fresh machine: %s [%s]" % (dv.split(":")[0], QUERIES[qi]), "case": case, "observed": dv}
        return None
    hist = [(qi, k) for (qi, k) in case["history"]]
    check_history(w, hist, acc)
    if acc.violations:
        v = acc.violations[0]
        return {"sig": v["sig"], "case": case, "expected": v["expected"], "observed": v["observed"]}
    return None
