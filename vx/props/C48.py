"""C48 — File-system predicates reflect and change the real file system (DESIGN §6 C48).

Explicit-state search.  State = the scratch directory tree (relative paths,
kinds, file contents) as seen by Python.  From the initial tree
{a: file "hello", d/: directory, d/x: file "xyz"} every transition

  make_directory(N)  make_directory_path(N)  delete_file(N)  delete_directory(N)
  rename_file(N1,N2)  file_copy(N1,N2)   (all ordered pairs, N1 = N2 included, over the
      names plus five alias spellings of a and d/x: ./a, d/./x, d/../d/x and the paths
      relative to the working directory instead of absolute)
  create(N,K): open/write K bytes/close, K in {0,5}

over the names {a, b, d, d/x, u-umlaut, "sp ace", m/q/p, .h} is applied to every
distinct tree reachable in < depth steps (breadth first; depth 2 quick, 3
thorough).  Each history runs on the implementation in a private directory
recreated from the initial tree, and in Python (os.mkdir, os.makedirs,
os.remove, os.rmdir, os.rename, shutil.copyfile) on a twin directory.

Oracle = the operating system: an operation the twin performs must succeed and
leave the same tree (names, kinds, file contents); an operation the twin
refuses must fail or raise an existence/permission class error and leave the
tree unchanged.  In every distinct state file_exists, directory_exists,
file_size, directory_files, path_canonical are asked for every name (plus
dotted / slashed spellings) and compared with os.path.*, os.listdir,
os.path.realpath.  path_segments/2 (both modes) and ill-typed arguments of all
twelve predicates are checked once (they do not depend on the state).

The reachable trees are planned with the twin (shards()); a history whose tree
on the implementation side differs from the twin's is a violation, so on all
non-violating paths model state = implementation-observed state.
"""
import itertools
import os
import shutil

from vx.core import px, pool
from vx.core.terms import fmt, S, list_to_str, unlist, V

ID = "C48"
LEVEL = "model_checking"
ENGINE = "PEX"
TECHNIQUE = "explicit-state BFS over directory trees; differential against the OS through a twin directory"
RULE = ("breadth-first over distinct directory trees: every transition (8 names; make_directory, make_directory_path, "
        "delete_file, delete_directory, create K bytes, and rename_file/file_copy over all ordered name pairs) from "
        "every tree reachable in < depth steps; all state queries in every distinct tree. Non-trivial: the "
        "transition changes the tree or must be refused.")
LEVEL_TEXT = ("bounded model checking with the real file system as the state and the operating system as the oracle; "
              "every transition is executed on the implementation")
ASSUMPTIONS = ["Python os/shutil calls are a faithful account of what the OS does for the same request",
               "the checks run as the user that owns the scratch directory (no permission-denied states; run as root here)",
               "rename_file/file_copy/delete_file/file_size are *file* predicates: a directory source must be refused",
               "file_copy onto the same file may succeed, fail or raise, but must leave the file intact",
               "create(N,K) is a helper (open/put_byte/close), only its effect on the tree is compared"]
MIN_OUTCOMES = 6

SCRATCH = os.path.join(pool.WORK, "agentH", "fs")
HELPER = os.path.join(pool.ROOT, "vx", "prolog", "c48_files.pl")

NAMES = ["a", "b", "d", "d/x", "ü", "sp ace", "m/q/p", ".h"]
# other spellings of the files a and d/x: dotted paths, and ("@rel/") the path relative to the worker's
# working directory instead of the absolute one; used by the two-argument operations and the queries
ALIASES = ["./a", "d/./x", "d/../d/x", "@rel/a", "@rel/d/x"]
QNAMES = NAMES + ["d/../a", "d/.", "a/", "d/", "", "m", "ü/../b"] + ALIASES


def tp(base, name):
    """the absolute path Python uses for a name"""
    if name.startswith("@rel/"):
        name = name[5:]
    return os.path.join(base, name) if name else base + "/"


def name_term(base, name):
    """the text of the name as the implementation gets it"""
    if name.startswith("@rel/"):
        return "rel(%s)" % fmt(S(os.path.relpath(os.path.join(base, name[5:]), pool.WORK)))
    return fmt(S(name))


def lexical(name):
    return os.path.normpath(name[5:] if name.startswith("@rel/") else name)
INITIAL = (("a", "f", b"hello"), ("d", "d", None), ("d/x", "f", b"xyz"))


def depth(tier):
    return 2 if tier == "quick" else 3


def bound_text(tier):
    return ("BFS depth %d over 8 names (+5 alias spellings for rename_file/file_copy) x 386 transitions per state, state queries (%d spellings x 5 predicates) in every "
            "distinct tree, path_segments and ill-typed arguments once" % (depth(tier), len(QNAMES)))


def transitions():
    ts = []
    for n in NAMES:
        ts.append(("md", n))
    for n in NAMES:
        ts.append(("mdp", n))
    for n in NAMES:
        ts.append(("df", n))
    for n in NAMES:
        ts.append(("dd", n))
    for n in NAMES:
        for k in (0, 5):
            ts.append(("cr", n, k))
    both = NAMES + ALIASES
    for a in both:
        for b in both:
            ts.append(("rn", a, b))
    for a in both:
        for b in both:
            ts.append(("cp", a, b))
    return ts


# ---------------------------------------------------------------------------
# the twin

def build_initial(base):
    os.makedirs(base)
    for rel, kind, data in INITIAL:
        p = os.path.join(base, rel)
        if kind == "d":
            os.mkdir(p)
        else:
            with open(p, "wb") as f:
                f.write(data)


def snapshot(base):
    out = []
    for root, dirs, files in os.walk(base):
        for d in dirs:
            out.append((os.path.relpath(os.path.join(root, d), base), "d", None))
        for fn in files:
            p = os.path.join(root, fn)
            with open(p, "rb") as f:
                out.append((os.path.relpath(p, base), "f", f.read()))
    return tuple(sorted(out))


def twin_apply(base, op):
    """apply op to the twin directory with Python's os calls -> 'ok' | 'refused:<Exc>' | 'samefile'"""
    k = op[0]
    try:
        if k == "md":
            os.mkdir(tp(base, op[1]))
        elif k == "mdp":
            os.makedirs(tp(base, op[1]), exist_ok=True)
        elif k == "df":
            p = tp(base, op[1])
            if not os.path.isfile(p):
                return "refused:NotAFile"
            os.remove(p)
        elif k == "dd":
            os.rmdir(tp(base, op[1]))
        elif k == "cr":
            with open(tp(base, op[1]), "wb") as f:
                f.write(b"x" * op[2])
        elif k == "rn":
            s, d = tp(base, op[1]), tp(base, op[2])
            if not os.path.isfile(s):
                return "refused:NotAFile"
            os.rename(s, d)
        elif k == "cp":
            s, d = tp(base, op[1]), tp(base, op[2])
            if not os.path.isfile(s):
                return "refused:NotAFile"
            if os.path.exists(d) and os.path.samefile(s, d):
                return "samefile"
            shutil.copyfile(s, d)
        else:
            raise ValueError(op)
    except OSError as e:
        return "refused:" + type(e).__name__
    return "ok"


def make_state(base, hist):
    """(re)create base holding the tree reached by hist from the initial tree (Python os calls only)"""
    shutil.rmtree(base, ignore_errors=True)
    build_initial(base)
    for op in hist:
        twin_apply(base, tuple(op))


def explore_state(base, hist, ts):
    """twin side of one state: -> (tree S, [(t, twin outcome, tree after or None when unchanged)]).
    The twin directory is rebuilt only after a transition that changed it."""
    make_state(base, hist)
    S = snapshot(base)
    res = []
    for t in ts:
        out = twin_apply(base, t)
        s2 = snapshot(base)
        if s2 != S:
            res.append((t, out, s2))
            make_state(base, hist)
        else:
            res.append((t, out, None))
    shutil.rmtree(base, ignore_errors=True)
    return S, res


def plan(tier):
    """distinct trees reachable in < depth steps, each with the first history reaching it (twin BFS)"""
    D = depth(tier)
    root = os.path.join(SCRATCH, "plan_%d" % os.getpid())
    shutil.rmtree(root, ignore_errors=True)
    os.makedirs(root)
    ts = transitions()
    seen = {INITIAL: ()}
    level = [()]
    for dep in range(1, D):
        nxt = []
        for h in level:
            S, res = explore_state(os.path.join(root, "tw"), h, ts)
            for t, out, s2 in res:
                if s2 is not None and s2 not in seen:
                    seen[s2] = h + (t,)
                    nxt.append(h + (t,))
        level = nxt
    shutil.rmtree(root, ignore_errors=True)
    return list(seen.values())


def shards(tier):
    hs = plan(tier)
    nsh = 16 if tier == "quick" else 64
    sh = [("bfs", [list(map(list, h)) for h in hs[i::nsh]]) for i in range(nsh)]
    sh = [s for s in sh if s[1]]
    sh.append(("static",))
    return sh


def setup(w, tier):
    with open(HELPER) as f:
        w.consult(f.read(), persist=True)


# ---------------------------------------------------------------------------

def op_term(op, base):
    k = op[0]
    if k in ("rn", "cp"):
        return "%s(%s,%s)" % (k, name_term(base, op[1]), name_term(base, op[2]))
    if k in ("md", "mdp", "df", "dd"):
        return "%s(%s)" % (k, fmt(S(op[1])))
    if k == "cr":
        return "cr(%s,%d)" % (fmt(S(op[1])), op[2])
    return "%s(%s,%s)" % (k, fmt(S(op[1])), fmt(S(op[2])))


def hist_goal(base, hist, query):
    ops = "[%s]" % ",".join(op_term(o, base) for o in hist)
    if query:
        return "c48_hist_query(%s,%s,[%s],O,Q)" % (fmt(S(base)), ops, ",".join(name_term(base, n) for n in QNAMES))
    return "c48_hist(%s,%s,O)" % (fmt(S(base)), ops)


def conv(r):
    if r in ("true", "false", "ball"):
        return r
    if isinstance(r, tuple) and r[0] == "e":
        return "e(%s,%s)" % (r[1], r[2] if isinstance(r[2], (str, int)) else "other")
    return repr(r)


REFUSAL_OK = ("false", "e(existence_error,", "e(permission_error,")


def judge_op(op, twin, impl):
    """-> None or a short disagreement kind"""
    if twin == "ok":
        return None if impl == "true" else "twin performs it, impl=%s" % impl
    if twin == "samefile":
        if impl == "true" or impl.startswith(REFUSAL_OK):
            return None
        return "same-file copy, impl=%s" % impl
    if op[0] == "cr":
        # helper transition (open/4): any error is accepted, success is not
        return None if impl != "true" else "twin refuses (%s), impl=true" % twin
    if impl.startswith(REFUSAL_OK):
        return None
    return "twin refuses (%s), impl=%s" % (twin.split(":")[1], impl)


def tree_diff(a, b):
    da = {x[0]: x[1:] for x in a}
    db = {x[0]: x[1:] for x in b}
    out = []
    for k in sorted(set(da) | set(db)):
        if da.get(k) != db.get(k):
            out.append("%s: impl=%s twin=%s" % (k, show_ent(da.get(k)), show_ent(db.get(k))))
    return out


def show_ent(e):
    if e is None:
        return "absent"
    if e[0] == "d":
        return "dir"
    return "file(%d bytes)" % len(e[1])


def pair_class(op):
    if op[0] in ("rn", "cp"):
        return "same" if op[1] == op[2] else "alias" if lexical(op[1]) == lexical(op[2]) else "distinct"
    return "-"


def run_state(w, acc, hist, wd):
    """expand one state: its queries and every transition, each executed once on the implementation.
    Transitions the twin leaves the tree unchanged for share one directory (re-run one by one in
    fresh directories if anything about that group disagrees); every tree-changing transition gets
    its own directory."""
    ts = transitions()
    S, res = explore_state(os.path.join(wd, "tw"), hist, ts)
    g0 = os.path.join(wd, "g0")
    make_state(g0, hist)
    goals = [hist_goal(g0, [], True)]
    slots = []   # (t, twin outcome, expected tree, dir)
    k = 0
    for t, out, s2 in res:
        if s2 is None:
            slots.append((t, out, S, g0))
        else:
            k += 1
            d = os.path.join(wd, "c%d" % k)
            make_state(d, hist)
            slots.append((t, out, s2, d))
        goals.append(hist_goal(slots[-1][3], [t], False))
    rs = px.run_goals(w, goals)
    group_ok = snapshot(g0) == S
    # the state itself + queries (g0 is rebuilt first: the transitions that followed may have touched it)
    judge_one(acc, hist, None, None, S, S, None, rs[0], True, wd, w)
    redo = []
    for (t, out, exp_tree, d), r in zip(slots, rs[1:]):
        if d == g0:
            bad = r.abn or r.status != "done" or len(r.sols) != 1 or \
                judge_op(t, out, conv(unlist(r.sols[0]["O"])[0][0])) is not None
            if not group_ok or bad:
                redo.append((t, out, exp_tree))
            else:
                judge_one(acc, hist, t, out, S, exp_tree, None, r, False, wd, w, tree_after=S)
        else:
            judge_one(acc, hist, t, out, S, exp_tree, d, r, False, wd, w)
            shutil.rmtree(d, ignore_errors=True)
    for t, out, exp_tree in redo:
        d = os.path.join(wd, "redo")
        make_state(d, hist)
        r = px.run_goals(w, [hist_goal(d, [t], False)])[0]
        judge_one(acc, hist, t, out, S, exp_tree, d, r, False, wd, w)
        shutil.rmtree(d, ignore_errors=True)
    shutil.rmtree(g0, ignore_errors=True)
    return S


def judge_one(acc, hist, t, twin, S, exp_tree, d, r, query, wd, w, tree_after=None):
    """judge one transition t from the state reached by hist (t None: the state itself with its queries)"""
    full = [list(o) for o in hist] + ([list(t)] if t else [])
    case = {"kind": "hist", "hist": full, "query": bool(query)}
    last = t if t else ("init",)
    acc.transitions += 1 if t else 0
    if r.abn:
        acc.case(True, "abnormal")
        acc.violation("op=%s: %s" % (last[0], r.abn), case, expected="no crash", observed=r.abn)
        return
    if r.status != "done" or len(r.sols) != 1:
        acc.case(True, "helper_" + str(r.status))
        acc.violation("op=%s: helper did not complete (%s)" % (last[0], r.status), case, expected="outcomes",
                      observed=repr(r.exc))
        return
    impl = [conv(x) for x in unlist(r.sols[0]["O"])[0]]
    if tree_after is None:
        tree_after = snapshot(d) if d else S
    viol = None
    if t:
        k = judge_op(t, twin, impl[0] if impl else "missing")
        if k:
            viol = ("op=%s pair=%s: %s" % (t[0], pair_class(t), k), "twin: " + twin, impl[0] if impl else "missing")
    if viol is None and tree_after != exp_tree:
        dd = tree_diff(tree_after, exp_tree)
        kind = "tree differs after an operation the twin %s" % (
            "performs" if twin == "ok" else "treats as a same-file copy" if twin == "samefile" else "refuses")
        viol = ("op=%s pair=%s: %s (impl=%s)" % (last[0], pair_class(last), kind, impl[0] if impl else "-"),
                "twin tree", "; ".join(dd[:4]))
    changed = bool(t) and (exp_tree != S or twin != "ok")
    if viol:
        acc.case(changed, "deviation")
        acc.violation(viol[0], case, expected=viol[1], observed=viol[2])
    else:
        lab = "%s:%s" % (last[0], twin.split(":")[0] if twin else "init")
        if twin == "ok" and exp_tree == S:
            lab += ":noop"
        acc.case(changed, lab, sample={"history": full, "twin": twin, "impl": impl,
                                       "tree": [[e[0], e[1], len(e[2]) if e[2] is not None else None] for e in exp_tree]})
    if query and viol is None:
        qd = d
        tmp = None
        if qd is None:
            # the shared directory may have been touched by the transitions that followed: answer
            # the expectations from a fresh directory in the same state, under the same path
            qd = os.path.join(wd, "g0")
            make_state(qd, hist)
        judge_queries(acc, hist, qd, r.sols[0]["Q"], case)


def judge_queries(acc, hist, base, qterm, case):
    qs = unlist(qterm)[0]
    for name, q in zip(QNAMES, qs):
        p = tp(base, name)
        fe, de, fs, dfs, pc = q[1:]
        exp_fe = "true" if os.path.isfile(p) else "false"
        exp_de = "true" if os.path.isdir(p) else "false"
        checks = []
        checks.append(("file_exists", exp_fe, conv_q(fe)))
        checks.append(("directory_exists", exp_de, conv_q(de)))
        if os.path.isfile(p):
            checks.append(("file_size", "v(%d)" % os.path.getsize(p), conv_q(fs)))
        else:
            checks.append(("file_size", "e(existence_error,file)", conv_q(fs)))
        if os.path.isdir(p):
            exp = "v(%s)" % sorted(os.listdir(p))
            got = conv_q(dfs, sort=True)
            checks.append(("directory_files", exp, got))
        else:
            got = conv_q(dfs)
            ok = got == "false" or got.startswith(("e(existence_error", "e(permission_error"))
            checks.append(("directory_files", got if ok else "false or an existence/permission error", got))
        if os.path.exists(p):
            checks.append(("path_canonical", "v(%s)" % os.path.realpath(p), conv_q(pc, text=True)))
        else:
            got = conv_q(pc, text=True)
            ok = got == "false" or got.startswith(("e(existence_error", "e(permission_error"))
            checks.append(("path_canonical", got if ok else "false", got))
        for pred, exp, got in checks:
            acc.transitions += 1
            kind = ("file" if os.path.isfile(p) else "dir" if os.path.isdir(p) else "missing")
            if exp != got:
                acc.case(True, "deviation")
                c = dict(case, focus_pred=pred, focus_name=name)
                acc.violation("query %s on %s (%s): %s" % (pred, kind, name_class(name), got.split("(")[0] if got.startswith("v(") else got),
                              c, expected=exp, observed=got)
            else:
                acc.case(kind != "missing", "q:%s:%s:%s" % (pred, kind, exp.split("(")[0] if not exp.startswith("e(") else exp),
                         sample={"history": case["hist"], "query": "%s(%r)" % (pred, name), "answer": got})


def name_class(n):
    if n == "":
        return "base/"
    if n.startswith("@rel/"):
        return "relative"
    if any(ord(c) > 127 for c in n):
        return "non-ascii"
    if " " in n:
        return "space"
    if ".." in n or n.endswith("/.") or n.endswith("/"):
        return "dotted"
    if "/" in n:
        return "nested"
    return "plain"


def conv_q(t, sort=False, text=False):
    if t in ("true", "false", "ball"):
        return t
    if isinstance(t, tuple) and t[0] == "e":
        return "e(%s,%s)" % (t[1], t[2] if isinstance(t[2], (str, int)) else "other")
    if isinstance(t, tuple) and t[0] == "v":
        v = t[1]
        if isinstance(v, int):
            return "v(%d)" % v
        if text:
            s = "" if v == "[]" else list_to_str(v)
            return "v(%s)" % s if s is not None else "v?(%r)" % (v,)
        el, tail = unlist(v)
        if tail != "[]":
            return "v?(%r)" % (v,)
        names = [("" if e == "[]" else list_to_str(e)) for e in el]
        if any(n is None for n in names):
            return "v?(%r)" % (v,)
        return "v(%s)" % (sorted(names) if sort else names)
    return repr(t)


# ---------------------------------------------------------------------------
# state-independent checks: path_segments, ill-typed arguments

SEG_PATHS = ["", "/", "a", "a/b", "/a/b/", "a//b", "ü/sp ace", "//", "/hello/there", "a/./..", " "]
ILL = [("_", "inst"), ("1", "type"), ("f(x)", "type"), ("a", "type"), ("[a|_]", "inst"), ("[a|b]", "type"), ("[1]", "type")]
PREDS1 = ["file_exists", "directory_exists", "make_directory", "make_directory_path", "delete_file",
          "delete_directory"]
PREDS2 = ["file_size", "directory_files", "rename_file", "file_copy", "path_canonical"]


def run_static(w, acc):
    cases = []
    for p in SEG_PATHS:
        segs = p.split("/")
        cases.append(("seg_fwd", p, "path_segments(%s,Sg)" % fmt(S(p)), ("segs", segs)))
        cases.append(("seg_bwd", p, "path_segments(P,[%s])" % ",".join(fmt(S(s)) for s in segs), ("path", p)))
        cases.append(("seg_chk", p, "vx_outcome(path_segments(%s,[%s]),R)" % (fmt(S(p)), ",".join(fmt(S(s)) for s in segs)),
                      ("out", "true")))
    cases.append(("seg_bwd", "[]", "path_segments(P,[])", ("path", "")))
    cases.append(("seg_chk", "mismatch", "vx_outcome(path_segments(\"a/b\",[\"a\",\"c\"]),R)", ("out", "false")))
    for t, cls in ILL:
        if t != "_":
            cases.append(("ill", "path_segments/1:" + t, "vx_outcome(path_segments(%s,_),R)" % t, ("err", cls)))
    cases.append(("ill", "path_segments/both", "vx_outcome(path_segments(_,_),R)", ("err", "inst")))
    cases.append(("ill", "path_segments/2:[a]", "vx_outcome(path_segments(_,[a]),R)", ("err", "type")))
    cases.append(("ill", "path_segments/2:[_]", "vx_outcome(path_segments(_,[_]),R)", ("err", "inst")))
    cases.append(("ill", "path_segments/2:partial", "vx_outcome(path_segments(_,[\"a\"|_]),R)", ("err", "inst")))
    cases.append(("ill", "path_segments/2:1", "vx_outcome(path_segments(_,1),R)", ("err", "type")))
    good = fmt(S(os.path.join(SCRATCH, "nonexistent_zz")))
    for pr in PREDS1:
        for t, cls in ILL:
            cases.append(("ill", "%s/1:%s" % (pr, t), "vx_outcome(%s(%s),R)" % (pr, t), ("err", cls)))
    for pr in PREDS2:
        for t, cls in ILL:
            cases.append(("ill", "%s/1:%s" % (pr, t), "vx_outcome(%s(%s,_),R)" % (pr, t), ("err", cls)))
    # second arguments
    a_file = os.path.join(SCRATCH, "static_%d" % os.getpid(), "a")
    os.makedirs(os.path.dirname(a_file), exist_ok=True)
    with open(a_file, "wb") as f:
        f.write(b"hello")
    af = fmt(S(a_file))
    ad = fmt(S(os.path.dirname(a_file)))
    for t, cls in ILL[1:]:
        if t not in ("[a|_]",):
            cases.append(("ill", "rename_file/2:" + t, "vx_outcome(rename_file(%s,%s),R)" % (af, t), ("err", cls)))
            cases.append(("ill", "file_copy/2:" + t, "vx_outcome(file_copy(%s,%s),R)" % (af, t), ("err", cls)))
    cases.append(("ill", "rename_file/2:_", "vx_outcome(rename_file(%s,_),R)" % af, ("err", "inst")))
    cases.append(("ill", "file_copy/2:_", "vx_outcome(file_copy(%s,_),R)" % af, ("err", "inst")))
    cases.append(("ill", "file_size/2:a", "vx_outcome(file_size(%s,a),R)" % af, ("err", "type")))
    cases.append(("ill", "file_size/2:f(x)", "vx_outcome(file_size(%s,f(x)),R)" % af, ("err", "type")))
    cases.append(("ill", "directory_files/2:a", "vx_outcome(directory_files(%s,a),R)" % ad, ("err", "type")))
    cases.append(("val", "file_size/2:6", "vx_outcome(file_size(%s,6),R)" % af, ("out", "false")))
    cases.append(("val", "file_size/2:5", "vx_outcome(file_size(%s,5),R)" % af, ("out", "true")))
    cases.append(("val", "file_still_there", "vx_outcome(file_size(%s,5),R)" % af, ("out", "true")))
    rs = px.run_goals(w, [c[2] for c in cases])
    for (kind, name, goal, exp), r in zip(cases, rs):
        case = {"kind": "static", "goal": goal, "exp": list(exp), "name": name, "skind": kind}
        acc.transitions += 1
        v = judge_static(kind, name, exp, r)
        if v:
            acc.case(True, "deviation")
            acc.violation(v[0], case, expected=v[1], observed=v[2])
        else:
            acc.case(True, "static:%s:%s" % (kind, exp[1] if exp[0] in ("err", "out") else exp[0]),
                     sample={"goal": goal, "expected": list(exp)})
    shutil.rmtree(os.path.dirname(a_file), ignore_errors=True)


def judge_static(kind, name, exp, r):
    if r.abn:
        return ("static %s %s: %s" % (kind, name, r.abn), "no crash", r.abn)
    if r.status != "done" or len(r.sols) != 1:
        return ("static %s %s: %s" % (kind, name.split(":")[0], "raised " + px.formal_sig(r.formal()) if r.status == "exc"
                                      else "no single solution"), repr(exp), repr(r.exc or len(r.sols)))
    sol = r.sols[0]
    if exp[0] == "segs":
        el, tail = unlist(sol["Sg"])
        got = [("" if e == "[]" else list_to_str(e)) for e in el]
        if tail != "[]" or got != exp[1]:
            return ("static path_segments(+,-) wrong segments", repr(exp[1]), repr(got))
        return None
    if exp[0] == "path":
        got = "" if sol["P"] == "[]" else list_to_str(sol["P"])
        if got != exp[1]:
            return ("static path_segments(-,+) wrong path", repr(exp[1]), repr(got))
        return None
    R = sol["R"]
    if exp[0] == "out":
        if R != exp[1]:
            return ("static %s: expected %s" % (name.split(":")[0], exp[1]), exp[1], repr(R))
        return None
    # errors
    if isinstance(R, tuple) and R[0] == "error":
        f = R[1]
        if exp[1] == "inst" and f == "instantiation_error":
            return None
        if exp[1] == "type" and isinstance(f, tuple) and f[0] == "type_error":
            return None
        return ("static ill-typed %s: wrong error class %s" % (name, px.formal_sig(f)), exp[1], repr(f))
    return ("static ill-typed %s: no error (%s)" % (name, R if isinstance(R, str) else "?"), exp[1] + " error", repr(R))


# ---------------------------------------------------------------------------

def wdir():
    d = os.path.join(SCRATCH, str(os.getpid()))
    os.makedirs(d, exist_ok=True)
    return d


def run_shard(w, shard, tier):
    acc = px.ShardAcc()
    if shard[0] == "static":
        run_static(w, acc)
    else:
        for h in shard[1]:
            run_state(w, acc, [tuple(o) for o in h], wdir())
        # distinct trees: the planned states expanded by this shard (each belongs to exactly one shard)
        acc.states = len(shard[1])
    return acc.result()


def recheck(w, case, tier):
    acc = px.ShardAcc(max_viol=1000)
    if case["kind"] == "static":
        run_static(w, acc)
        for v in acc.violations:
            if v["case"]["name"] == case["name"] and v["case"]["skind"] == case["skind"]:
                return v
        return None
    full = [tuple(o) for o in case["hist"]]
    wd = wdir()
    d = os.path.join(wd, "replay_i")
    tw = os.path.join(wd, "replay_t")
    if case.get("query"):
        make_state(d, full)
        S = snapshot(d)
        r = px.run_goals(w, [hist_goal(d, [], True)])[0]
        judge_one(acc, full, None, None, S, S, d, r, True, wd, w)
    else:
        hist, t = full[:-1], full[-1]
        make_state(tw, hist)
        S = snapshot(tw)
        out = twin_apply(tw, t)
        exp_tree = snapshot(tw)
        make_state(d, hist)
        r = px.run_goals(w, [hist_goal(d, [t], False)])[0]
        judge_one(acc, hist, t, out, S, exp_tree, d, r, False, wd, w)
    shutil.rmtree(d, ignore_errors=True)
    shutil.rmtree(tw, ignore_errors=True)
    for v in acc.violations:
        if v["case"].get("focus_pred") == case.get("focus_pred") and v["case"].get("focus_name") == case.get("focus_name"):
            return v
    return acc.violations[0] if acc.violations else None
