"""C39 — DCG translation preserves grammar semantics (DESIGN §6 C39).

Grammar bodies are enumerated as trees over a leaf alphabet and the control
constructs; each becomes the rule sN(X) --> Body (and, in a second family, the
pushback rule sN(X), "a" --> Body), consulted in batches (the translation runs
in the loader).  phrase/3 is asked for every input list over {a,b} of length
<= 4 in one query (all solutions, in order: input, X, remainder), phrase/2 for
the same inputs, and phrase/2 with an unbound input (generation mode, first 5
answers).  Oracle: a direct interpreter of grammar bodies (position threading
by unification, cut barriers) written from the DCG draft, independent of
dcgs.pl.
"""
import itertools

from vx.core import px, terms
from vx.core.terms import V, NIL, mklist
from vx.model import grpe

ID = "C39"
LEVEL = "exploration"
ENGINE = "PEX"
TECHNIQUE = "bounded exhaustive enumeration of grammar bodies x inputs, direct grammar-body interpreter as oracle"
RULE = ("all grammar bodies that are a leaf, a binary construct over two leaves, an if-then-else over three leaves, or a "
        "binary construct over a leaf and a binary construct over leaves (both nestings), leaves = {\"a\", \"ab\", [], [b], "
        "n, m(X), {X = t}, {fail}, !, call(n), call(m,X), phrase(n)} (quick: 8 of them at depth 2), constructs = "
        "{(A,B), (A|B), (A;B), (C->T;E)}; each as sN(X) --> Body and as the pushback rule sN(X), \"a\" --> Body; "
        "inputs: all 31 lists over {a,b} of length <= 4 through phrase/3 (remainder enumerated) and phrase/2, plus "
        "phrase/2 with an unbound input (first 5 answers); bodies that the translation must reject (\\+, bare ->, "
        "non-callable, unbound) through phrase/2 directly. A case is one grammar x one query. "
        "Non-trivial: the body contains !, an if-then-else, or pushback.")
LEVEL_TEXT = "every grammar of the stated shape is translated by the real loader and run on every input; exact answer sequences compared"
ASSUMPTIONS = ["the 150-line grammar-body interpreter below (cut is local to the rule and to the condition of an if-then-else; "
               "opaque in call//N and phrase//N)", "driver transport"]
MIN_OUTCOMES = 4

X = V("X")
HELPERS = """
:- use_module(library(dcgs)).
:- use_module(library(lists)).
n --> "a" | "b".
m(a) --> "a".
m(b) --> "b", "b".
"""
# helper rules for the model: name -> list of (head args, body)
RULES = {
    ("n", 0): [((), ("|", ("t", "a"), ("t", "b")))],
    ("m", 1): [(("a",), ("t", "a")), (("b",), (",", ("t", "b"), ("t", "b")))],
}

# leaves: (text, model node)
LEAVES = [
    ('"a"', ("t", "a")), ('"ab"', ("t", "ab")), ("[]", ("t", "")), ("[b]", ("t", "b")),
    ("n", ("nt", "n", ())), ("m(X)", ("nt", "m", (X,))), ("{X = t}", ("{}", ("=", X, "t"))), ("{fail}", ("{}", "fail")),
    ("!", ("!",)), ("call(n)", ("call", "n", ())), ("call(m,X)", ("call", "m", (X,))), ("phrase(n)", ("call", "n", ())),
]
QUICK_LEAVES = [0, 2, 3, 4, 5, 6, 8, 9]
BINOPS = [(",", "(%s, %s)"), ("|", "(%s | %s)"), (";", "(%s ; %s)")]

INPUTS = [""] + ["".join(p) for n in range(1, 5) for p in itertools.product("ab", repeat=n)]


def bodies(tier):
    """-> list of (family tag, text, node)"""
    out = []
    allv = list(range(len(LEAVES)))
    d2 = allv if tier == "thorough" else QUICK_LEAVES
    for i in allv:
        out.append(("leaf", LEAVES[i][0], LEAVES[i][1]))
    bins = []
    for op, fmt in BINOPS:
        for i in allv:
            for j in allv:
                bins.append(((op, i, j), fmt % (LEAVES[i][0], LEAVES[j][0]), (op, LEAVES[i][1], LEAVES[j][1])))
    for _, t, n in bins:
        out.append(("bin", t, n))
    for i in allv:
        for j in allv:
            for k in allv:
                out.append(("ite", "(%s -> %s ; %s)" % (LEAVES[i][0], LEAVES[j][0], LEAVES[k][0]),
                            ("ite", LEAVES[i][1], LEAVES[j][1], LEAVES[k][1])))
    for (op1, i, j), t, n in bins:
        if i not in d2 or j not in d2:
            continue
        for op, fmt in BINOPS:
            for k in d2:
                out.append(("nest", fmt % (t, LEAVES[k][0]), (op, n, LEAVES[k][1])))
                out.append(("nest", fmt % (LEAVES[k][0], t), (op, LEAVES[k][1], n)))
    if tier == "thorough":
        # if-then-else next to / inside a binary construct
        small = QUICK_LEAVES
        for i in small:
            for j in small:
                for k in small:
                    ite_t = "(%s -> %s ; %s)" % (LEAVES[i][0], LEAVES[j][0], LEAVES[k][0])
                    ite_n = ("ite", LEAVES[i][1], LEAVES[j][1], LEAVES[k][1])
                    for op, fmt in BINOPS:
                        for l in small:
                            out.append(("nest_ite", fmt % (ite_t, LEAVES[l][0]), (op, ite_n, LEAVES[l][1])))
                            out.append(("nest_ite", fmt % (LEAVES[l][0], ite_t), (op, LEAVES[l][1], ite_n)))
    return out


_B = {}


def bodies_for(tier):
    if tier not in _B:
        _B[tier] = bodies(tier)
    return _B[tier]


NSHARD = 48


def shards(tier):
    return list(range(NSHARD))


def bound_text(tier):
    return "%d grammar bodies x {plain, pushback} x (31 inputs through phrase/3 and phrase/2 + generation mode)" % len(bodies_for(tier))


def setup(w, tier):
    grpe.consult_checked(w, HELPERS, persist=True)


# ---------------------------------------------------------------------------
# the reference recogniser

class CB:
    __slots__ = ("count",)

    def __init__(self):
        self.count = 0


class Ctx:
    def __init__(self):
        self.n = 0

    def fresh(self):
        self.n += 1
        return V("_g%d" % self.n)


def solve(b, s0, s, sub, cb, ctx):
    """yields substitutions; cb = cut barrier of the enclosing rule (or if-then-else condition)"""
    k = b[0]
    if k == "t":
        sub1 = grpe.unify(s0, terms.chars_list(b[1], s), sub)
        if sub1 is not None:
            yield sub1
        return
    if k == ",":
        mid = ctx.fresh()
        for sub1 in solve(b[1], s0, mid, sub, cb, ctx):
            c1 = cb.count
            for sub2 in solve(b[2], mid, s, sub1, cb, ctx):
                yield sub2
            if cb.count != c1:
                # a cut was executed to the right of b[1]: its remaining alternatives are gone
                return
        return
    if k in ("|", ";"):
        c0 = cb.count
        for sub1 in solve(b[1], s0, s, sub, cb, ctx):
            yield sub1
        if cb.count != c0:
            return
        for sub1 in solve(b[2], s0, s, sub, cb, ctx):
            yield sub1
        return
    if k == "ite":
        mid = ctx.fresh()
        for sub1 in solve(b[1], s0, mid, sub, CB(), ctx):
            for sub2 in solve(b[2], mid, s, sub1, cb, ctx):
                yield sub2
            return
        for sub1 in solve(b[3], s0, s, sub, cb, ctx):
            yield sub1
        return
    if k == "!":
        cb.count += 1
        sub1 = grpe.unify(s0, s, sub)
        if sub1 is not None:
            yield sub1
        return
    if k == "{}":
        g = b[1]
        if g == "fail":
            return
        sub1 = grpe.unify(g[1], g[2], sub)
        if sub1 is None:
            return
        sub1 = grpe.unify(s0, s, sub1)
        if sub1 is not None:
            yield sub1
        return
    if k in ("nt", "call"):
        c0 = cb.count
        for hargs, body in RULES[(b[1], len(b[2]))]:
            sub1 = sub
            for a, h in zip(b[2], hargs):
                sub1 = grpe.unify(a, h, sub1)
                if sub1 is None:
                    break
            if sub1 is None:
                continue
            inner = CB()
            i0 = inner.count
            for sub2 in solve(body, s0, s, sub1, inner, ctx):
                yield sub2
                if cb.count != c0:
                    return
            if inner.count != i0 or cb.count != c0:
                return
        return
    raise ValueError(b)


def model_phrase(node, pushback, inp, cap=1000):
    """inp: str (the input list) or None (unbound).  -> [(input term, X value, remainder term)]"""
    ctx = Ctx()
    s0 = terms.chars_list(inp) if inp is not None else V("I")
    r = V("R")
    out = []
    cb = CB()
    if pushback:
        s1 = ctx.fresh()
        gen = (grpe.unify(r, (".", "a", s1), sub) for sub in solve(node, s0, s1, {}, cb, ctx))
    else:
        gen = solve(node, s0, r, {}, cb, ctx)
    for sub in gen:
        if sub is None:
            continue
        out.append((grpe.resolve(s0, sub), grpe.resolve(X, sub), grpe.resolve(r, sub)))
        if len(out) >= cap:
            break
    return out


def expected(node, pushback, query):
    """query: 'p3' | 'p2' | 'gen' -> list of canonical answers"""
    out = []
    for inp in INPUTS:
        for i, x, r in model_phrase(node, pushback, inp):
            if query == "p3":
                out.append(grpe.canon(("s", i, x, r)))
            elif r == NIL:
                out.append(grpe.canon(("s", i, x)))
            elif isinstance(r, V):
                out.append(grpe.canon(("s", i, x)))
    return out


def model_gen(node, pushback):
    """phrase(s(X), I) with I unbound = phrase/3 with remainder []"""
    ctx = Ctx()
    s0 = V("I")
    cb = CB()
    if pushback:
        s1 = ctx.fresh()
        for sub in solve(node, s0, s1, {}, cb, ctx):
            sub2 = grpe.unify(NIL, (".", "a", s1), sub)
            if sub2 is not None:
                yield (grpe.resolve(s0, sub2), grpe.resolve(X, sub2), NIL)
    else:
        for sub in solve(node, s0, NIL, {}, cb, ctx):
            yield (grpe.resolve(s0, sub), grpe.resolve(X, sub), NIL)


def model_p2(node, pushback):
    out = []
    for inp in INPUTS:
        ctx = Ctx()
        s0 = terms.chars_list(inp)
        cb = CB()
        if pushback:
            s1 = ctx.fresh()
            for sub in solve(node, s0, s1, {}, cb, ctx):
                sub2 = grpe.unify(NIL, (".", "a", s1), sub)
                if sub2 is not None:
                    out.append(grpe.canon(("s", s0, grpe.resolve(X, sub2))))
        else:
            for sub in solve(node, s0, NIL, {}, cb, ctx):
                out.append(grpe.canon(("s", s0, grpe.resolve(X, sub))))
    return out


# ---------------------------------------------------------------------------

INPUT_LIST_TEXT = "[" + ",".join('"%s"' % i for i in INPUTS) + "]"


def has_feature(node):
    if not (isinstance(node, tuple) and node and isinstance(node[0], str)):
        return False
    if node[0] in ("!", "ite"):
        return True
    return any(has_feature(a) for a in node[1:] if isinstance(a, tuple))


def features(node, pushback):
    fs = set()

    def rec(n):
        if isinstance(n, tuple) and n and isinstance(n[0], str):
            if n[0] == "!":
                fs.add("cut")
            elif n[0] == "ite":
                fs.add("ite")
            elif n[0] == "call":
                fs.add("call")
            elif n[0] == "{}":
                fs.add("brace")
            elif n[0] in ("|", ";"):
                fs.add("alt")
            for a in n[1:]:
                rec(a)
    rec(node)
    if pushback:
        fs.add("pushback")
    return ",".join(sorted(fs)) or "plain"


def observed(res, names):
    if res.abn:
        return ("abn:" + res.abn, [])
    st = res.status
    if st == "exc":
        st = "exc:" + px.formal_sig(res.formal())
    return (st, [grpe.canon(("s",) + tuple(s.get(n) for n in names)) for s in res.sols])


def run_batch(w, items, acc):
    """items: list of (family, text, node, pushback)"""
    w.new_machine()
    lines = []
    for i, (fam, text, node, pb) in enumerate(items):
        head = "s%d(X), \"a\"" % i if pb else "s%d(X)" % i
        lines.append("%s --> %s." % (head, text))
    for part in px.chunked(lines, 300):
        grpe.consult_checked(w, "\n".join(part) + "\n")
    goals = []
    for i, it in enumerate(items):
        goals.append("g((member(I, %s), phrase(s%d(X), I, R)), 2000)" % (INPUT_LIST_TEXT, i))
        goals.append("g((member(I, %s), phrase(s%d(X), I)), 2000)" % (INPUT_LIST_TEXT, i))
        goals.append("g(phrase(s%d(X), I), 5)" % i)
    rs = px.run_goals(w, goals)
    for i, (fam, text, node, pb) in enumerate(items):
        nt = has_feature(node) or pb
        feat = features(node, pb)
        for q, r, names in (("p3", rs[3 * i], ["I", "X", "R"]), ("p2", rs[3 * i + 1], ["I", "X"]),
                            ("gen", rs[3 * i + 2], ["I", "X"])):
            obs = observed(r, names)
            if q == "p3":
                exp = expected(node, pb, "p3")
                est = "done"
            elif q == "p2":
                exp = model_p2(node, pb)
                est = "done"
            else:
                exp = []
                for ii, x, rr in model_gen(node, pb):
                    exp.append(grpe.canon(("s", ii, x)))
                    if len(exp) >= 5:
                        break
                est = "cap" if len(exp) >= 5 else "done"
            ok = obs == (est, exp)
            label = "%s:%s" % (q, "none" if not exp else "some") if ok else "mismatch"
            acc.case(nt, label, sample={"rule": lines[i], "query": q, "answers": len(exp)})
            if not ok:
                if obs[0].startswith("abn") or obs[0].startswith("exc"):
                    kind = obs[0].split("(")[0]
                elif len(obs[1]) < len(exp):
                    kind = "answers:fewer"
                elif len(obs[1]) > len(exp):
                    kind = "answers:more"
                else:
                    kind = "answers:differ"
                acc.violation("%s %s {%s} %s" % (fam, q, feat, kind),
                              {"text": text, "pushback": pb, "fam": fam, "query": q},
                              expected=repr((est, exp))[:1200], observed=repr(obs)[:1200])


ERR_BODIES = [
    ("naf", "(\\+ \"a\")", "representation_error"), ("bare_ite", "(\"a\" -> \"b\")", "representation_error"),
    ("number", "1", "type_error"), ("conj_number", "(n, 1)", "type_error"), ("unbound", "V", "instantiation_error"),
    ("conj_unbound_ok", "(n, V)", "instantiation_error"),
]


def run_errors(w, acc):
    rs = px.run_goals(w, ["g(phrase(%s, \"ab\", R))" % t for _, t, _ in ERR_BODIES])
    for (name, t, cls), r in zip(ERR_BODIES, rs):
        f = r.formal() if r.status == "exc" else None
        got = px.formal_class(f) if f else (r.abn or r.status)
        ok = got == cls
        acc.case(True, "error:%s" % (cls if ok else "wrong"))
        if not ok:
            acc.violation("errors %s expected=%s got=%s" % (name, cls, got), {"err": name},
                          expected=cls, observed=repr(r)[:300])


def items_of(tier, shard):
    bs = bodies_for(tier)
    out = []
    for idx in range(shard, len(bs), NSHARD):
        fam, text, node = bs[idx]
        out.append((fam, text, node, False))
        out.append((fam, text, node, True))
    return out


def run_shard(w, shard, tier):
    acc = px.ShardAcc()
    for part in px.chunked(items_of(tier, shard), 300):
        run_batch(w, part, acc)
    if shard == 0:
        run_errors(w, acc)
    return acc.result()


def recheck(w, case, tier):
    acc = px.ShardAcc()
    if "err" in case:
        run_errors(w, acc)
        vs = [v for v in acc.violations if v["case"]["err"] == case["err"]]
        return vs[0] if vs else None
    node = None
    for t in ("quick", "thorough"):
        for fam, text, n in bodies_for(t):
            if text == case["text"] and fam == case["fam"]:
                node = n
                break
        if node is not None:
            break
    if node is None:
        return None
    run_batch(w, [(case["fam"], case["text"], node, case["pushback"])], acc)
    vs = [v for v in acc.violations if v["case"]["query"] == case["query"]]
    return vs[0] if vs else None
