"""C31 — an interrupt at any point is caught cleanly (DESIGN §6 C31).

Engine FLT: for every workload the number N of dispatched instructions between
the ARM and DISARM markers is counted once (hook H1); then the workload is
re-run N times with the interrupt flag raised — and polled — at instruction n,
for every n. After each run a fixed battery of follow-up goals and the
workload itself (unarmed) must give their reference answers on the same
machine.
"""
from vx.core import pool, px, terms, flt

ID = "C31"
LEVEL = "fault_enumeration"
ENGINE = "FLT"
TECHNIQUE = ("exhaustive fault-point enumeration: the interrupt is delivered at every instruction boundary n of each "
             "workload (hook-driven), each run followed by reference-compared follow-up goals on the same machine")
RULE = ("workloads x every instruction index n in 0..N-1 (N measured per workload; quick: every n from the workload's first "
        "instruction on, the common prologue once, every 5th n of the meta-called variants; thorough: every n). Non-trivial: the interrupt lands strictly inside the workload "
        "(between the W0 and W1 markers).")
LEVEL_TEXT = ("every instruction boundary of the listed workloads is an explored interrupt point; the oracle is the "
              "documented ball, a cleared flag, and reference answers of follow-up goals on the same machine")
ASSUMPTIONS = ["the poll happens at the chosen instruction boundary (hook H1 leaves the inner dispatch loop there); in a normal build the flag is polled every 256 instructions at an arbitrary phase, so every boundary is a possible poll point",
               "points inside a single builtin are not instruction boundaries and are not interruptible in the real system either",
               "documented ball: error('$interrupt_thrown', _) (toplevel.pl)"]
MIN_OUTCOMES = 2

WORKLOADS = [
    ("nrev", "R", "(num31(1,12,L0), nrev31(L0,R))"),
    ("findall_join", "L", "findall(X-Y, (member(X,[1,2,3]), member(Y,[a,b])), L)"),
    ("assert_retract", "L", "(retractall(w31(_)), assertz(w31(1)), assertz(w31(2)), asserta(w31(0)), retract(w31(1)), findall(X, w31(X), L), retractall(w31(_)))"),
    ("catch_scc", "X-Y", "(retractall(c31(_)), catch(setup_call_cleanup(assertz(c31(1)), (member(X,[1,2,3]), X > 1), retract(c31(1))), error(type_error(_,_),_), true), findall(Z, c31(Z), Y))"),
    ("freeze_dif", "X-Y-Z", "(freeze(X, Y = 1), dif(Z, a), X = 2, Z = b)"),
    ("between_loop", "S", "(( between(1, 40, X), X > 39 -> S = X ; S = none ))"),
    ("string_ops", "A-L", "(append(\"abc\", \"def\", L), atom_chars(A, L))"),
    ("sorting", "L-K", "(sort([c,a,b,a,d], L), keysort([2-a,1-b,2-c,1-d], K))"),
    ("inference_limit", "R-Lr", "(num31(1,6,L0), call_with_inference_limit(nrev31(L0,Lr), 10000, R))"),
    ("bagof", "Ls", "findall(X-L, bagof(Y, member(X-Y,[1-a,2-b,1-c]), L), Ls)"),
    ("length_enum", "L", "(length(L, 3))"),
    ("copy_unify", "C-D", "(T = f(X,g(Y,X),\"str\",[1,2|Z]), copy_term(T, C), C = f(a,D,_,_))"),
    # exceptions in flight: an interrupt that arrives between a throw and the
    # handler taking over must not be lost
    ("throw_catch", "X-E-Y", "(catch(t31a, b31(X), true), catch(t31b, error(E, _), true), catch(t31c, c31b(Y), true))"),
]

# every workload is a consulted predicate wl31_<name>(Result), so that the
# interior of a run is the workload's own compiled code; "meta_*" variants run
# the same body through call/1 (goal expansion and on-the-fly compilation).
META = ["findall_join", "nrev"]

HELPERS = r"""
:- use_module(library(lists)).
:- use_module(library(between)).
:- use_module(library(freeze)).
:- use_module(library(dif)).
:- use_module(library(iso_ext)).
:- dynamic(w31/1).
:- dynamic(c31/1).
:- dynamic(fz31/1).
nrev31([], []).
nrev31([H|T], R) :- nrev31(T, RT), app31(RT, [H], R).
app31([], L, L).
app31([H|T], L, [H|R]) :- app31(T, L, R).
t31a :- throw(b31(1)).
t31b :- atom_length(_, _).
t31c :- catch(t31d, nomatch, true).
t31d :- throw(c31b(2)).
num31(N, N, [N]) :- !.
num31(I, N, [I|T]) :- I < N, I1 is I + 1, num31(I1, N, T).
""" + "".join("wl31_%s(%s) :- %s.\n" % (n, t, g) for (n, t, g) in WORKLOADS)

WL_GOALS = [("%s" % n, "vx_flt(R, wl31_%s(R))" % n) for (n, t, g) in WORKLOADS] + \
           [("meta_%s" % n, "vx_flt(%s, %s)" % (t, g)) for (n, t, g) in WORKLOADS if n in META]
WORKLOADS = [(n, None, g) for (n, g) in WL_GOALS]

FOLLOWUPS = [
    "findall(X, member(X,[1,2,3]), L)",
    "(assertz(fz31(1)), findall(X, fz31(X), L), retract(fz31(1)))",
    "(atom_chars(A, \"xyz\"), atom_length(A, N))",
    "copy_term(f(X,Y,X), C)",
    "catch(throw(b), B, true)",
    "(freeze(V, W = 1), V = a)",
    "(X = f(Y), Y = 2, findall(P-Q, (member(P,[1,2]), member(Q,[x])), L))",
]


def is_interrupt_ball(t):
    return isinstance(t, tuple) and len(t) == 3 and t[0] == "error" and t[1] == "$interrupt_thrown"


def points(i, N, w0, w1, tier):
    name = WORKLOADS[i][0]
    if tier == "thorough":
        return list(range(N))
    if name.startswith("meta_"):
        return [n for n in range(w0 or 0, N) if n % 5 == 0]
    # the prologue (marker output before the workload starts) is the same code
    # for every workload: explored once, with the first workload
    lo = 0 if i == 0 else (w0 or 0)
    return list(range(lo, N))


ENG = flt.Flt("C31", "interrupt", HELPERS, [(n, g) for (n, _, g) in WORKLOADS], FOLLOWUPS,
              is_interrupt_ball, points, fault_name="interrupt", fine_grained=("throw_catch",))


def bound_text(tier):
    return "every instruction index of %d workloads%s" % (len(WORKLOADS), "" if tier == "thorough" else " (interior+epilogue of each; prologue once; meta variants every 5th)")


def setup(w, tier):
    ENG.setup(w, tier)


def shards(tier):
    return ENG.shards(tier)


def run_shard(w, shard, tier):
    return ENG.run_shard(w, shard, tier)


def recheck(w, case, tier):
    return ENG.recheck(w, case, tier)
