"""C08 - static, dynamic and meta-called code give the same answers (DESIGN section 6, C08).

Every program is realised in seven modes on the same machine:
  s  consulted static                       d  consulted, clauses interleaved under :- discontiguous
  z  :- dynamic + assertz clause by clause  a  :- dynamic + asserta in reverse order
  m  the z clauses run by a vanilla clause/2 meta-interpreter (cut-free programs only)
  w  the whole body passed to call/1        g  every top-level body goal passed to call/1
The property is differential: s, d, z, a (and m) must give the same answer
sequence; w / g must equal s whenever REF says that wrapping does not change
the answers (no cut escapes), and must equal REF's opaque-cut answers
otherwise.  REF also names the side that deviates (violation signature).
"""
from vx.core import px, terms
from vx.core.terms import V, fmt
from vx.model import refprolog as R
from vx.model import c07_space as S
from vx.model import c07_harness as H
from vx.props import C07

ID = "C08"
LEVEL = "exploration"
ENGINE = "PEX+REF"
TECHNIQUE = "differential execution of each enumerated program in 7 loading/calling modes, REF as arbiter"
RULE = ("programs: every control tree of C07-B with <=5 (quick) / <=6 (thorough, plain context only) nodes in both contexts, the C07-C cut-in-condition family, the C07-A1 "
        "rules with n<=2 body goals (all variable sharing patterns) and the C07-A2 control skeletons with <=3 (quick) / "
        "<=4 (thorough) argument slots; each in modes static, discontiguous, assertz, asserta-reversed, clause/2 "
        "meta-interpreter (cut-free programs), call(Body), call(Goal) per body goal; 2 queries per program. A case is "
        "one (program, query) with all its modes. Non-trivial: the program has >= 2 live clauses tried by backtracking "
        "or contains a cut, i.e. REF's run resumes a choice point or removes one by cut.")
LEVEL_TEXT = ("exhaustive within the stated bound over programs x modes; every enumerated program is executed in every "
              "mode on the real machine and the answer sequences compared exactly")
ASSUMPTIONS = ["REF decides when call/1 wrapping changes the answers (cut opacity) and which side deviates",
               "the vanilla meta-interpreter (vx_mi/1 below) is correct for cut-free programs",
               "driver transport"]
MIN_OUTCOMES = 4
BATCH = 120

MODES = ["s", "d", "z", "a", "m", "w", "g"]

MI_TEXT = """
:- dynamic(q/2). :- dynamic(r/1). :- dynamic(q3/3).
q(a,b). q(b,c). q(c,a). r(b). r(c). q3(a,b,c). q3(b,a,a). q3(c,c,b).
vx_mi(G) :- var(G), !, throw(error(instantiation_error, vx_mi/1)).
vx_mi(true) :- !.
vx_mi(fail) :- !, fail.
vx_mi(','(A,B)) :- !, vx_mi(A), vx_mi(B).
vx_mi(;(->(C,T),E)) :- !, ( vx_mi(C) -> vx_mi(T) ; vx_mi(E) ).
vx_mi(;(A,B)) :- !, ( vx_mi(A) ; vx_mi(B) ).
vx_mi(->(C,T)) :- !, ( vx_mi(C) -> vx_mi(T) ).
vx_mi(\\+(A)) :- !, \\+ vx_mi(A).
vx_mi(call(A)) :- !, vx_mi(A).
vx_mi(call(F,A,B)) :- !, F =.. L0, append(L0, [A,B], L1), G =.. L1, vx_mi(G).
vx_mi(call(F,A)) :- !, F =.. L0, append(L0, [A], L1), G =.. L1, vx_mi(G).
vx_mi(=(A,B)) :- !, A = B.
vx_mi(==(A,B)) :- !, A == B.
vx_mi(is(A,B)) :- !, A is B.
vx_mi(<(A,B)) :- !, A < B.
vx_mi(atom(A)) :- !, atom(A).
vx_mi(var(A)) :- !, var(A).
vx_mi(H) :- clause(H, B), vx_mi(B).
"""


def bound_text(tier):
    if tier == "thorough":
        return "C07-B trees <=6 nodes (plain context; <=5 nested), A1 n<=2 (14 leaves), A2 skeletons <=4 slots, family C; 7 modes each"
    return "C07-B trees <=5 nodes x 2 contexts, A1 n<=2 (9 leaves), A2 skeletons <=3 slots, family C; 7 modes each"


def _a1_skels(tier):
    return [s for s in S.a1_skeletons(tier) if len(s[1]) <= 2]


def _a2_skels(tier):
    lim = 4 if tier == "thorough" else 3
    return [g for g in S.a2_skeletons(tier) if S.count_slots(S.conj(g)) <= lim]


def shards(tier):
    sh = []
    target = 1500 if tier == "thorough" else 800
    sk = _a1_skels(tier)
    counts = [C07._n_rgs(S.count_slots(("c",) + tuple(h)) + sum(S.count_slots(g) for g in gs), mv) for h, gs, mv in sk]
    for lo, hi in C07._pack(counts, target):
        sh.append(("A1", lo, hi))
    sk2 = _a2_skels(tier)
    counts = [C07._n_a2(S.count_slots(S.conj(g)), C07._a2_pool_len(S.count_slots(S.conj(g)), tier)) for g in sk2]
    for lo, hi in C07._pack(counts, target):
        sh.append(("A2", lo, hi))
    sh.append(("C", 0, 2))
    sh.append(("C", 1, 2))
    for ctx in ("plain", "nested"):
        sh.append(("B", 1, 4, ctx, 0, 2))
        sh.append(("B", 1, 4, ctx, 1, 2))
        for k in range(12):
            sh.append(("B", 5, 5, ctx, k, 12))
        if tier == "thorough" and ctx == "plain":
            for k in range(96):
                sh.append(("B", 6, 6, ctx, k, 96))
    return sh


def programs(shard, tier):
    fam = shard[0]
    if fam == "A1":
        for s in _a1_skels(tier)[shard[1]:shard[2]]:
            for p in S.a1_programs(s):
                p["queries"] = p["queries"][:2]
                yield p
    elif fam == "A2":
        for g in _a2_skels(tier)[shard[1]:shard[2]]:
            for p in S.a2_programs(g, tier):
                p["queries"] = p["queries"][:2]
                yield p
    else:
        for p in C07.programs(shard, tier):
            yield p


def setup(w, tier):
    w.consult(MI_TEXT, persist=True)


# ---------------------------------------------------------------------------
# mode realisations

def split_clause(c):
    if type(c) is tuple and c[0] == ":-" and len(c) == 3:
        return c[1], c[2]
    return c, "true"


def conj_list(b):
    out = []
    while type(b) is tuple and len(b) == 3 and b[0] == ",":
        out.append(b[1])
        b = b[2]
    out.append(b)
    return out


def wrap_body(c):
    h, b = split_clause(c)
    if b == "true":
        return c
    return (":-", h, ("call", b))


def wrap_goals(c):
    h, b = split_clause(c)
    if b == "true":
        return c
    return (":-", h, S.conj([("call", g) for g in conj_list(b)]))


def mode_clauses(p, mode):
    """the clause list REF should run for this mode"""
    if mode == "w":
        return [wrap_body(c) for c in p["clauses"]]
    if mode == "g":
        return [wrap_goals(c) for c in p["clauses"]]
    return p["clauses"]


def pred_keys(clauses):
    ks = []
    for c in clauses:
        h, _ = split_clause(c)
        k = (h[0], len(h) - 1) if type(h) is tuple else (h, 0)
        if k not in ks:
            ks.append(k)
    return ks


def consult_text(p, suf):
    """static text for modes s, d, w, g and the dynamic declarations for z, a"""
    out = []
    cl = p["clauses"]
    keys = pred_keys(cl)
    # s
    out += [H.clause_text(S.rename_term(c, suf + "s")) for c in cl]
    # d: interleave the predicates (with a dummy predicate when there is only one)
    for (n, a) in keys:
        out.append(":- discontiguous(%s/%d).\n" % (n + suf + "d", a))
    out.append(":- discontiguous(vxd%s/0).\n" % suf)
    groups = [[c for c in cl if pred_keys([c])[0] == k] for k in keys]
    inter = []
    i = 0
    while any(groups):
        for g in groups:
            if g:
                inter.append(H.clause_text(S.rename_term(g.pop(0), suf + "d")))
        inter.append("vxd%s.\n" % suf)
        i += 1
    out += inter
    # z, a
    for m in ("z", "a"):
        for (n, a) in keys:
            out.append(":- dynamic(%s/%d).\n" % (n + suf + m, a))
    # w, g
    out += [H.clause_text(S.rename_term(wrap_body(c), suf + "w")) for c in cl]
    out += [H.clause_text(S.rename_term(wrap_goals(c), suf + "g")) for c in cl]
    return "".join(out)


def assert_goal(p, suf):
    cl = p["clauses"]
    gs = [("assertz", S.rename_term(c, suf + "z")) for c in cl]
    gs += [("asserta", S.rename_term(c, suf + "a")) for c in reversed(cl)]
    return "g(%s)" % fmt(S.conj(gs))


def query_goals(p, q, suf, cutfree):
    gs = []
    for m in MODES:
        if m == "m":
            if cutfree:
                gs.append("g(vx_mi(%s))" % fmt(S.rename_term(q, suf + "z")))
        else:
            gs.append("g(%s)" % fmt(S.rename_term(q, suf + m)))
    return gs


# ---------------------------------------------------------------------------

def judge(base, p, q, results):
    """results: dict mode -> impl_res.  -> (label, violation sig or None, detail)"""
    exp = {}
    for m in ("s", "w", "g"):
        ans, st = H.fork_ref(base, mode_clauses(p, m)).solve(q, H.SOL_CAP, H.REF_STEPS)
        exp[m] = (ans, st)
    r = H.fork_ref(base, p["clauses"])
    ans, st = r.solve(q, H.SOL_CAP, H.REF_STEPS)
    stats = r.stats
    if any(exp[m][1] in ("budget", "sto") for m in exp):
        return "skipped:" + str(exp["s"][1]), None, None, False
    for m in ("d", "z", "a", "m"):
        exp[m] = exp["s"]
    nontriv = bool(stats.get("backtracks") or stats.get("cuts_nonempty"))
    # required-equal pairs (differential)
    pairs = [("s", "d"), ("s", "z"), ("s", "a")]
    if "m" in results:
        pairs.append(("s", "m"))
    wrap_same = {}
    for m in ("w", "g"):
        wrap_same[m] = H.same_result(exp["s"], exp[m])
        if wrap_same[m]:
            pairs.append(("s", m))
    bad_pairs = [(a, b) for a, b in pairs if not H.same_result(results[a], results[b])]
    # wrapping changes the answers: the wrapped program is checked against REF's opaque-cut answer
    for m in ("w", "g"):
        if not wrap_same[m] and not H.same_result(exp[m], results[m]):
            bad_pairs.append(("REF", m))
    lab = "agree" if not bad_pairs else "differ"
    lab += " cut-escapes" if not (wrap_same["w"] and wrap_same["g"]) else ""
    lab += " mi" if "m" in results else ""
    all_ok = all(H.same_result(exp[m], results[m]) for m in results)
    if not bad_pairs:
        if not all_ok:
            lab += " (all modes differ from REF alike: C07 territory)"
        return lab, None, None, nontriv
    # name every side that deviates from its expectation: s (d, z, a, m share its compiler and are
    # listed only when they differ from s), w and g separately
    why = []

    def reason(m):
        dev = H.explain(base, mode_clauses(p, m), q, results[m])
        return "deviation %s" % dev if dev else "%s [%s]" % (H.kind_of(exp[m], results[m]), ",".join(p["feat"]))
    if not H.same_result(exp["s"], results["s"]):
        why.append("s=" + reason("s"))
    for m in ("d", "z", "a", "m"):
        if m in results and not H.same_result(results["s"], results[m]):
            why.append("%s=%s" % (m, "agrees-with-REF" if H.same_result(exp[m], results[m]) else reason(m)))
    for m in ("w", "g"):
        if not H.same_result(exp[m], results[m]):
            why.append("%s=%s" % (m, reason(m)))
    sig = "%s: %s: %s" % (p["fam"][0], ",".join("%s!=%s" % ab for ab in bad_pairs), "; ".join(why))
    detail = {"expected": {m: H.show_result(exp[m]) for m in ("s", "w", "g")},
              "observed": {m: H.show_result(results[m]) for m in results}}
    return lab, sig, detail, nontriv


def run_batch(w, base, batch, acc, n0):
    text = []
    for i, p in enumerate(batch):
        p["suf"] = "_%d" % (n0 + i)
        text.append(consult_text(p, p["suf"]))
    r = w.consult("".join(text))
    out = (r.get("out") or "") + (r.get("err") or "")
    if "error(" in out:
        raise RuntimeError("consult failed: " + H.strip_warnings(out))
    goals = [assert_goal(p, p["suf"]) for p in batch]
    rs = px.run_goals(w, goals)
    built = []
    for p, r in zip(batch, rs):
        if r.status != "done" or len(r.sols) != 1:
            # the build step is itself a meta-called conjunction of assertz/asserta goals that must
            # succeed exactly once: anything else is a violation of the property (statement: call/1
            # of a goal behaves as the goal), not a harness failure
            n_goals = 2 * len(p["clauses"])
            what = r.abn or (px.formal_sig(r.formal()) if r.status == "exc" else
                             "%s with %d solutions" % (r.status, len(r.sols)))
            acc.case(True, "build_failed")
            acc.violation("build: call/1 of a conjunction of %d assertz/asserta goals: %s" % (n_goals, what),
                          C07.case_of(p, 0), expected="succeeds once", observed=repr(r))
            continue
        built.append(p)
    batch = built
    goals = []
    for p in batch:
        p["cutfree"] = "cut" not in p["feat"]
        for q in p["queries"]:
            goals += query_goals(p, q, p["suf"], p["cutfree"])
    rs = px.run_goals(w, goals)
    gi = 0
    for p in batch:
        for qi, q in enumerate(p["queries"]):
            qv = R.term_vars(q)
            results = {}
            for m in MODES:
                if m == "m" and not p["cutfree"]:
                    continue
                results[m] = H.impl_answers(rs[gi], qv)
                gi += 1
            lab, sig, detail, nontriv = judge(base, p, q, results)
            smp = None
            if len(acc.samples) < 3:
                smp = {"program": C07.program_text(p), "query": fmt(q), "modes": sorted(results),
                       "static": H.show_result(results["s"])}
            acc.case(nontriv, lab, sample=smp)
            if sig:
                acc.violation(sig, C07.case_of(p, qi), expected=detail["expected"], observed=detail["observed"])


def run_shard(w, shard, tier):
    acc = px.ShardAcc()
    base = H.base_ref()
    w.new_machine()
    n = 0
    for batch in px.chunked(programs(shard, tier), BATCH):
        run_batch(w, base, batch, acc, n)
        n += len(batch)
    return acc.result()


def recheck(w, case, tier):
    clauses = [S.dec(c) for c in case["clauses"]]
    q = S.dec(case["query"])
    p = {"fam": case["fam"], "clauses": clauses, "queries": [q], "feat": S.program_features(clauses)}
    acc = px.ShardAcc()
    run_batch(w, H.base_ref(), [p], acc, 900000)
    if acc.violations:
        v = acc.violations[0]
        return {"sig": v["sig"], "case": case, "expected": v["expected"], "observed": v["observed"]}
    return None
