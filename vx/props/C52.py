"""C52 — random number predicates are in range and reproducible (DESIGN §6 C52).

Nothing is sampled: the generator's output is not modelled, the enumeration is
over (seed, call script) pairs, each of which is a deterministic case.
 bounds  all ordered pairs (L, H) over 13 integers (incl. bignums, two of them adjacent) + two small values
         held in bignum cells + ill-typed {_, a, 1.5}, x seeds, 3 draws each
 script  all call scripts of length <= 3 over {random(X), maybe, random_integer with
         3 fixed bound pairs} x seeds; each run twice in the same machine with other
         draws in between, and again on a fresh machine in reverse case order
 seeds   the first random/1 value of every seed 0..255 (the seed must matter);
         boundary and ill-typed seeds
"""
import itertools
import os
from fractions import Fraction

from vx.core import px, terms
from vx.model import numbers as N

ID = "C52"
LEVEL = "exploration"
ENGINE = "PEX"
TECHNIQUE = "bounded exhaustive enumeration of (seed, call script) cases with range checks and replay in the same and in a fresh machine"
LEVEL_TEXT = ("every (bounds, seed) and (script, seed) case of the bounded space is executed; every value is checked "
              "for type and range, every script is replayed after re-seeding in the same machine and in a fresh "
              "machine; exhaustive over the enumerated seeds, bounds and scripts, no statistical claim is made")
RULE = ("all ordered bound pairs over 13 integers + 2 bignum-held small values + {_, a, 1.5} x seeds (8 quick / 32 "
        "thorough) x 3 draws; all scripts of length <= 3 over 5 call forms x seeds 0..31 (quick) / 0..255 (thorough); "
        "seed-sensitivity over 0..255; boundary seeds. Non-trivial: H - L >= 2^64, H - L = 1, or the case is a replay.")
ASSUMPTIONS = [
    "the generator's values are not modelled; only type, range, failure/error behaviour and reproducibility are checked",
    "driver transport; catch/3",
    "seeds are taken to be any integer (the documentation of set_random/1 does not restrict them)",
]
MIN_OUTCOMES = 5

INTS = [-(2 ** 70), -3, -1, 0, 1, 2, 255, 256, 2 ** 32, 2 ** 63, 2 ** 64, 2 ** 70, 2 ** 70 + 1]
BOUNDS = [("i", v) for v in INTS] + [("a", 0), ("a", 2), ("var", None), ("atom", "a"), ("float", 1.5)]
SCRIPT_OPS = ["r", "m", "ri(0,2)", "ri(-3,256)", "ri(0,1180591620717411303424)"]
RI_BOUNDS = {"ri(0,2)": (0, 2), "ri(-3,256)": (-3, 256), "ri(0,1180591620717411303424)": (0, 2 ** 70)}
SPECIAL_SEEDS = [2 ** 31, 2 ** 55, 2 ** 63 - 1, 2 ** 63, 2 ** 64 - 1, 2 ** 64, 2 ** 70, -1, -(2 ** 70)]


def nseeds_bounds(tier):
    return 32 if tier == "thorough" else 8


def nseeds_script(tier):
    return 256 if tier == "thorough" else 32


def bound_text(tier):
    scripts = sum(len(SCRIPT_OPS) ** k for k in (1, 2, 3))
    return ("%d bound pairs x %d seeds x 3 draws; %d scripts x %d seeds, each replayed in the same and in a fresh machine; "
            "seeds 0..255 first values; %d boundary seeds" % (len(BOUNDS) ** 2, nseeds_bounds(tier), scripts,
                                                              nseeds_script(tier), len(SPECIAL_SEEDS)))


def shards(tier):
    sh = [("bounds", i) for i in range(len(BOUNDS))]
    ns = nseeds_script(tier)
    step = 4 if tier == "quick" else 8
    for s0 in range(0, ns, step):
        sh.append(("script", s0, min(ns, s0 + step)))
    sh.append(("seedsens",))
    sh.append(("seeds",))
    return sh


def setup(w, tier):
    with open(os.path.join(os.path.dirname(os.path.dirname(os.path.abspath(__file__))), "prolog", "C52_helpers.pl")) as f:
        r = w.consult(f.read(), persist=True)
    if r.get("out", "").strip():
        raise px.pool.MachineryError("C52 helpers: %r" % (r,))


# ---- bounds -------------------------------------------------------------------------------------

def bclass(b):
    k, v = b
    if k in ("i", "a"):
        return N.mag_class(v) + ("/bignum_held" if k == "a" else "")
    return k


def bound_texts(b, var):
    """(prelude goal or None, argument text)"""
    k, v = b
    if k == "i":
        return None, terms.fmt_num(v)
    if k == "a":
        return "%s is %s + 2^80 - 2^80" % (var, terms.fmt_num(v)), var
    if k == "var":
        return None, "_"
    if k == "atom":
        return None, v
    return None, terms.fmt_num(v)


def expect_bounds(lo, hi):
    """-> ('range', L, H) | ('fail',) | ('err', set of acceptable formal prefixes)"""
    kinds = (lo[0], hi[0])
    errs = []
    if "var" in kinds:
        errs.append(("instantiation_error",))
    for b in (lo, hi):
        if b[0] in ("atom", "float"):
            errs.append(("type_error", "integer", b[1]))
    if errs:
        return ("err", errs)
    L, H = lo[1], hi[1]
    if L >= H:
        return ("fail",)
    return ("range", L, H)


def formal_matches(f, want):
    if want == ("instantiation_error",):
        return f == "instantiation_error"
    return isinstance(f, tuple) and f[:2] == want[:2] and f[2] == want[2]


def judge_draw(v, exp):
    """one drawn value against the expectation -> (label, kind | None)"""
    if exp[0] == "range":
        if isinstance(v, tuple) and v[0] == "v":
            x = v[1]
            if isinstance(x, bool) or not isinstance(x, int):
                return ("not_integer", "not_integer")
            if not (exp[1] <= x < exp[2]):
                return ("out_of_range", "out_of_range")
            return ("in_range", None)
        return ("no_value", "want=value got=%s" % vclass(v))
    if exp[0] == "fail":
        return ("fails", None) if v == "failed" else ("not_failed", "want=fail got=%s" % vclass(v))
    if isinstance(v, tuple) and v[0] == "e" and any(formal_matches(v[1], w) for w in exp[1]):
        return ("error:" + px.formal_sig(v[1]), None)
    return ("wrong_error", "want=error got=%s" % vclass(v))


def vclass(v):
    if isinstance(v, tuple) and v[0] == "v":
        return "value"
    if isinstance(v, tuple) and v[0] == "e":
        return "error:" + px.formal_sig(v[1])
    return str(v)


def bounds_goal(lo, hi, seed):
    p1, t1 = bound_texts(lo, "BL")
    p2, t2 = bound_texts(hi, "BH")
    pre = "".join(p + ", " for p in (p1, p2) if p)
    return "g((%sc52_draws(%d, %s, %s, 3, R0, Vs)))" % (pre, seed, t1, t2)


def run_bounds(w, cases):
    """cases: [li, hi, seed] -> list of (case, label, sig|None, expected, observed)"""
    goals = [bounds_goal(BOUNDS[c[0]], BOUNDS[c[1]], c[2]) for c in cases]
    out = []
    for c, r in zip(cases, px.run_goals(w, goals)):
        lo, hi = BOUNDS[c[0]], BOUNDS[c[1]]
        pre = "ri L=%s H=%s" % (bclass(lo), bclass(hi))
        exp = expect_bounds(lo, hi)
        if r.abn or r.status != "done" or len(r.sols) != 1:
            what = r.abn or ("driver:%s" % r.status)
            out.append((c, "abnormal", "%s abnormal:%s" % (pre, what), str(exp), what))
            continue
        vs = terms.unlist(r.sols[0]["Vs"])[0]
        label, sig, obs = None, None, None
        if r.sols[0]["R0"] != "true" or len(vs) != 3:
            label, sig, obs = "seed_failed", pre + " set_random_failed", terms.show(r.sols[0]["R0"])
        for v in vs:
            lab, kind = judge_draw(v, exp)
            label = label or lab
            if kind and not sig:
                label, sig, obs = lab, "%s %s" % (pre, kind), terms.show(v)
        out.append((c, label, sig, str(exp), obs))
    return out


def bounds_nontrivial(c):
    lo, hi = BOUNDS[c[0]], BOUNDS[c[1]]
    if lo[0] in ("i", "a") and hi[0] in ("i", "a"):
        d = hi[1] - lo[1]
        return d >= 2 ** 64 or d == 1
    return False


# ---- scripts ------------------------------------------------------------------------------------------

def all_scripts():
    out = []
    for k in (1, 2, 3):
        for s in itertools.product(SCRIPT_OPS, repeat=k):
            out.append(list(s))
    return out


def script_goal(seed, script):
    return "g(c52_run(%d, [%s], R0, V1, V2))" % (seed, ",".join(script))


def check_values(script, vals):
    """type/range of every value of one script run -> problem text or None"""
    if len(vals) != len(script):
        return "length"
    for op, v in zip(script, vals):
        if op == "m":
            if v not in ("true", "false"):
                return "maybe:" + vclass(v)
        elif op == "r":
            if not (isinstance(v, tuple) and v[0] == "v" and isinstance(v[1], float) and 0.0 <= v[1] < 1.0):
                return "random_out_of_range_or_type"
        else:
            lo, hi = RI_BOUNDS[op]
            if not (isinstance(v, tuple) and v[0] == "v" and isinstance(v[1], int) and not isinstance(v[1], bool)
                    and lo <= v[1] < hi):
                return "random_integer_out_of_range_or_type"
    return None


def run_scripts(w, cases):
    """cases: [seed, script] -> list of (case, (V1, V2) as python lists | abnormal str)"""
    out = []
    rs = px.run_goals(w, [script_goal(s, sc) for s, sc in cases])
    for c, r in zip(cases, rs):
        if r.abn or r.status != "done" or len(r.sols) != 1:
            out.append((c, "abnormal:" + (r.abn or "driver:%s" % r.status)))
        elif r.sols[0]["R0"] != "true":
            out.append((c, "set_random:" + terms.show(r.sols[0]["R0"])))
        else:
            out.append((c, (terms.unlist(r.sols[0]["V1"])[0], terms.unlist(r.sols[0]["V2"])[0])))
    return out


def judge_script(case, first, fresh):
    """first: result on the used machine, fresh: result on a fresh machine (or None) -> (label, sig|None, exp, obs)"""
    seed, script = case
    pre = "script [%s]" % ",".join(o.split("(")[0] for o in script)
    if isinstance(first, str):
        return ("abnormal", "%s %s" % (pre, first), "values", first)
    v1, v2 = first
    bad = check_values(script, v1)
    if bad:
        return ("bad_value", "%s %s" % (pre, bad), "typed values in range", terms.show(terms.mklist(v1)))
    if v1 != v2:
        return ("not_reproducible", "%s not_reproducible_same_machine" % pre, terms.show(terms.mklist(v1)), terms.show(terms.mklist(v2)))
    if fresh is not None:
        if isinstance(fresh, str):
            return ("abnormal", "%s fresh_machine %s" % (pre, fresh), "values", fresh)
        if fresh[0] != v1:
            return ("not_reproducible", "%s not_reproducible_fresh_machine" % pre, terms.show(terms.mklist(v1)),
                    terms.show(terms.mklist(fresh[0])))
    return ("reproduced", None, None, None)


# ---- seeds ------------------------------------------------------------------------------------------------

def run_seedsens(w, acc):
    rs = px.run_goals(w, ["g((c52_seed(%d, R0), c52_script([r, ri(0,1180591620717411303424)], Vs)))" % s for s in range(256)])
    firsts = {}
    for s, r in zip(range(256), rs):
        ok = not r.abn and r.status == "done" and len(r.sols) == 1 and r.sols[0]["R0"] == "true"
        acc.case(False, "seedsens:" + ("ok" if ok else "abnormal"))
        if not ok:
            acc.violation("seedsens seed=small abnormal:%s" % (r.abn or r.status), {"seedsens": s}, expected="values", observed=str(r.abn))
            continue
        firsts[s] = terms.show(r.sols[0]["Vs"])
    distinct = len(set(firsts.values()))
    acc.extra["distinct_first_values_of_256_seeds"] = distinct
    if len(firsts) == 256 and distinct < 250:
        acc.violation("seedsens distinct_first_values_below_250", {"seedsens": "all"}, expected=">= 250 distinct",
                      observed=str(distinct))
    return acc.result()


def seed_cases():
    cs = [["int", str(s)] for s in SPECIAL_SEEDS]
    cs += [["arith", "7"], ["arg", "seed(_)"], ["arg", "seed(a)"], ["arg", "seed(1.5)"], ["arg", "_"], ["arg", "foo"],
           ["arg", "seed(1,2)"]]
    return cs


def seed_expect(c):
    k, t = c
    if k == "int" and not (0 <= int(t) < 2 ** 64):
        # a seed outside the u64 range may be accepted or refused with an error, but must not crash
        return ["true", "e:domain_error", "e:representation_error", "e:type_error"]
    if k in ("int", "arith"):
        return ["true"]
    return {"seed(_)": ["e:instantiation_error"], "_": ["e:instantiation_error"], "seed(a)": ["e:type_error(integer)"],
            "seed(1.5)": ["e:type_error(integer)"], "foo": ["false", "e:domain_error", "e:type_error"],
            "seed(1,2)": ["false", "e:domain_error", "e:type_error"]}[t]


def run_seed_case(w, c):
    """-> (label, sig|None, expected, observed)"""
    k, t = c
    if k == "int":
        goal = "g((c52_seed(%s, R), c52_script([r, m, ri(0,2)], V1), c52_seed(%s, _), c52_script([r, m, ri(0,2)], V2)))" % (
            terms.fmt_num(int(t)), terms.fmt_num(int(t)))
        cls = N.mag_class(int(t))
    elif k == "arith":
        goal = "g((S is %s + 2^80 - 2^80, c52_seed(S, R), c52_script([r, m, ri(0,2)], V1), c52_seed(S, _), c52_script([r, m, ri(0,2)], V2)))" % t
        cls = "small/bignum_held"
    else:
        goal = "g((c52_set(%s, R), V1 = [], V2 = []))" % t
        cls = t
    r = px.run_goals(w, [goal])[0]
    pre = "seed %s" % cls
    want = seed_expect(c)
    if r.abn or r.status != "done" or len(r.sols) != 1:
        what = r.abn or ("driver:%s" % r.status)
        return ("abnormal", "%s abnormal:%s" % (pre, what), "|".join(want), what)
    R = r.sols[0]["R"]
    got = "true" if R == "true" else "false" if R == "false" else "e:" + px.formal_sig(R[1]) if isinstance(R, tuple) else "?"
    if not any(got == x or (x.startswith("e:") and got.startswith(x)) for x in want):
        return ("wrong_outcome", "%s want=%s got=%s" % (pre, "|".join(want), got), "|".join(want), got)
    if r.sols[0]["V1"] != r.sols[0]["V2"]:
        return ("not_reproducible", "%s not_reproducible" % pre, terms.show(r.sols[0]["V1"]), terms.show(r.sols[0]["V2"]))
    return ("seed:" + got, None, None, None)


# ---- module interface -----------------------------------------------------------------------------------------

def run_shard(w, shard, tier):
    acc = px.ShardAcc()
    k = shard[0]
    if k == "bounds":
        li = shard[1]
        cases = [[li, hi, s] for hi in range(len(BOUNDS)) for s in range(nseeds_bounds(tier))]
        for c, label, sig, exp, obs in run_bounds(w, cases):
            acc.case(bounds_nontrivial(c), label, sample={"goal": bounds_goal(BOUNDS[c[0]], BOUNDS[c[1]], c[2])})
            if sig:
                acc.violation(sig, {"bounds": c}, expected=exp, observed=obs)
    elif k == "script":
        cases = [[s, sc] for s in range(shard[1], shard[2]) for sc in all_scripts()]
        first = run_scripts(w, cases)
        w.new_machine()
        fresh = dict((repr(c), r) for c, r in run_scripts(w, list(reversed(cases))))
        for c, r in first:
            label, sig, exp, obs = judge_script(c, r, fresh[repr(c)])
            acc.case(True, label, sample={"goal": script_goal(c[0], c[1])})
            if sig:
                acc.violation(sig, {"script": c}, expected=exp, observed=obs)
    elif k == "seedsens":
        return run_seedsens(w, acc)
    else:
        for c in seed_cases():
            label, sig, exp, obs = run_seed_case(w, c)
            acc.case(True, label, sample={"seed_case": c})
            if sig:
                acc.violation(sig, {"seed": c}, expected=exp, observed=obs)
    return acc.result()


def recheck(w, case, tier):
    if "bounds" in case:
        (c, label, sig, exp, obs), = run_bounds(w, [case["bounds"]])
    elif "script" in case:
        c = case["script"]
        (_, first), = run_scripts(w, [c])
        w.new_machine()
        (_, fresh), = run_scripts(w, [c])
        label, sig, exp, obs = judge_script(c, first, fresh)
    elif "seed" in case:
        label, sig, exp, obs = run_seed_case(w, case["seed"])
    else:
        acc = px.ShardAcc()
        run_seedsens(w, acc)
        for v in acc.violations:
            if v["case"] == case:
                return v
        return None
    if sig:
        return {"sig": sig, "case": case, "expected": exp, "observed": obs}
    return None
