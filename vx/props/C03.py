"""C03 — arithmetic does not depend on how the expression reaches is/2 (DESIGN §6 C03).

Differential between evaluation contexts on the same machine.  Every expression
tree of depth <= 2 over every evaluable functor of the two dispatchers is
evaluated
  body     literal in a consulted clause body              (compiled evaluator)
  query    literal term read by the reader, call(X is E)   (run-time evaluator)
  built    term built with =../2 (rationals as real rational cells) and passed in a
           variable to a compiled is/2                     (get_number -> run-time evaluator)
  findall  inside findall/3
  assert   assertz((p(X) :- X is E)) then call, retract    (assert-time compilation)
  cmpbody  E =:= V literal in a consulted clause body      (compiled comparison)
  cmpvar   E =:= V, E < V, V >= E /\\ E >= V with E in a variable
  cmpcall  call(E =:= V)
and all outcomes must be the same number (bitwise for floats, -0.0 == 0.0) or an
error with the same formal term.  A depth-1 subset is also compared with the
C01/C02 reference.
"""
import math
import os
import re
import sys
from fractions import Fraction

from vx.core import px, terms
from vx.model import numbers as N
from vx.model import numbers2 as M

if hasattr(sys, "set_int_max_str_digits"):
    sys.set_int_max_str_digits(0)   # results such as (2^70)^4096 have > 4300 digits

ID = "C03"
LEVEL = "exploration"
ENGINE = "PEX"
TECHNIQUE = "bounded exhaustive differential testing between evaluation contexts (compiled vs run-time evaluator)"
LEVEL_TEXT = ("every expression tree of the bounded space is executed in ten evaluation contexts of the same "
              "machine and the outcomes are compared with each other (and with the C01/C02 reference at depth 1); "
              "exhaustive over the alphabet and depth bound")
RULE = ("all expression trees of depth <= 2 (one nested position) over every evaluable functor known to "
        "get_unary_instr/get_binary_instr/arith_eval_by_metacall (extracted from the source at check time) with "
        "leaves from {3,-7,2^55,2^70,1r2,2.5,0,0.0} (+ e, pi, epsilon at depth <= 1); quick restricts the second/"
        "outer operand of depth-2 trees to {-7,2.5,2^70,0}. Non-trivial: the tree has >= 2 functors or raises.")
ASSUMPTIONS = [
    "the driver transport and catch/3, call/N, =../2, findall/3, assertz/1 used to realise the contexts",
    "the evaluable functor lists are extracted with regular expressions from src/arithmetic.rs and "
    "src/machine/arithmetic_ops.rs (falls back to a static list, reported in the evidence, if the source layout changes)",
    "trees whose exact value is astronomically large (int ^ or << with an exponent/shift > 4096) are not executed",
    "non-evaluable functors are checked only for the run-time contexts plus the load-time error text "
    "(a compiled clause with a non-evaluable functor is rejected when loaded)",
    "-0.0 and 0.0 results are not distinguished",
]
MIN_OUTCOMES = 4

SRC_ARITH = "/repo/src/arithmetic.rs"
SRC_OPS = "/repo/src/machine/arithmetic_ops.rs"

STATIC_UNARY = ["abs", "-", "+", "cos", "sin", "tan", "log", "exp", "sqrt", "acos", "asin", "atan", "float",
                "truncate", "round", "ceiling", "floor", "float_integer_part", "float_fractional_part", "sign", "\\"]
STATIC_BINARY = ["+", "-", "/", "//", "max", "min", "div", "rdiv", "*", "**", "^", ">>", "<<", "/\\", "\\/",
                 "xor", "mod", "rem", "gcd", "atan2"]
CONSTS = ["e", "pi", "epsilon"]


def _unesc(s):
    return s.replace("\\\\", "\\").replace('\\"', '"')


def _atoms(text):
    return [_unesc(m) for m in re.findall(r'atom!\("((?:[^"\\]|\\.)*)"\)\s*=>', text)]


def extract_functors():
    """-> dict(compiled_unary, compiled_binary, runtime_unary, runtime_binary, ok)"""
    out = {"ok": False}
    try:
        a = open(SRC_ARITH).read()
        o = open(SRC_OPS).read()
        i1 = a.index("fn get_unary_instr")
        i2 = a.index("fn get_binary_instr")
        i3 = a.index("fn try_add_to_free_list")
        cu = _atoms(a[i1:i2])
        cb = _atoms(a[i2:i3])
        j0 = o.index("fn arith_eval_by_metacall")
        j2 = o.index("if arity == 2 {", j0)
        j1 = o.index("} else if arity == 1 {", j2)
        jz = o.index("} else if arity == 0 {", j1)
        rb = _atoms(o[j2:j1])
        ru = _atoms(o[j1:jz])
        if min(len(cu), len(cb), len(ru), len(rb)) >= 10:
            out.update(ok=True, compiled_unary=cu, compiled_binary=cb, runtime_unary=ru, runtime_binary=rb)
    except (OSError, ValueError):
        pass
    return out


_FX = extract_functors()
if _FX["ok"]:
    UNARY = sorted(set(_FX["compiled_unary"]) | set(_FX["runtime_unary"]), key=lambda s: (STATIC_UNARY.index(s) if s in STATIC_UNARY else 99, s))
    BINARY = sorted(set(_FX["compiled_binary"]) | set(_FX["runtime_binary"]), key=lambda s: (STATIC_BINARY.index(s) if s in STATIC_BINARY else 99, s))
else:
    UNARY, BINARY = list(STATIC_UNARY), list(STATIC_BINARY)

L8 = ["i:3", "i:-7", "i:%d" % 2 ** 55, "i:%d" % 2 ** 70, "r:1/2", "f:" + (2.5).hex(), "i:0", "f:" + (0.0).hex()]
L4 = ["i:-7", "f:" + (2.5).hex(), "i:%d" % 2 ** 70, "i:0"]
L11 = L8 + ["c:e", "c:pi", "c:epsilon"]

CTX = ["body", "query", "built", "findall", "assert", "cmpbody", "cmpvar_eq", "cmpcall", "cmpvar_lt", "cmpvar_ge"]
BASE = 1  # index of the baseline context (query)


def bound_text(tier):
    return ("expression trees of depth <= 2 over %d unary + %d binary evaluable functors, leaves from 8 values "
            "(11 at depth <= 1), %s, x 10 contexts" % (len(UNARY), len(BINARY),
                                                        "full leaf alphabet at every position" if tier == "thorough"
                                                        else "second/outer operands of depth-2 trees from 4 values"))


# ---- trees --------------------------------------------------------------------
# JSON form: leaf = "i:3" | "f:<hex>" | "r:1/2" | "c:pi"; node = [op, t1] | [op, t1, t2]

def leaf_val(s):
    k, v = s.split(":", 1)
    if k == "c":
        return v
    if k == "f":
        return float.fromhex(v)
    if k == "r":
        a, b = v.split("/")
        return Fraction(int(a), int(b))
    return int(v)


def to_term(t):
    """JSON tree -> vx term (for terms.fmt)"""
    if isinstance(t, str):
        return leaf_val(t)
    return tuple([t[0]] + [to_term(x) for x in t[1:]])


def build_text(t):
    """(goal text constructing the term at run time, variable name holding it)"""
    goals = []
    cnt = [0]

    def rec(n):
        if isinstance(n, str):
            v = leaf_val(n)
            if isinstance(v, Fraction):
                cnt[0] += 1
                name = "R%d" % cnt[0]
                goals.append("%s is %d rdiv %d" % (name, v.numerator, v.denominator))
                return name
            return terms.fmt_arg(v)
        args = [rec(x) for x in n[1:]]
        cnt[0] += 1
        name = "E%d" % cnt[0]
        goals.append("%s =.. [%s,%s]" % (name, terms.fmt_arg(n[0]), ",".join(args)))
        return name
    top = rec(t)
    if not goals or not re.match(r"^[ER]\d+$", top):
        goals.append("E0 = %s" % top)
        top = "E0"
    return "(" + ", ".join(goals) + ")", top


def shards(tier):
    sh = [("meta",), ("noneval",), ("zerohist",), ("d0",)]
    for u in UNARY:
        sh.append(("d1u", u))
        sh.append(("uu", u))
        sh.append(("ub", u))
    for b in BINARY:
        sh.append(("d1b", b))
        sh.append(("bul", b))
        sh.append(("bur", b))
        if tier == "thorough":
            for b2 in BINARY:
                sh.append(("bbl", b, b2))
                sh.append(("bbr", b, b2))
        else:
            sh.append(("bbl", b, None))
            sh.append(("bbr", b, None))
    return sh


def gen(shard, tier):
    k = shard[0]
    full = tier == "thorough"
    LY = L8 if full else L4
    if k == "d0":
        for x in L11:
            yield x
    elif k == "d1u":
        for x in L11:
            yield [shard[1], x]
    elif k == "d1b":
        for x in L11:
            for y in L11:
                yield [shard[1], x, y]
    elif k == "uu":
        for u2 in UNARY:
            for x in L8:
                yield [shard[1], [u2, x]]
    elif k == "ub":
        for b in BINARY:
            for x in L8:
                for y in LY:
                    yield [shard[1], [b, x, y]]
    elif k == "bul":
        for u in UNARY:
            for x in L8:
                for y in LY:
                    yield [shard[1], [u, x], y]
    elif k == "bur":
        for u in UNARY:
            for x in L8:
                for y in LY:
                    yield [shard[1], y, [u, x]]
    elif k in ("bbl", "bbr"):
        inner = [shard[2]] if shard[2] is not None else BINARY
        LX = L8 if full else L4
        for b2 in inner:
            for x in LX:
                for y in LX:
                    for z in LX:
                        if k == "bbl":
                            yield [shard[1], [b2, x, y], z]
                        else:
                            yield [shard[1], z, [b2, x, y]]


NONEVAL = [["foo", "i:1"], ["foo", "i:1", "i:2"], ["+", "i:1", ["foo", "i:1"]], ["-", ["bar", "i:1", "f:" + (2.5).hex()]],
           ["+", "c:foo", "i:1"], ["max", "i:1", ["succ", "i:2"]], ["sqrt", ["cot", "f:" + (2.5).hex()]]]


# ---- Python evaluation (feasibility filter, -0.0 witness, depth-1 reference) ------

class Infeasible(Exception):
    pass


class EvalErr(Exception):
    pass


CONSTVAL = {"e": math.e, "pi": math.pi, "epsilon": 2.0 ** -52}
INT_ONLY = ("//", "div", "mod", "rem", "gcd", "/\\", "\\/", "xor", "<<", ">>")


def _first(alts):
    for a in alts:
        if a[0] == "skip":
            raise Infeasible()
    for a in alts:
        if a[0] == "v":
            return a[1]
    raise EvalErr()


def pyeval(t, wit):
    """approximate reference value of a JSON tree (first acceptable alternative);
    raises Infeasible / EvalErr; wit['negzero'] is set if an intermediate is -0.0"""
    if isinstance(t, str):
        v = leaf_val(t)
        if isinstance(v, str):
            if v not in CONSTVAL:
                raise EvalErr()
            return CONSTVAL[v]
        return v
    op = t[0]
    args = [pyeval(x, wit) for x in t[1:]]
    for i, v in enumerate(args):
        if isinstance(v, float) and v == 0 and math.copysign(1.0, v) < 0:
            wit["negzero"] = True
        if isinstance(v, Fraction) and v.denominator == 1:
            args[i] = M.RI(v)   # stays a rational cell inside an expression
    if len(args) == 1:
        x = args[0]
        if op == "+":
            return x
        if op == "\\":
            if M.kind(x) != "i":
                raise EvalErr()
            return ~int(x)
        if op in M.UNARY:
            return _first(M.ref_unary(op, x))
        raise EvalErr()
    a, b = args
    if op in INT_ONLY:
        if M.kind(a) != "i" or M.kind(b) != "i":
            raise EvalErr()
        a, b = int(a), int(b)
        if op in ("<<", ">>"):
            s = b if op == "<<" else -b
            if s > 4096:
                raise Infeasible()
            return a << s if s >= 0 else a >> min(-s, 1 << 20)
        r = N.int_binop(op, a, b)
        if isinstance(r, tuple):
            raise EvalErr()
        return r
    if op == "rdiv":
        fa, fb = Fraction(a), Fraction(b)
        if fb == 0:
            raise EvalErr()
        return fa / fb
    if op in M.BINARY:
        return _first(M.ref_binary(op, a, b))
    raise EvalErr()


def analyse(t):
    """-> (feasible, negzero witness, raises)"""
    wit = {}
    try:
        pyeval(t, wit)
        return True, bool(wit.get("negzero")), False
    except Infeasible:
        return False, False, False
    except EvalErr:
        return True, bool(wit.get("negzero")), True
    except (OverflowError, ZeroDivisionError, ValueError):
        return True, bool(wit.get("negzero")), True


def nfunctors(t):
    if isinstance(t, str):
        return 0
    return 1 + sum(nfunctors(x) for x in t[1:])


def ops_sig(t):
    if isinstance(t, str):
        return "leaf"
    inner = [x[0] for x in t[1:] if not isinstance(x, str)]
    return "%s/%d(%s)" % (t[0], len(t) - 1, ",".join(inner))


def reference(t):
    """C01/C02 reference alternatives for depth-1 trees over number leaves, else None"""
    if isinstance(t, str) or any(not isinstance(x, str) or x.startswith("c:") for x in t[1:]):
        return None
    vals = [leaf_val(x) for x in t[1:]]
    op = t[0]
    if len(vals) == 1 and op in M.UNARY:
        return M.ref_unary(op, vals[0])
    if len(vals) == 2 and op in M.BINARY:
        alts = M.ref_binary(op, vals[0], vals[1])
        return None if M.SKIP in alts else alts
    if len(vals) == 2 and op in ("//", "div", "mod", "rem", "gcd", "/\\", "\\/", "xor") \
            and all(M.kind(v) == "i" for v in vals):
        r = N.int_binop(op, int(vals[0]), int(vals[1]))
        return [("e", r[1])] if isinstance(r, tuple) else [M.V(r)]
    return None


# ---- comparing observations ----------------------------------------------------------

def same_term(a, b):
    if isinstance(a, float) or isinstance(b, float):
        return isinstance(a, float) and isinstance(b, float) and M.same_float(a, b)
    if isinstance(a, tuple) and isinstance(b, tuple):
        return len(a) == len(b) and all(same_term(x, y) for x, y in zip(a, b))
    if isinstance(a, bool) or isinstance(b, bool):
        return False
    if isinstance(a, (int, Fraction)) and isinstance(b, (int, Fraction)):
        return type(a) == type(b) and a == b
    return type(a) == type(b) and a == b


def rclass(r):
    if isinstance(r, tuple) and r[0] == "v":
        x = r[1]
        return "v:" + (M.kind(x) if isinstance(x, (int, float, Fraction)) and not isinstance(x, bool) else "nonnum")
    if isinstance(r, tuple) and r[0] == "e":
        return "e:" + px.formal_sig(r[1])
    return str(r)


def expected_vector(base):
    """what every context must report, given the baseline outcome"""
    if isinstance(base, tuple) and base[0] == "v":
        return [base, base, base, base, base, "true", "true", "true", "false", "true"]
    return [base] * 10


# ---- execution ---------------------------------------------------------------------------

_counter = [0]


def setup(w, tier):
    with open(os.path.join(os.path.dirname(os.path.dirname(os.path.abspath(__file__))), "prolog", "C03_helpers.pl")) as f:
        w.consult(f.read(), persist=True)


def run_trees(w, trees, with_body=True):
    """-> list of (tree, Rs | abnormal signature str)"""
    names = []
    prog = []
    goals = []
    for t in trees:
        _counter[0] += 1
        k = _counter[0]
        expr = terms.fmt(to_term(t))
        build, top = build_text(t)
        if with_body:
            prog.append("c03b_%d(X) :- X is %s.\nc03c_%d(V) :- %s =:= V.\n" % (k, expr, k, expr))
            goals.append("g(c03_run(c03b_%d(X1), X1, c03c_%d(V), V, %s, %s, %s, Rs))" % (k, k, expr, build, top))
        else:
            goals.append("g(c03_run(X1 = skipped, X1, true, V, %s, %s, %s, Rs))" % (expr, build, top))
        names.append(k)
    if prog:
        r = w.consult("".join(prog))
        if r.get("out", "").strip() or r.get("panic"):
            raise px.pool.MachineryError("C03 body consult failed: %r" % (r,))
    rs = px.run_goals(w, goals)
    out = []
    for t, r in zip(trees, rs):
        if r.abn:
            out.append((t, "abnormal:" + r.abn))
        elif r.status == "exc":
            out.append((t, "driver_exc:" + px.formal_sig(r.formal())))
        elif len(r.sols) != 1:
            out.append((t, "driver_sols:%d" % len(r.sols)))
        else:
            el, tail = terms.unlist(r.sols[0].get("Rs"))
            out.append((t, el if tail == terms.NIL and len(el) == 10 else "driver_badlist"))
    return out


def judge(t, rs, negzero):
    """-> (label, sig | None, expected, observed)"""
    if isinstance(rs, str):
        return ("abnormal", "%s %s" % (ops_sig(t), rs), "ten context outcomes", rs)
    base = rs[BASE]
    want = expected_vector(base)
    bad = [i for i in range(10) if not same_term(rs[i], want[i])]
    label = rclass(base)
    if bad:
        ctxs = "+".join(CTX[i] for i in bad)
        sig = "ctx=%s %s base=%s got=%s%s" % (ctxs, ops_sig(t), rclass(base), rclass(rs[bad[0]]),
                                               " negzero_intermediate" if negzero else "")
        return ("context_mismatch", sig, dict(zip(CTX, map(terms.show, want))), dict(zip(CTX, map(terms.show, rs))))
    ref = reference(t)
    if ref is not None:
        if isinstance(base, tuple) and base[0] == "v":
            ok = isinstance(base[1], (int, float, Fraction)) and M.match(ref, "v", base[1])
        elif isinstance(base, tuple) and base[0] == "e":
            ok = M.match(ref, "e", base[1])
        else:
            ok = False
        if not ok:
            return ("reference_mismatch", "ref %s a=%s got=%s" % (ops_sig(t), ",".join(M.nclass(leaf_val(x)) for x in t[1:]), rclass(base)),
                    M.show_alts(ref), terms.show(base))
    return (label, None, None, None)


def run_shard(w, shard, tier):
    acc = px.ShardAcc()
    k = shard[0]
    if k == "meta":
        return run_meta(acc)
    if k == "noneval":
        return run_noneval(w, acc)
    if k == "zerohist":
        return run_zerohist(w, acc)
    w.new_machine()   # bounds the growth of the code area (two fresh predicates per tree)
    prime(w, "pos")
    for batch in px.chunked(gen(shard, tier), 150):
        feas = []
        info = {}
        for t in batch:
            ok, nz, raises = analyse(t)
            if not ok:
                acc.extra["skipped_infeasible"] += 1
                continue
            feas.append(t)
            info[id(t)] = (nz, raises)
        for t, rs in run_trees(w, feas):
            nz, raises = info[id(t)]
            label, sig, exp, obs = judge(t, rs, nz)
            nt = nfunctors(t) >= 2 or (not isinstance(rs, str) and rclass(rs[BASE]).startswith("e:"))
            acc.case(nt, label, sample={"expr": terms.fmt(to_term(t)), "outcomes": [terms.show(x) for x in rs] if not isinstance(rs, str) else rs})
            if sig:
                acc.violation(sig, {"tree": t, "expr": terms.fmt(to_term(t))}, expected=exp, observed=obs)
    return acc.result()


def prime(w, first):
    """The float table of the machine keeps whichever of +0.0 / -0.0 it sees first (see F-C03-1), so
    the zero history is made explicit: 'pos' reads the literal 0.0 first (the usual state: every source
    text with a 0.0 in it does that), 'neg' computes 0 / -7 before any zero float exists."""
    r = px.run_goals(w, ["g(X = 0.0)" if first == "pos" else "g(X is 0 / (-7))"])[0]
    if r.status != "done" or len(r.sols) != 1:
        raise px.pool.MachineryError("C03 priming failed: %r" % (r,))


Z = "f:" + (0.0).hex()
ZTREES = [["atan2", Z, "i:-7"], ["atan2", ["-", Z], "i:-7"], ["atan2", ["*", Z, "i:-7"], "i:-7"],
          ["atan2", ["/", "i:0", "i:-7"], "i:-7"], ["atan2", ["float", "i:0"], "i:-7"], ["atan2", ["+", Z, Z], "i:-7"]]


def ztree_ref(t):
    def conv(n):
        if isinstance(n, str):
            return leaf_val(n)
        return tuple([n[0]] + [conv(x) for x in n[1:]])
    return M.ref_eval(conv(t))


def zerohist_one(w, first, t):
    """one (history, tree) case on a fresh machine -> (label, sig | None, expected, observed)"""
    w.new_machine()
    prime(w, first)
    (_, rs), = run_trees(w, [t])
    wit = {}
    try:
        pyeval(t, wit)
    except Exception:
        pass
    label, sig, exp, obs = judge(t, rs, bool(wit.get("negzero")))
    if sig:
        return ("zerohist_" + label, "zerohist first=%s %s" % (first, sig), exp, obs)
    base = rs[BASE]
    ref = ztree_ref(t)
    # here the sign of the result is the observation: compare bitwise, pi vs -pi
    ok = isinstance(base, tuple) and base[0] == "v" and isinstance(base[1], float) and \
        any(a[0] == "v" and M.bits(a[1]) == M.bits(base[1]) for a in ref)
    if not ok:
        return ("zerohist_reference_mismatch", "zerohist first=%s ref %s got=%s" % (first, ops_sig(t), terms.show(base)),
                M.show_alts(ref), dict(zip(CTX, map(terms.show, rs))))
    return ("zerohist:ok", None, None, None)


def run_zerohist(w, acc):
    for first in ("pos", "neg"):
        for t in ZTREES:
            label, sig, exp, obs = zerohist_one(w, first, t)
            acc.case(True, label, sample={"history": first, "expr": terms.fmt(to_term(t))})
            if sig:
                acc.violation(sig, {"zerohist": first, "tree": t, "expr": terms.fmt(to_term(t))}, expected=exp, observed=obs)
    w.new_machine()
    return acc.result()


def run_meta(acc):
    fx = extract_functors()
    if not fx["ok"]:
        acc.extra["functor_extraction_failed_static_list_used"] += 1
        acc.case(False, "meta:static_list")
        return acc.result()
    for ar, c, r in ((1, fx["compiled_unary"], fx["runtime_unary"]), (2, fx["compiled_binary"], fx["runtime_binary"])):
        for f in sorted(set(c) | set(r)):
            both = f in c and f in r
            acc.case(False, "meta:both" if both else "meta:one_sided")
            if not both:
                acc.violation("functor_set %s/%d only_%s" % (f, ar, "compiled" if f in c else "runtime"),
                              {"meta": [f, ar]}, expected="known to both dispatchers",
                              observed="compiled=%s runtime=%s" % (f in c, f in r))
    return acc.result()


def run_noneval(w, acc):
    for t in NONEVAL:
        res = noneval_one(w, t)
        acc.case(True, res[0], sample={"expr": terms.fmt(to_term(t)), "outcomes": str(res[3])[:300]})
        if res[1]:
            acc.violation(res[1], {"noneval": t, "expr": terms.fmt(to_term(t))}, expected=res[2], observed=res[3])
    return acc.result()


def noneval_one(w, t):
    (_, rs), = run_trees(w, [t], with_body=False)
    if isinstance(rs, str):
        return ("abnormal", "noneval %s %s" % (ops_sig(t), rs), "type_error(evaluable, F/N) everywhere", rs)
    base = rs[BASE]
    idx = [1, 2, 3, 4, 6, 7, 8, 9]
    ok = isinstance(base, tuple) and base[0] == "e" and isinstance(base[1], tuple) and base[1][:2] == ("type_error", "evaluable")
    bad = [i for i in idx if not same_term(rs[i], base)]
    shown = dict(zip(CTX, map(terms.show, rs)))
    if not ok or bad:
        return ("noneval_mismatch", "noneval ctx=%s %s base=%s" % ("+".join(CTX[i] for i in bad), ops_sig(t), rclass(base)),
                "the same type_error(evaluable, F/N) in every run-time context", shown)
    # the compiled context rejects the clause at load time with the same formal
    _counter[0] += 1
    r = w.consult("c03ne_%d(X) :- X is %s.\n" % (_counter[0], terms.fmt(to_term(t))))
    pi = base[1][2]
    want = "type_error(evaluable,%s/%s)" % (pi[1], pi[2]) if isinstance(pi, tuple) and len(pi) == 3 else terms.show(base[1])
    got = r.get("out", "").replace(" ", "").replace("'", "")
    if want not in got:
        return ("noneval_load_mismatch", "noneval load %s" % ops_sig(t), "load error mentioning " + want, r.get("out", "")[:300])
    return ("noneval:" + rclass(base), None, None, shown)


def recheck(w, case, tier):
    if "meta" in case:
        acc = px.ShardAcc()
        run_meta(acc)
        for v in acc.violations:
            if v["case"] == case:
                return v
        return None
    if "noneval" in case:
        res = noneval_one(w, case["noneval"])
        if res[1]:
            return {"sig": res[1], "case": case, "expected": res[2], "observed": res[3]}
        return None
    if "zerohist" in case:
        label, sig, exp, obs = zerohist_one(w, case["zerohist"], case["tree"])
        if sig:
            return {"sig": sig, "case": case, "expected": exp, "observed": obs}
        return None
    t = case["tree"]
    ok, nz, raises = analyse(t)
    if not ok:
        return None
    prime(w, "pos")
    (_, rs), = run_trees(w, [t])
    label, sig, exp, obs = judge(t, rs, nz)
    if sig:
        return {"sig": sig, "case": case, "expected": exp, "observed": obs}
    return None
