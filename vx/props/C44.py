"""C44 — Prolog flags read back what was set (DESIGN §6 C44).

Explicit-state search over the real set_prolog_flag/2: BFS from the default
flags; state = the implementation's full current_prolog_flag/2 enumeration.
Every transition (valid and invalid flag / value) is compared with a flag
model; in every reached state current_prolog_flag/2 is called with the flag
given (value unbound, bound right, bound wrong) and the double_quotes,
occurs_check and unknown flags are probed behaviourally.
"""
import os
import zlib

from vx.core import px, pool, terms
from vx.core.terms import V

ID = "C44"
LEVEL = "model_checking"
ENGINE = "PEX"
TECHNIQUE = "explicit-state BFS over the real set_prolog_flag/2; flag reference model; per-state read-back and behavioural probes"
VAR = V("_")
WRITABLE = {
    "double_quotes": ["chars", "codes", "atom"],
    "unknown": ["error", "fail", "warning"],
    "occurs_check": ["false", "true", "error"],
    "answer_write_options": ["[]", ("list", [("max_depth", 3)]), ("list", [("quoted", "true")])],
}
READONLY = {"max_arity": [255, 256], "bounded": ["false", "true"], "integer_rounding_function": ["toward_zero", "down"],
            "max_integer": [5], "min_integer": [-5]}
DEFAULTS = {"max_arity": 255, "bounded": "false", "integer_rounding_function": "toward_zero", "double_quotes": "chars",
            "unknown": "error", "occurs_check": "false", "answer_write_options": "[]"}
JUNK = ["foo", 1, VAR, "on", ("list", ["foo"])]
NONFLAGS = ["foo", 1, VAR]
DEPTH = {"quick": 3, "thorough": 6}
NSHARDS = 1   # the whole space is 81 states: one shard keeps the state count exact
RULE = ("explicit-state search: transitions set_prolog_flag(F,V), F in every flag the enumeration yields (max_arity, bounded, "
        "integer_rounding_function, double_quotes, unknown, occurs_check, answer_write_options) + {max_integer, min_integer, foo, 1, _}, "
        "V in the flag's documented domain + {foo, 1, _, on, [foo]}; BFS from the default flags to depth 3 (quick) / 6 = closure "
        "(thorough); state = the implementation's full current_prolog_flag/2 enumeration; every history is executed from restored "
        "defaults. In every state: current_prolog_flag(F,V) with F given and V unbound / bound to the right / to a wrong value, "
        "non-flag arguments, and 16 behavioural probes (double_quotes: reading \"ab\" with read_term_from_chars and in a "
        "clause consulted after the change; occurs_check: X = f(X) in the query, in a compiled clause body and in head unification; "
        "unknown: an undefined predicate as the query itself, through call/1, as only / last / non-last goal of a consulted clause, "
        "through call/N, module-qualified, inside if-then-else). Non-trivial transition: it changes a value or is rejected.")
LEVEL_TEXT = ("explicit-state model checking of the real flag store: complete BFS to the stated depth (thorough: until no new "
              "state), model agreement checked on every transition and in every state")
ASSUMPTIONS = ["driver transport (case texts contain no double-quoted strings and call no undefined predicates)",
               "read-only flags: failure or any error is accepted as 'cannot be changed'; success only with the current value",
               "ISO 8.17.1.3: invalid value -> domain_error(flag_value, Flag+Value); unknown flag -> domain_error(prolog_flag, F); "
               "non-atom flag -> type_error(atom, F); variables -> instantiation_error",
               "unknown=warning is observed as 'the call fails'; the warning text (printed with println! on the process's real "
               "stdout, skipped by the worker pool as a stray line) is not compared"]
MIN_OUTCOMES = 4


def bound_text(tier):
    return "BFS depth %d over %d transitions per state" % (DEPTH[tier], len(transitions()))


def shards(tier):
    return [("bfs", k, NSHARDS) for k in range(NSHARDS)]


def helper_text():
    with open(os.path.join(pool.ROOT, "vx", "prolog", "c44_helper.pl")) as f:
        return f.read()


def dq_path():
    d = os.path.join(pool.WORK, "agentC")
    os.makedirs(d, exist_ok=True)
    return os.path.join(d, "c44_dq_%d.pl" % os.getpid())


def setup(w, tier):
    with open(dq_path(), "w") as f:
        f.write('c44_dq_fact("ab").\n')
    w.consult(helper_text() + "\nc44_dq_file('%s').\n" % dq_path(), persist=True)


def transitions():
    out = []
    for f, dom in list(WRITABLE.items()) + list(READONLY.items()):
        for v in dom + JUNK:
            out.append((f, v))
    for f in NONFLAGS:
        for v in ["chars", "foo", VAR]:
            out.append((f, v))
    return out


def vtext(v):
    if v is VAR:
        return "_"
    if isinstance(v, tuple) and v[0] == "list":
        return "[" + ",".join(vtext(x) for x in v[1]) + "]"
    if isinstance(v, tuple):
        return "%s(%s)" % (v[0], ",".join(vtext(x) for x in v[1:]))
    if isinstance(v, int):
        return str(v) if v >= 0 else "(%d)" % v
    return v


def vterm(v):
    """value as it appears in observations (terms.py representation)"""
    if isinstance(v, tuple) and v[0] == "list":
        return terms.mklist([vterm(x) for x in v[1]])
    if isinstance(v, tuple):
        return tuple([v[0]] + [vterm(x) for x in v[1:]])
    return v


def ttext(tr):
    return "t(%s,%s)" % (vtext(tr[0]), vtext(tr[1]))


def show_tr(tr):
    return "set_prolog_flag(%s,%s)" % (vtext(tr[0]), vtext(tr[1]))


def parse_state(term):
    el, _ = terms.unlist(term)
    return [(e[1], e[2]) for e in el]


def outcome_of(t):
    if t in ("true", "false", "na"):
        return t
    if isinstance(t, tuple) and t[0] == "error":
        return ("error", t[1])
    return ("ball", terms.show(t))


def oc_text(o):
    if isinstance(o, tuple):
        return "error:" + px.formal_sig(o[1]) if o[0] == "error" else "ball"
    return o


def model_step(state, f, v):
    """state: dict flag -> value (terms repr). -> (acceptable(outcome) predicate description, successor, text)"""
    # returns (set of acceptable outcome classes, successor dict, must_hold)
    acc = set()
    if f is VAR or v is VAR:
        acc.add("error:instantiation_error")
        if f is not VAR and not isinstance(f, str):
            acc.add("error:type_error(atom)")
        return acc, state
    if not isinstance(f, str):
        return {"error:type_error(atom)"}, state
    if f in WRITABLE:
        vt = vterm(v)
        if any(vterm(d) == vt for d in WRITABLE[f]):
            s = dict(state)
            s[f] = vt
            return {"true"}, s
        return {"error:domain_error(flag_value)"}, state
    if f in READONLY:
        acc = {"false", "error:*"}
        if f in state and state[f] == vterm(v):
            acc.add("true")
        return acc, state
    return {"error:domain_error(prolog_flag)"}, state


def matches(outcome, acc):
    o = oc_text(outcome)
    if o in acc:
        return True
    if o.startswith("error:") and "error:*" in acc:
        return True
    return False


def tr_class(tr):
    f, v = tr
    fc = "var" if f is VAR else ("nonatom" if not isinstance(f, str) else
                                 (f if f in WRITABLE or f in READONLY else "unknown_flag"))
    if v is VAR:
        vc = "var"
    elif isinstance(f, str) and f in WRITABLE:
        vc = "valid" if any(vterm(d) == vterm(v) for d in WRITABLE[f]) else "invalid"
    elif isinstance(f, str) and f in READONLY:
        vc = "in_domain" if v in READONLY[f] else "junk"
    else:
        vc = "any"
    return "F=%s V=%s" % (fc, vc)


def check_step(pre, tr, outcome, holds, post):
    """-> (label, violation kind or None, expected text)"""
    f, v = tr
    pre_d = dict(pre)
    acc, succ = model_step(pre_d, f, v)
    exp = "%s -> %s" % ("|".join(sorted(acc)), sorted(succ.items(), key=repr))
    post_d = dict(post)
    if len(post_d) != len(post):
        return ("dup_flag", "duplicate_flag_in_enumeration", exp)
    if not matches(outcome, acc):
        return ("wrong_outcome", "wrong_outcome got=%s want=%s %s" % (oc_text(outcome), "|".join(sorted(acc)), tr_class(tr)), exp)
    if post_d != succ:
        how = "changed_on_reject" if outcome != "true" else "wrong_successor"
        return ("wrong_state", "%s %s" % (how, tr_class(tr)), exp)
    if outcome == "true" and holds != "true":
        return ("set_not_readable", "set_succeeded_but_flag_does_not_read_back(%s) %s" % (oc_text(holds), tr_class(tr)), exp)
    if isinstance(f, str) and f in WRITABLE and outcome != "true" and holds == "true":
        return ("set_rejected_readable", "set_rejected_although_value_holds %s" % tr_class(tr), exp)
    if outcome == "true":
        return ("accepted:" + ("changed" if post_d != pre_d else "unchanged"), None, exp)
    return ("rejected:" + oc_text(outcome), None, exp)


def check_inspection(state, insp):
    """-> list of (kind, expected, observed)"""
    out = []
    if not (isinstance(insp, tuple) and insp[0] == "insp"):
        return [("inspect failed", "inspection", terms.show(insp))]
    sd = dict(state)
    given = dict((e[1], e[2]) for e in terms.unlist(insp[1])[0])
    right = dict((e[1], e[2]) for e in terms.unlist(insp[2])[0])
    wrong = dict((e[1], e[2]) for e in terms.unlist(insp[3])[0])
    for f, v in state:
        g = given.get(f)
        vs = terms.unlist(g)[0] if not (isinstance(g, tuple) and g[0] == "error") else None
        if vs is None or vs != [v]:
            kind = "none" if vs == [] else ("error" if vs is None else ("many" if len(vs) > 1 else "other_value"))
            out.append(("flag_given_value_unbound %s:%s" % (f, kind), "current_prolog_flag(%s,V) gives exactly V = %s" % (f, terms.show(v)),
                        terms.show(g)))
        if right.get(f) != "true":
            out.append(("flag_given_right_value %s:%s" % (f, oc_text(outcome_of(right.get(f)))),
                        "current_prolog_flag(%s,%s) succeeds" % (f, terms.show(v)), terms.show(right.get(f))))
        if wrong.get(f) != "false":
            out.append(("flag_given_wrong_value %s:%s" % (f, oc_text(outcome_of(wrong.get(f)))),
                        "current_prolog_flag(%s,c44_wrong_value) fails" % f, terms.show(wrong.get(f))))
    non = terms.unlist(insp[4])[0]
    n1, n2 = outcome_of(non[0]), outcome_of(non[1])
    if oc_text(n1) != "error:domain_error(prolog_flag)":
        out.append(("nonflag_atom:" + oc_text(n1), "domain_error(prolog_flag, c44_no_such_flag)", terms.show(non[0])))
    if oc_text(n2) != "error:type_error(atom)":
        out.append(("nonflag_integer:" + oc_text(n2), "type_error(atom, 1)", terms.show(non[1])))
    for nm, x in (("max_integer", non[2]), ("min_integer", non[3])):
        vs = terms.unlist(x)[0]
        if (nm in sd) != (len(vs) == 1) or (vs and vs != [sd.get(nm)]):
            out.append(("flag_given_vs_enumeration %s" % nm, "given and enumerated agree", terms.show(x)))
    pr = insp[5]
    dq, oc, un = pr[1], pr[2], pr[3]
    dqv = sd.get("double_quotes")
    want_dq = {"chars": terms.mklist(["a", "b"]), "codes": terms.mklist([97, 98]), "atom": "ab"}.get(dqv)
    if not (isinstance(dq[1], tuple) and dq[1][0] == "read" and dq[1][1] == want_dq):
        out.append(("probe double_quotes=%s form=read_term_from_chars" % terms.show(dqv), "\"ab\" reads as %s" % terms.show(want_dq),
                    terms.show(dq[1])))
    if not (isinstance(dq[2], tuple) and dq[2][0] == "fact" and dq[2][1] == want_dq):
        out.append(("probe double_quotes=%s form=consulted_clause" % terms.show(dqv),
                    "a clause consulted after the change holds \"ab\" as %s" % terms.show(want_dq), terms.show(dq[2])))
    ocv = sd.get("occurs_check")
    want_oc = {"false": "true", "true": "false", "error": "error"}.get(ocv)
    for form, x in (("query_unification", oc[1]), ("clause_body", oc[2]), ("clause_head", oc[3])):
        o = outcome_of(x)
        got = "error" if isinstance(o, tuple) else o
        if got != want_oc:
            out.append(("probe occurs_check=%s form=%s got=%s" % (terms.show(ocv), form, got), "X = f(X): %s" % want_oc, terms.show(x)))
    unv = sd.get("unknown")
    want_un = {"error": "error:existence_error(procedure)", "fail": "false", "warning": "false"}.get(unv)
    for e in terms.unlist(un)[0]:
        form, x = e[1], e[2]
        got = oc_text(outcome_of(x))
        if got != want_un:
            out.append(("probe unknown=%s form=%s got=%s" % (terms.show(unv), form, got),
                        "calling an undefined predicate (%s): %s" % (form, want_un), terms.show(x)))
    return out


class Ctx:
    def __init__(self, w):
        self.w = w
        r = px.run_goals(w, ["g(c44_state(S))"])[0]
        if r.status != "done" or len(r.sols) != 1:
            raise pool.MachineryError("cannot read the initial flags: %r" % (r,))
        self.s0 = parse_state(r.sols[0]["S"])

    def run_hists(self, hists):
        goals = ["g(c44_hist([%s],S,I,F))" % ",".join(ttext(t) for t in h) for h in hists]
        out = []
        bad = False
        for r in px.run_goals(self.w, goals, chunk=100):
            if r.abn or r.status != "done" or len(r.sols) != 1:
                out.append(r.abn or ("driver: " + (terms.show(r.exc) if r.status == "exc" else str(r.status))))
                bad = True
                continue
            steps = [(outcome_of(s[1]), outcome_of(s[2]), parse_state(s[3])) for s in terms.unlist(r.sols[0]["S"])[0]]
            fin = parse_state(r.sols[0]["F"])
            if fin != self.s0:
                bad = True
            out.append((steps, r.sols[0]["I"], fin == self.s0))
        if bad:
            self.w.new_machine()
            out = []
            for g in goals:
                r = px.run_goals(self.w, [g])[0]
                if r.abn or r.status != "done" or len(r.sols) != 1:
                    out.append(r.abn or ("driver: " + (terms.show(r.exc) if r.status == "exc" else str(r.status))))
                    self.w.new_machine()
                    continue
                steps = [(outcome_of(s[1]), outcome_of(s[2]), parse_state(s[3])) for s in terms.unlist(r.sols[0]["S"])[0]]
                fin = parse_state(r.sols[0]["F"])
                if fin != self.s0:
                    self.w.new_machine()
                out.append((steps, r.sols[0]["I"], fin == self.s0))
        return out


def raw_unknown_probe(ctx, hist, state):
    """(a) an undefined predicate as the query goal itself (run_query, no call/1):
    replay the history, run the raw query, restore. -> list of (kind, expected, observed)"""
    w = ctx.w
    unv = dict(state).get("unknown")
    r1 = px.run_goals(w, ["g(c44_steps([%s],_))" % ",".join(ttext(t) for t in hist)])[0]
    raw = w.q(["c44_undef_raw_query."], op="raw")[0]
    r3 = px.run_goals(w, ["g((c44_restore, c44_state(S)))"])[0]
    if r1.abn or r3.abn or r3.status != "done" or parse_state(r3.sols[0]["S"]) != ctx.s0:
        w.new_machine()
    if pool.abnormal(raw):
        return [("probe unknown=%s form=query abn:%s" % (terms.show(unv), pool.abnormal_sig(raw)), "an answer", str(raw)[:200])]
    ans = raw.get("answers", [])
    if len(ans) == 1 and ans[0] == "false":
        got = "false"
    elif len(ans) == 1 and isinstance(ans[0], dict) and "error" in ans[0]:
        got = "error:" + str(((ans[0]["error"].get("args") or [{}])[0]).get("c", "?"))
    else:
        got = "other"
    want = {"error": "error:existence_error", "fail": "false", "warning": "false"}.get(unv)
    if got != want:
        return [("probe unknown=%s form=query got=%s" % (terms.show(unv), got), "undefined predicate as the query: %s" % want, str(ans)[:300])]
    return []


def state_key(st):
    return tuple(sorted(((f, terms.show(v)) for f, v in st)))


def owner(key, n):
    return zlib.crc32(repr(key).encode()) % n


def hist_json(h):
    return [[vtext(f), vtext(v)] for (f, v) in h]


def run_shard(w, shard, tier):
    _, k, nsh = shard
    acc = px.ShardAcc()
    ctx = Ctx(w)
    trs = transitions()
    depth = DEPTH[tier]
    index = {(vtext(f), vtext(v)): (f, v) for (f, v) in trs}
    seen = {state_key(ctx.s0)}
    inspected = 0
    if k == 0:
        acc.case(False, "initial_state")
        if dict(ctx.s0) != DEFAULTS:
            acc.violation("default_flags_wrong", {"hist": [], "kind": "default"}, expected=str(DEFAULTS), observed=str(ctx.s0))

    def handle(h, r, report, pre):
        """process one history result; returns the reached state or None"""
        nonlocal inspected
        case = {"hist": hist_json(h), "kind": "step"}
        if isinstance(r, str):
            if report:
                acc.case(True, "abnormal")
                acc.violation("transition abn:%s %s" % (r, tr_class(h[-1]) if h else ""), case, expected="outcome", observed=r)
            return None
        steps, insp, restored = r
        if h:
            outcome, holds, post = steps[-1]
        else:
            post = ctx.s0
        if report and h:
            label, vk, exp = check_step(pre, h[-1], outcome, holds, post)
            acc.transitions += 1
            acc.case(not label.startswith("accepted:unchanged"), label,
                     sample=None if len(acc.samples) >= 3 else {"history": [show_tr(t) for t in h], "outcome": oc_text(outcome),
                                                                "state": [(f, terms.show(v)) for f, v in post]})
            if vk:
                acc.violation("step " + vk, case, expected=exp,
                              observed="%s -> %s" % (oc_text(outcome), [(f, terms.show(v)) for f, v in post]))
            if not restored:
                acc.extra["histories_not_restorable"] += 1
        return post, insp

    def inspect(h, post, insp):
        nonlocal inspected
        inspected += 1
        probs = check_inspection(post, insp) + raw_unknown_probe(ctx, h, post)
        acc.extra["behavioural_probes"] += 16
        acc.case(True, "inspect:" + ("ok" if not probs else "violations"))
        done = set()
        for (kind, exp, obs) in probs:
            if kind in done:
                continue
            done.add(kind)
            acc.violation("state " + kind, {"hist": hist_json(h), "kind": "inspect", "vkind": kind}, expected=exp, observed=obs)

    # level 0 + 1
    frontier = []
    r0 = ctx.run_hists([[]])[0]
    if k == 0:
        x = handle([], r0, True, ctx.s0)
        if x:
            inspect([], x[0], x[1])
    for t, r in zip(trs, ctx.run_hists([[t] for t in trs])):
        x = handle([t], r, k == 0, ctx.s0)
        if not x:
            continue
        post, insp = x
        key = state_key(post)
        if key not in seen:
            seen.add(key)
            if owner(key, nsh) == k:
                inspect([t], post, insp)
                frontier.append(([t], post))
    expanded = 1 if k == 0 else 0
    level = 1
    while frontier and level < depth:
        nxt = []
        for hist, entries in frontier:
            expanded += 1
            hs = [hist + [t] for t in trs]
            for h, r in zip(hs, ctx.run_hists(hs)):
                x = handle(h, r, True, entries)
                if not x:
                    continue
                post, insp = x
                key = state_key(post)
                if key not in seen:
                    seen.add(key)
                    inspect(h, post, insp)
                    nxt.append((h, post))
        frontier = nxt
        level += 1
    acc.states = inspected
    acc.extra["states_expanded"] += expanded
    return acc.result()


def recheck(w, case, tier):
    ctx = Ctx(w)
    index = {(vtext(f), vtext(v)): (f, v) for (f, v) in transitions()}
    if case["kind"] == "default":
        return None
    h = [index[(a, b)] for (a, b) in case["hist"]]
    r = ctx.run_hists([h])[0]
    if isinstance(r, str):
        return {"sig": "transition abn:%s %s" % (r, tr_class(h[-1]) if h else ""), "case": case, "expected": "outcome", "observed": r}
    steps, insp, restored = r
    post = steps[-1][2] if steps else ctx.s0
    if case["kind"] == "inspect":
        for (kind, exp, obs) in check_inspection(post, insp) + raw_unknown_probe(ctx, h, post):
            if kind == case.get("vkind"):
                return {"sig": "state " + kind, "case": case, "expected": exp, "observed": obs}
        return None
    pre = steps[-2][2] if len(steps) > 1 else ctx.s0
    outcome, holds, post = steps[-1]
    label, vk, exp = check_step(pre, h[-1], outcome, holds, post)
    if vk:
        return {"sig": "step " + vk, "case": case, "expected": exp,
                "observed": "%s -> %s" % (oc_text(outcome), [(f, terms.show(v)) for f, v in post])}
    return None
