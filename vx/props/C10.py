"""C10 — unification computes most general unifiers (DESIGN §6 C10).

Families (exhaustive over what they enumerate):
  pairs  ordered pairs TERM(k1) x TERM(k2), all joint sharing patterns over
         {X,Y,Z}, all pairs of applicable routes
  rich   ordered pairs over a variable-rich leaf set {_, a, [], "a"} (many
         sharing patterns, occurs-check situations)
  pstr   string/partial-string pairs: equal, mismatch at every offset 0..9,
         one side ending where the other continues, tails {[], X, Y} on either
         side, routes incl. unaligned string suffixes (unify_partial_string)
  nums   numbers of every class and encoding
  octail a variable T (bare, or inside g(T) / g(T,c)) against a string S whose
         TAIL is T, f(T), [1|T], [f(x)|T], [1|"xy"||T] or an unrelated Y, S
         realised through 10 routes (literal [a,b|T], partial_string/3,
         segmented, string->list-cell, atom_chars+append/3, unaligned suffix,
         copy_term, assert, explicit cells); both argument orders; main goal
         (=)/2 and unify_with_occurs_check/2
Per case one goal: side observations (\\=, unify_with_occurs_check, = under
occurs_check=true / error; all under \\+ \\+) and the main unification whose
bindings of (X,Y,Z,W) are transported.  Oracle: vx.model.unify.
"""
import os
from fractions import Fraction

from vx.core import px
from vx.core.terms import V, NIL, mklist, unlist
from vx.model import termspace as T
from vx.model import unify as U
from vx.props import C13 as _C13   # shares the number alphabet and pstr prefixes

ID = "C10"
LEVEL = "exploration"
ENGINE = "PEX"
TECHNIQUE = "bounded exhaustive enumeration of term pairs x sharing patterns x heap encodings against reference unifiers"
LEVEL_TEXT = ("input-space exploration: unification is a function of the two terms and their variable sharing, so all "
              "pairs of a size-bounded term alphabet with all sharing patterns in all encodings is the matching technique")
RULE = ("all ordered pairs of TERM(k1)xTERM(k2) shapes x all joint sharing patterns over {X,Y,Z} x all pairs of "
        "applicable routes; variable-rich pairs over leaves {_,a,[],\"a\"}; string family (prefix 0..9 x mismatch/"
        "equal/one-longer x tails x routes); number pairs x encodings. Non-trivial: both terms contain a shared "
        "variable, or the two sides differ in route, or a string encoding is involved.")
ASSUMPTIONS = ["unify.py (union-find rational-tree unifier, cross-checked against an independent Robinson unifier)",
               "the error raised under occurs_check=error is compared by class only (the documentation fixes no term)",
               "when no rational-tree unifier exists, occurs_check=error may fail or raise (order of discovery is "
               "implementation defined)",
               "cyclic results are not transported: only success and == are compared for them"]
MIN_OUTCOMES = 4

HELPERS = open(os.path.join(os.path.dirname(__file__), "..", "prolog", "c10_helpers.pl"), encoding="utf-8").read()

RICH_LEAVES = [T.HOLE, "a", "[]", T.str_term("a")]
R_Q = ["lit", "univ", "chars"]
R_RICH = ["lit", "univ", "chars", "copy"]
R_T = ["lit", "univ", "chars"]
R_PSTR_Q = ["dq", "univ", "chars", "seg", "sfx1", "sfx3"]
R_PSTR_T = ["dq", "univ", "chars", "seg", "sfx1", "sfx3", "sfx8"]
MISMATCH = [("a", "b"), ("é", "è"), ("😀", "😁")]
TAILS_Q = [("nil", "nil"), ("X", "nil"), ("nil", "X"), ("X", "X"), ("X", "Y")]
TAILS_T = TAILS_Q + [("X", "cd"), ("cd", "X"), ("one", "X"), ("X", "l1")]


def setup(w, tier):
    w.consult(HELPERS, persist=True)


def bound_text(tier):
    if tier == "quick":
        return ("TERM(2)xTERM(3) both orders routes {lit,univ,chars}; rich leaves size<=3 squared routes "
                "{lit,univ,chars,copy}; pstr family 6x6 routes, 5 tail pairs; nums; main goal (=)/2")
    return ("TERM(3) x (TERM(2) + variable-containing TERM(3)) both orders routes {lit,univ,chars}; rich size<=4 x size<=3; pstr family 7x7 routes, 9 tail "
            "pairs; nums; main goal (=)/2 and unify_with_occurs_check/2")


def tail_term(name):
    return {"nil": NIL, "X": V("X"), "Y": V("Y"), "one": 1, "l1": mklist([1]), "cd": T.str_term("cd")}[name]


def shards(tier):
    sh = []
    n3 = len(T.shapes(3))
    if tier == "quick":
        for i in range(0, n3, 12):
            sh.append(("pairs", 3, 2, "Q", i, min(n3, i + 12), 1, "u"))
        nr = len(T.shapes(3, RICH_LEAVES))
        for i in range(0, nr, 4):
            sh.append(("rich", 3, 3, i, min(nr, i + 4), "u"))
        tails, pr = TAILS_Q, "Q"
        modes = ["u"]
    else:
        for i in range(0, n3, 6):
            sh.append(("pairs", 3, "H", "T", i, min(n3, i + 6), 1, "u"))
        nr = len(T.shapes(4, RICH_LEAVES))
        for i in range(0, nr, 4):
            sh.append(("rich", 4, 3, i, min(nr, i + 4), "u"))
        nr3 = len(T.shapes(3, RICH_LEAVES))
        for i in range(0, nr3, 4):
            sh.append(("rich", 3, 3, i, min(nr3, i + 4), "oc"))
        tails, pr = TAILS_T, "T"
        modes = ["u", "oc"]
    for ti in range(len(tails)):
        for pi in range(len(_C13.pstr_prefixes())):
            for m in modes:
                if m == "oc" and ti >= len(TAILS_Q):
                    continue
                sh.append(("pstr", pr, ti, pi, m))
    nn = len(_C13.num_alphabet())
    for i in range(0, nn, 10):
        sh.append(("nums", i, min(nn, i + 10)))
    for c in range(len(OT_CONTENTS)):
        for tl in OT_TAILS:
            sh.append(("octail", c, tl))
    return sh


OT_CONTENTS = ["a", "abc", "\u00e9b", "aaaaaaa", "aaaaaaaa"]
OT_TAILS = ["T", "fT", "numT", "fxT", "strT", "Y"]
OT_ROUTES = ["lit", "chars", "seg", "segl", "app", "sfx1", "sfx3", "copy", "asrt", "univ"]


def ot_tail(name):
    Tv = V("T")
    return {"T": Tv, "fT": ("f", Tv), "numT": mklist([1], Tv), "fxT": mklist([("f", "x")], Tv),
            "strT": mklist([1], T.str_term("xy", Tv)), "Y": V("Y")}[name]


def ot_realise(content, tail, route, prefix):
    """S = content + tail through a string route -> (pre, txt) or None"""
    t = T.str_term(content, ot_tail(tail))
    ctx = T.Ctx(prefix)
    if route in ("lit", "chars", "seg", "sfx1", "sfx3", "copy", "asrt", "univ"):
        if route == "seg" and len(content) < 2:
            return None
        return T.render(t, route, ctx)
    pre = []
    if route == "app":
        # atom_chars + append/3: the front is copied into list cells by append/3
        l0, v = ctx.fresh(), ctx.fresh()
        pre.append("atom_chars(%s,%s)" % (T.atom_text(content), l0))
        pre.append("append(%s,%s,%s)" % (l0, T._lit(ot_tail(tail), ctx, pre), v))
        return pre, v
    if route == "segl":
        # a partial string whose tail is an explicit list cell holding a character
        if len(content) < 2:
            return None
        v, tv = ctx.fresh(), ctx.fresh()
        pre.append("partial_string(%s,%s,%s)" % (T.quote_string(content[:-1]), v, tv))
        rt = T._build(T.str_term(content[-1:], ot_tail(tail)), ctx, pre, "univ")
        pre.append("%s = %s" % (tv, rt))
        return pre, v
    raise KeyError(route)


def hole_shapes():
    """TERM(2) plus the TERM(3) shapes that contain a variable"""
    return T.shapes(2) + [x for x in T.shapes_of_size(3) if T.nholes(x) > 0]


def goal_text(pa, ta, pb, tb, mode):
    return "g((" + ",".join(pa + pb + ["c10_pre(%s,%s,P)" % (ta, tb), "vx_obs(P)", "W = W",
                                        "c10_u(%s,%s,%s,E)" % (mode, ta, tb), "vx_obs(E)"]) + "))"


def gen(shard, tier):
    """yields (case, goal, a, b, mode, nontrivial)"""
    kind = shard[0]
    if kind in ("pairs", "rich"):
        if kind == "pairs":
            _, k1, k2, rs, lo, hi, both, mode = shard
            routes = R_Q if rs == "Q" else R_T
            S1 = T.shapes(k1)[lo:hi]
            S2 = T.shapes(k2) if k2 != "H" else hole_shapes()
        else:
            _, k1, k2, lo, hi, mode = shard
            routes = R_RICH if k1 == 3 else R_Q
            both = 0
            S1 = T.shapes(k1, RICH_LEAVES)[lo:hi]
            S2 = T.shapes(k2, RICH_LEAVES)
        for s1 in S1:
            for s2 in S2:
                for (a, b) in T.fillings([s1, s2], 3):
                    va = _C13.variants(a, routes, "_A")
                    vb = _C13.variants(b, routes, "_B")
                    shared = bool(set(T.variables(a)) & set(T.variables(b)))
                    for (ra, pa, ta) in va:
                        for (rb, pb, tb) in vb:
                            nt = shared or ra != rb or T.has_string(a) or T.has_string(b)
                            yield ({"fam": kind, "a": T.tj(a), "b": T.tj(b), "ra": ra, "rb": rb, "mode": mode},
                                   goal_text(pa, ta, pb, tb, mode), a, b, mode, nt)
                            if both and not (U.tkey(a) == U.tkey(b) and ra == rb):
                                yield ({"fam": kind, "a": T.tj(b), "b": T.tj(a), "ra": rb, "rb": ra, "mode": mode},
                                       goal_text(pb, tb, pa, ta, mode), b, a, mode, nt)
    elif kind == "pstr":
        _, pr, ti, pi, mode = shard
        tails = TAILS_Q if pr == "Q" else TAILS_T
        routes = R_PSTR_Q if pr == "Q" else R_PSTR_T
        P = _C13.pstr_prefixes()[pi]
        tla, tlb = tails[ti]
        pairs = []
        for (c1, c2) in MISMATCH:
            for suf in ("", "x"):
                pairs.append((P + c1 + suf, P + c2 + suf))
                pairs.append((P + c2 + suf, P + c1 + suf))
        for c in ("a", "é"):
            pairs.append((P, P + c))
            pairs.append((P + c, P))
        for c in ("a", "😀"):
            pairs.append((P + c, P + c))
        for (s1, s2) in pairs:
            a = T.str_term(s1, tail_term(tla))
            b = T.str_term(s2, tail_term(tlb))
            va = _C13.variants(a, routes, "_A")
            vb = _C13.variants(b, routes, "_B")
            for (ra, pa, ta) in va:
                for (rb, pb, tb) in vb:
                    yield ({"fam": "pstr", "a": T.tj(a), "b": T.tj(b), "ra": ra, "rb": rb, "mode": mode},
                           goal_text(pa, ta, pb, tb, mode), a, b, mode, True)
    elif kind == "octail":
        _, ci, tl = shard
        content = OT_CONTENTS[ci]
        Sabs = T.str_term(content, ot_tail(tl))
        Tv = V("T")
        for route in OT_ROUTES:
            r = ot_realise(content, tl, route, "_B")
            if r is None:
                continue
            pre, st = r
            # the variable (or a structure holding it) against the string (or a structure holding it), both orders
            for (wrapname, wl, wr) in (("direct", lambda x: x, lambda x: x), ("g", lambda x: "g(%s)" % x, lambda x: "g(%s)" % x),
                                       ("gf", lambda x: "g(%s,c)" % x, lambda x: "g(%s,c)" % x)):
                la = Tv if wrapname == "direct" else (("g", Tv) if wrapname == "g" else ("g", Tv, "c"))
                ra = Sabs if wrapname == "direct" else (("g", Sabs) if wrapname == "g" else ("g", Sabs, "c"))
                for mode in ("u", "oc"):
                    for order in (0, 1):
                        if order == 0:
                            g = goal_text([], wl("T"), pre, wr(st), mode)
                            a, b = la, ra
                        else:
                            g = goal_text(pre, wr(st), [], wl("T"), mode)
                            a, b = ra, la
                        yield ({"fam": "octail", "content": content, "tail": tl, "route": route, "wrap": wrapname, "order": order,
                                "mode": mode}, g, a, b, mode, True)
    elif kind == "nums":
        _, lo, hi = shard
        A = _C13.num_alphabet()
        for i in range(lo, hi):
            (v1, e1) = A[i]
            for j, (v2, e2) in enumerate(A):
                pa, ta = _C13.num_render(v1, e1, T.Ctx("_A"))
                pb, tb = _C13.num_render(v2, e2, T.Ctx("_B"))
                nt = e1 != e2 or T.kind(v1) != T.kind(v2)
                yield ({"fam": "nums", "i": i, "j": j, "mode": "u"}, goal_text(pa, ta, pb, tb, "u"), v1, v2, "u", nt)


TUP = ("t", V("X"), V("Y"), V("Z"), V("W"))


def num_equal(a, b):
    """two zeros of different sign: the statement is silent; treated as 'either'"""
    return None


def judge(res, a, b, mode):
    """-> (label, violation kind or None, expected, observed)"""
    zero_pair = (isinstance(a, float) and isinstance(b, float) and a == 0.0 and b == 0.0 and U.tkey(a) != U.tkey(b))
    cls, rt = U.classify(a, b)
    expd = "class=%s" % cls
    if res.abn:
        return "abnormal", "abnormal:" + res.abn, expd, res.abn
    if res.status != "done" or len(res.sols) != 1:
        obs = "status=%s exc=%s nsols=%d" % (res.status, px.formal_sig(res.formal()) if res.status == "exc" else None,
                                              len(res.sols))
        return "no_result", "no_result:" + obs, expd, obs
    sol = res.sols[0]
    if zero_pair:
        return "zeros", None, expd, "-"
    # --- side observations
    # P and E come in their own O records: the S record is not expanded when a binding is cyclic,
    # and the side observations must be judged for exactly those cases too
    if len(res.obs) != 2:
        return "no_result", "no_result:%d observation records" % len(res.obs), expd, repr(res.obs)[:200]
    p, e = res.obs
    cyclic_transport = "W" not in sol        # the driver prints a cyclic record as 'y;'
    if cyclic_transport and (cls != "cyclic" or mode == "oc"):
        return "unexpected_cyclic", "unexpected_cyclic_result", expd, "cyclic record"
    if not (isinstance(p, tuple) and p[0] == "p" and len(p) == 5):
        return "no_result", "no_result:bad P", expd, repr(p)
    NE, OC, FT, FE = p[1:]
    obs = "main(%s)=%s \\==%s uwoc=%s flag_true=%s flag_error=%s" % (mode, e, NE, OC, FT,
                                                                     FE if not isinstance(FE, tuple) else "err(%s)" % px.formal_sig(FE[1]))
    unifiable = cls != "clash"
    finite = cls == "finite"
    if NE != (0 if unifiable else 1):
        return "wrong_not_unify", "\\= gives %s for class %s" % (NE, cls), expd, obs
    if OC != (1 if finite else 0):
        return "wrong_uwoc", "unify_with_occurs_check gives %s for class %s" % (OC, cls), expd, obs
    if FT != (1 if finite else 0):
        return "wrong_flag_true", "occurs_check=true gives %s for class %s" % (_s(FT), cls), expd, obs
    fe_err = isinstance(FE, tuple) and FE[0] == "err"
    if cls == "finite":
        ok = FE == 1
    elif cls == "cyclic":
        ok = fe_err
    else:
        ok = FE == 0 or fe_err
    if not ok:
        return "wrong_flag_error", "occurs_check=error gives %s for class %s" % (_s(FE), cls), expd, obs
    # --- main unification
    want = 1 if (unifiable if mode == "u" else finite) else 0
    if e != want:
        return "wrong_main", "main %s gives %s for class %s" % (mode, _s(e), cls), expd, obs
    if want == 0:
        # failure must leave no binding
        tup = ("t", sol.get("X", V("X")), sol.get("Y", V("Y")), sol.get("Z", V("Z")), sol.get("W", V("W")))
        used = ("t",) + tuple(v for v in TUP[1:] if v.n in sol)
        got = ("t",) + tuple(sol[v.n] for v in TUP[1:] if v.n in sol)
        if not U.variant(used, got):
            return "binding_after_failure", "binding_after_failure", U_show(used), U_show(got)
        return "fail:" + cls + ("/err" if fe_err else ""), None, expd, obs
    if cyclic_transport:
        return "cyclic_ok", None, expd, obs
    # success: (X,Y,Z,W) must be a variant of the reference mgu applied to it
    used = ("t",) + tuple(v for v in TUP[1:] if v.n in sol)
    got = ("t",) + tuple(sol[v.n] for v in TUP[1:] if v.n in sol)
    if cls == "cyclic":
        # acyclic transport of a cyclic result: a variable that the model binds cyclically came back finite
        if any(rt.cyclic_from(v) for v in used[1:]):
            return "wrong_mgu", "finite bindings for a cyclic unifier", expd, U_show(got)
        return "cyclic_ok", None, expd, obs
    ref = rt.resolve(used)
    if not U.variant(ref, got):
        return "wrong_mgu", "bindings are not a variant of the mgu", U_show(ref), U_show(got)
    return "unified", None, expd, obs


def _s(x):
    if isinstance(x, tuple):
        return "%s(%s)" % (x[0], px.formal_sig(x[1]) if len(x) > 1 else "")
    return str(x)


def U_show(t):
    from vx.core.terms import show
    return show(t)


def sig_of(case, vk, a, b):
    if case["fam"] == "octail":
        return "octail tail=%s route=%s wrap=%s order=%d mode=%s: %s" % (case["tail"], case["route"], case["wrap"], case["order"],
                                                                       case["mode"], vk)
    if case["fam"] == "pstr":
        sa, _ = T.char_run(a)
        sb, _ = T.char_run(b)
        if sa == sb:
            rel = "equal"
        elif sb.startswith(sa) or sa.startswith(sb):
            rel = "prefix"
        else:
            rel = "mismatch"
        un = 1 if (case["ra"] in _C13.UNALIGNED or case["rb"] in _C13.UNALIGNED) else 0
        return "pstr %s/%s rel=%s unaligned=%d via %s/%s mode=%s: %s" % (
            T.kind(a), T.kind(b), rel, un, case["ra"], case["rb"], case.get("mode", "u"), vk)
    return "%s %s/%s via %s/%s mode=%s: %s" % (case["fam"], T.kind(a), T.kind(b), case.get("ra", "-"),
                                                case.get("rb", "-"), case.get("mode", "u"), vk)


def run_shard(w, shard, tier):
    acc = px.ShardAcc()
    for batch in px.chunked(gen(shard, tier), 100 if shard[0] == "pstr" else 400):
        rs = px.run_goals(w, [g for (_, g, _, _, _, _) in batch])
        for (case, g, a, b, mode, nt), r in zip(batch, rs):
            label, vk, exp, obs = judge(r, a, b, mode)
            acc.case(nt, label, sample={"goal": g, "expected": exp, "observed": obs})
            if vk:
                acc.violation(sig_of(case, vk, a, b), dict(case, goal=g), expected=exp, observed=obs)
    return acc.result()


def rebuild(case):
    mode = case.get("mode", "u")
    if case["fam"] == "octail":
        ci = OT_CONTENTS.index(case["content"])
        for (c, g, a, b, m, nt) in gen(("octail", ci, case["tail"]), "quick"):
            if all(c[k] == case[k] for k in ("route", "wrap", "order", "mode")):
                return g, a, b, m
        raise KeyError("octail case not found")
    if case["fam"] == "nums":
        A = _C13.num_alphabet()
        (v1, e1), (v2, e2) = A[case["i"]], A[case["j"]]
        pa, ta = _C13.num_render(v1, e1, T.Ctx("_A"))
        pb, tb = _C13.num_render(v2, e2, T.Ctx("_B"))
        return goal_text(pa, ta, pb, tb, mode), v1, v2, mode
    a, b = T.jt(case["a"]), T.jt(case["b"])
    pa, ta = T.render(a, case["ra"], T.Ctx("_A"))
    pb, tb = T.render(b, case["rb"], T.Ctx("_B"))
    return goal_text(pa, ta, pb, tb, mode), a, b, mode


def recheck(w, case, tier):
    g, a, b, mode = rebuild(case)
    r = px.run_goals(w, [g])[0]
    label, vk, exp, obs = judge(r, a, b, mode)
    if vk:
        return {"sig": sig_of(case, vk, a, b), "case": dict(case, goal=g), "expected": exp, "observed": obs}
    return None
