"""C42 — module qualification and imports resolve to the right definitions (DESIGN §6 C42).

A layout = two module files a_<tag>.pl, b_<tag>.pl under /verif/work/agentG/c42
plus a user part consulted as text. Each of a, b, user defines a subset of
{p/1, q/1} (a definition answers with the name of its module), a and b export
a subset of what they define, b imports from a and user imports from a and b
(not at all / everything / by import list). Calls are issued from inside b
(clauses t(K, R)) and from user: unqualified, M:G, call/1, call(M:G),
meta-predicate arguments (a user meta-predicate declared with
meta_predicate/1, maplist/2, findall/3), and a dynamic predicate of the
same name in both modules. Oracle: a Python resolution function that follows
the property statement; patterns on which the statement is silent are
recorded in the evidence ("silent:...") and not compared.
"""
import itertools
import json
import os
import select

from vx.core import px, pool

ID = "C42"
LEVEL = "exploration"
ENGINE = "PEX"
TECHNIQUE = "exhaustive module layouts loaded from files / consult text, Python resolution function as oracle"
RULE = ("all layouts: a, b each define a subset of {p,q} and export a subset of it (9 x 9), b imports from a "
        "(none / all / every non-empty import list over a's exports), user defines {} or {p}, imports from a "
        "(none / all / [p]) and from b (test predicate only / everything); b loaded from a file (all layouts) and "
        "from consult text (layouts where user imports only the test predicate from b; consulting a module text does not import into user, so user reaches it qualified); 15 call patterns x {p,q} from inside b and "
        "from user + one independence check; a meta-declaration family (a exports a declared meta-predicate mp/2 and a plain "
        "mq/2; b imports by every mode incl. a list naming neither, and defines its own plain mp/2 / mq/2 that return the raw "
        "argument; 6 call patterns x 2 names x 2 contexts: a plain local definition must see its argument unqualified). Non-trivial: the called name is defined in >= 2 of a, b, user.")
LEVEL_TEXT = ("bounded exhaustive exploration of program layouts; every call is executed on the real loader and "
              "dispatch and compared with the resolution rule of the statement")
ASSUMPTIONS = ["files written through the worker (put_file) under /verif/work/agentG/c42",
               "a qualified call M:G where M has no own definition but imports one, a meta-call qualified as a whole "
               "(M:call(G), M:run(G)) and a name imported from two modules are not fixed by the statement: recorded, not compared",
               "the loader's warning lines printed on the worker's stdout are skipped by a local reader"]
MIN_OUTCOMES = 4

DIR = "/verif/work/agentG/c42"
NAMES = ["p", "q"]


def bound_text(tier):
    return "all layouts of 2 modules + user over {p/1,q/1} with every export set and import mode; 15 call patterns x 2 names x 2 contexts"


# ---------------------------------------------------------------------------
# local transport helper: the loader prints warnings on the real stdout

def safe_rpc(w, req, timeout=60.0):
    w.p.stdin.write((json.dumps(req) + "\n").encode("utf-8"))
    w.p.stdin.flush()
    noise = []
    fd = w.p.stdout.fileno()
    while True:
        while b"\n" not in w.buf:
            r, _, _ = select.select([fd], [], [], timeout)
            if not r:
                raise pool.WorkerDied("hang")
            chunk = os.read(fd, 1 << 20)
            if not chunk:
                raise pool.WorkerDied("exit", w.p.wait())
            w.buf += chunk
        line, w.buf = w.buf.split(b"\n", 1)
        try:
            d = json.loads(line.decode("utf-8", "replace"))
        except ValueError:
            noise.append(line.decode("utf-8", "replace"))
            continue
        if isinstance(d, dict):
            d["noise"] = noise
        return d


def safe_consult(w, text):
    return safe_rpc(w, {"op": "consult", "text": text, "module": "user", "mode": "consult"})


# ---------------------------------------------------------------------------
# space

def subsets(xs):
    return [list(c) for n in range(len(xs) + 1) for c in itertools.combinations(xs, n)]


def def_exports():
    return [(d, e) for d in subsets(NAMES) for e in subsets(d)]


def import_modes(exports):
    """none, all, every non-empty import list over the exports"""
    return ["none", "all"] + [l for l in subsets(exports) if l]


def layouts(tier="quick"):
    out = []
    for (da, ea) in def_exports():
        for (db, eb) in def_exports():
            for ib in import_modes(ea):
                for du in (subsets(NAMES) if tier == "thorough" else ([], ["p"])):
                    for iua in (import_modes(ea) if tier == "thorough" else
                                ["none", "all"] + ([["p"]] if "p" in ea else [])):
                        for iub in ["t", "all"]:
                            for route in (["file", "text", "ctext"] if iub == "t" else ["file"]):
                                out.append({"da": da, "ea": ea, "db": db, "eb": eb, "ib": ib, "du": du,
                                            "iua": iua, "iub": iub, "route": route})
    return out


NSH = {"quick": 48, "thorough": 48}


def shards(tier):
    n = NSH[tier]
    return [("lay", i, n) for i in range(n)] + [("meta", i, 4) for i in range(4)]


# ---------------------------------------------------------------------------
# program text

PATTERNS = [
    # (id, goal template over {x}=predicate name, {a}=module a, {R}, kind)
    ("unq", "{x}({R})", "ctx"),
    ("qual_a", "{a}:{x}({R})", "qa"),
    ("qual_b", "{b}:{x}({R})", "qb"),
    ("call", "call({x}({R}))", "ctx"),
    ("callvar", "G = {x}({R}), call(G)", "ctx"),
    ("call_qual", "call({a}:{x}({R}))", "qa"),
    ("qual_call", "{a}:call({x}({R}))", "silent"),
    ("meta", "c42_run({x}({R}))", "ctx"),
    ("meta_qualarg", "c42_run({a}:{x}({R}))", "qa"),
    ("qual_meta", "c42h:c42_run({x}({R}))", "silent"),
    ("maplist", "maplist({x}, [{R}])", "ctx"),
    ("findall", "findall(R0, {x}(R0), [{R}])", "ctx"),
    ("call2", "call({x}, {R})", "ctx"),
    ("qual_nested", "{b}:{a}:{x}({R})", "qa"),          # the innermost qualification names the module
    ("call_qual_nested", "call({b}:{a}:{x}({R}))", "qa"),
]


def names(tag):
    return {"a": "a_" + tag, "b": "b_" + tag, "p": "p_" + tag, "q": "q_" + tag, "t": "t_" + tag, "d": "d_" + tag, "z": "z_" + tag}


def pi(nm, x):
    return "%s/1" % nm[x]


def import_directive(path, mode, nm, extra=None):
    if mode == "none":
        if extra:
            return ":- use_module('%s', [%s]).\n" % (path, ",".join(extra))
        return ""
    if mode in ("all",):
        return ":- use_module('%s').\n" % path
    if mode == "t":
        return ":- use_module('%s', [%s]).\n" % (path, ",".join(extra))
    lst = [pi(nm, x) for x in mode] + (extra or [])
    return ":- use_module('%s', [%s]).\n" % (path, ",".join(lst))


def texts(lay, tag, hpath):
    nm = names(tag)
    apath = "%s/%s" % (DIR, nm["a"])
    bpath = "%s/%s" % (DIR, nm["b"])
    a = ":- module(%s, [%s]).\n" % (nm["a"], ",".join([pi(nm, x) for x in lay["ea"]] + ["%s/0" % nm["z"]]))
    a += "%s.\n" % nm["z"]
    a += ":- dynamic(%s/1).\n" % nm["d"]
    for x in lay["da"]:
        a += "%s(%s).\n" % (nm[x], "a")
    b = ":- module(%s, [%s]).\n" % (nm["b"], ",".join([pi(nm, x) for x in lay["eb"]] + ["%s/3" % nm["t"]]))
    b += ":- use_module(library(lists)).\n:- use_module('%s').\n" % hpath
    b += import_directive(apath, lay["ib"], nm)
    b += ":- dynamic(%s/1).\n" % nm["d"]
    for x in lay["db"]:
        b += "%s(%s).\n" % (nm[x], "b")
    for x in NAMES:
        for (pid, tmpl, kind) in PATTERNS:
            b += "%s(%s, %s, R) :- %s.\n" % (nm["t"], x, pid, tmpl.format(x=nm[x], a=nm["a"], b=nm["b"], R="R"))
    u = ""
    if lay["route"] == "file":
        u += import_directive(bpath, lay["iub"], nm, extra=["%s/3" % nm["t"]])
    u += import_directive(apath, lay["iua"], nm, extra=["%s/0" % nm["z"]] if lay["iua"] == "none" else None)
    for x in lay["du"]:
        u += "%s(%s).\n" % (nm[x], "user")
    return a, b, u


# ---------------------------------------------------------------------------
# the oracle (resolution function of the statement)

def defs(lay, mod):
    return {"a": lay["da"], "b": lay["db"], "user": lay["du"]}[mod]


def imports(lay, mod, x):
    """modules from which `mod` imports name x (honouring export and import lists)"""
    out = []

    def via(mode, exports, src):
        if mode == "all" and x in exports:
            out.append(src)
        elif isinstance(mode, list) and x in mode and x in exports:
            out.append(src)
    if mod == "b":
        via(lay["ib"], lay["ea"], "a")
    elif mod == "user":
        via(lay["iua"], lay["ea"], "a")
        via("all" if lay["iub"] == "all" else "none", lay["eb"], "b")
    return out


def resolve_ctx(lay, ctx, x):
    """unqualified call of x inside ctx -> module atom | 'existence' | ('silent', why)"""
    if x in defs(lay, ctx):
        return ctx
    im = imports(lay, ctx, x)
    if len(im) == 1:
        return im[0]
    if len(im) > 1:
        return ("silent", "imported-from-two-modules")
    return "existence"


def resolve_qual(lay, m, x):
    if x in defs(lay, m):
        return m
    im = imports(lay, m, x)
    if im:
        return ("silent", "qualified-call-of-imported-predicate")
    return "existence"


def expectation(lay, ctx, x, kind):
    if kind == "silent":
        return ("silent", "meta-call-qualified-as-a-whole")
    if kind == "ctx":
        return resolve_ctx(lay, ctx, x)
    if kind == "qa":
        return resolve_qual(lay, "a", x)
    if kind == "qb":
        return resolve_qual(lay, "b", x)
    raise ValueError(kind)


def n_defining(lay, x):
    return sum(1 for m in ("a", "b", "user") if x in defs(lay, m))


# ---------------------------------------------------------------------------
# execution

def tag_of(lay, idx):
    return "%d%s" % (idx, lay["route"][0])   # f / t / c


def hpath_of():
    return "%s/c42h_%d" % (DIR, os.getpid())


HELPER = """:- module(c42h, [c42_run/1]).
:- meta_predicate(c42_run(0)).
c42_run(G) :- call(G).
"""


def setup(w, tier):
    w._c42_hpath = hpath_of()
    w.put_file(w._c42_hpath + ".pl", HELPER.encode())
    # loaded through the ordinary consult so that it is re-applied after a restart
    w.consult(":- use_module(library(lists)).\n:- use_module('%s').\n" % w._c42_hpath, persist=True)


def load_layout(w, lay, idx):
    tag = tag_of(lay, idx)
    nm = names(tag)
    a, b, u = texts(lay, tag, w._c42_hpath)
    w.put_file("%s/%s.pl" % (DIR, nm["a"]), a.encode())
    noise = []
    problem = None
    if lay["route"] == "file":
        w.put_file("%s/%s.pl" % (DIR, nm["b"]), b.encode())
    else:
        if lay["route"] == "text":
            r = safe_rpc(w, {"op": "consult", "text": b, "module": nm["b"], "mode": "load"})   # load_module_string
        else:
            r = safe_consult(w, b)                                                           # consult_module_string
        noise += r.get("noise", [])
        if r.get("out", "").strip() or r.get("err", "").strip() or "panic" in r:
            problem = (r.get("out", "") + r.get("err", "") + str(r.get("panic", "")))[:300]
    if u.strip():
        r = safe_consult(w, u)
        noise += r.get("noise", [])
        if r.get("out", "").strip() or r.get("err", "").strip() or "panic" in r:
            problem = (problem or "") + (r.get("out", "") + r.get("err", "") + str(r.get("panic", "")))[:300]
    if problem:
        return nm, {"load_problem": problem, "noise": noise}
    return nm, {"noise": noise}


def calls(lay, nm):
    """-> list of (ctx, x, pattern id, kind, goal text)"""
    out = []
    for x in NAMES:
        for (pid, tmpl, kind) in PATTERNS:
            # from inside b, through the exported test predicate (qualified: user may not import it under route text? it does)
            out.append(("b", x, pid, kind, "g(%s:%s(%s, %s, R))" % (nm["b"], nm["t"], x, pid)))
            out.append(("user", x, pid, kind, "g((%s))" % tmpl.format(x=nm[x], a=nm["a"], b=nm["b"], R="R")))
    return out


def observe(res):
    if res.abn:
        return ("abnormal", res.abn)
    if res.status == "exc":
        f = res.formal()
        if isinstance(f, tuple) and f[0] == "existence_error" and f[1] == "procedure":
            pi_ = f[2]
            if isinstance(pi_, tuple) and pi_[0] == ":" and len(pi_) == 3:
                pi_ = pi_[2]
            if isinstance(pi_, tuple) and pi_[0] == "/" and len(pi_) == 3:
                return ("existence", "%s/%s" % (pi_[1], pi_[2]))
            return ("existence", px.terms.show(f[2]))
        return ("error", px.formal_sig(f))
    vals = [s.get("R") for s in res.sols]
    if len(vals) == 1 and vals[0] in ("a", "b", "user"):
        return ("def", vals[0])
    if not vals:
        return ("fails", "")
    return ("other", px.terms.show(vals[0]) + ("" if len(vals) == 1 else " x%d" % len(vals)))


def judge_layout(w, lay, idx):
    """-> list of (nontrivial, label, violation or None, sample)"""
    nm, info = load_layout(w, lay, idx)
    out = []
    if "load_problem" in info:
        import re
        m = re.search(r"error\((.*)\)\.?\s*$", info["load_problem"].strip(), re.S)
        what = re.sub(r"\s+", " ", m.group(1)) if m else "output"
        what = re.sub(r"\d+[ft]", "N", what)
        sig = "load route=%s b-imports=%s user-imports-a=%s problem=%s" % (
            lay["route"], "list" if isinstance(lay["ib"], list) else lay["ib"],
            "list" if isinstance(lay["iua"], list) else lay["iua"], what[:120])
        out.append((False, "load-problem", (sig, "loads silently", info["load_problem"], {"which": "load"}), None))
    cl = calls(lay, nm)
    extra = ["g((assertz(%s:%s(1)), findall(X, %s:%s(X), R)))" % (nm["a"], nm["d"], nm["b"], nm["d"]),
             "g(findall(X, %s:%s(X), R))" % (nm["a"], nm["d"])]
    rs = px.run_goals(w, [c[4] for c in cl] + extra)
    for (ctx, x, pid, kind, goal), r in zip(cl, rs):
        exp = expectation(lay, ctx, x, kind)
        obs = observe(r)
        nt = n_defining(lay, x) >= 2
        sample = {"layout": lay, "context": ctx, "goal": goal[2:-1].replace(tag_of(lay, idx), "N"), "expected": str(exp),
                  "observed": "%s %s" % obs}
        if isinstance(exp, tuple):
            out.append((nt, "silent:%s:%s" % (exp[1], obs[0] if obs[0] != "def" else "runs-a-definition"), None, sample))
            continue
        want = ("existence",) if exp == "existence" else ("def", exp)
        ok = (obs[0] == "existence" and exp == "existence" and pi_matches(obs[1], nm[x])) or obs == want
        label = "existence_error" if exp == "existence" else "%s-runs-%s%s" % (
            ctx, "own" if exp == ctx else "imported" if kind == "ctx" else "qualified",
            "" if pid in ("unq", "qual_a", "qual_b") else "/meta")
        viol = None
        if not ok:
            sig = "%s from=%s exp=%s obs=%s route=%s" % (pid, ctx, "existence_error" if exp == "existence" else
                                                         rel(exp, ctx), obs_rel(obs, ctx, nm[x]), lay["route"])
            viol = (sig, str(exp), "%s %s" % obs, {"ctx": ctx, "x": x, "pid": pid})
        out.append((nt, label, viol, sample))
    # independence of same-name dynamic predicates
    r1, r2 = rs[len(cl)], rs[len(cl) + 1]
    v1 = r1.sols[0].get("R") if r1.status == "done" and len(r1.sols) == 1 else None
    v2 = r2.sols[0].get("R") if r2.status == "done" and len(r2.sols) == 1 else None
    ok = v1 == "[]" and v2 == (".", 1, "[]")
    viol = None
    if not ok:
        viol = ("independence dynamic obs-b=%s obs-a=%s" % (px.terms.show(v1) if v1 is not None else r1.status,
                                                          px.terms.show(v2) if v2 is not None else r2.status),
                "b:d -> [], a:d -> [1]", "%r %r" % (r1, r2), {"which": "indep"})
    out.append((True, "independent-dynamic", viol, None))
    return out


def rel(m, ctx):
    return "own" if m == ctx else m


def obs_rel(obs, ctx, name=None):
    if obs[0] == "def":
        return "runs-" + rel(obs[1], ctx)
    if obs[0] in ("existence",):
        if name is not None and obs[1] != name + "/1":
            import re
            return "existence_error(%s)" % re.sub(r"_\d+[ftc]", "_N", obs[1])
        return "existence_error"
    if obs[0] == "error":
        return "error:" + obs[1]
    return obs[0]


def pi_matches(txt, name):
    return txt == name + "/1"


# ---------------------------------------------------------------------------
# meta-declaration family: module a exports mp/2 declared meta_predicate mp(0, ?), a plain mq/2 and
# other/0; module b imports from a (not at all / everything / each import list, also one that names
# only other/0) and defines its own PLAIN mp/2 and/or mq/2. Every definition returns its raw first
# argument, so an unwanted module qualification of the argument is observable.

META_IMPORTS = ["none", "all", ["other"], ["mq"], ["mp"], ["mp", "mq"], ["mp", "mq", "other"]]


def meta_layouts():
    out = []
    for imp in META_IMPORTS:
        for db in subsets(["mp", "mq"]):
            for meta_first in (False, True):       # is b loaded before or after user imported a?
                out.append({"meta": True, "imp": imp, "db": db, "user_imports_a_first": meta_first})
    return out


def meta_names(tag):
    return {"a": "ma_" + tag, "b": "mb_" + tag, "mp": "mp_" + tag, "mq": "mq_" + tag, "other": "mo_" + tag,
            "t": "mt_" + tag}


META_ARITY = {"mp": 2, "mq": 2, "other": 0}

META_CALLS = [
    ("unq", "{x}(job, R)"),
    ("qual_b", "{b}:{x}(job, R)"),
    ("qual_a", "{a}:{x}(job, R)"),
    ("call", "call({x}(job, R))"),
    ("callvar", "G = {x}(job, R), call(G)"),
    ("call3", "call({x}, job, R)"),
]


def meta_texts(lay, tag):
    nm = meta_names(tag)
    apath = "%s/%s" % (DIR, nm["a"])
    a = ":- module(%s, [%s/2, %s/2, %s/0]).\n" % (nm["a"], nm["mp"], nm["mq"], nm["other"])
    a += ":- meta_predicate(%s(0, ?)).\n" % nm["mp"]
    a += "%s(G, a(G)).\n%s(G, a(G)).\n%s.\n" % (nm["mp"], nm["mq"], nm["other"])
    b = ":- module(%s, [%s/3]).\n" % (nm["b"], nm["t"])
    imp = lay["imp"]
    if imp == "all":
        b += ":- use_module('%s').\n" % apath
    elif imp != "none":
        b += ":- use_module('%s', [%s]).\n" % (apath, ",".join("%s/%d" % (nm[x], META_ARITY[x]) for x in imp))
    for x in lay["db"]:
        b += "%s(G, b(G)).\n" % nm[x]
    for x in ("mp", "mq"):
        for (pid, tmpl) in META_CALLS:
            b += "%s(%s, %s, R) :- %s.\n" % (nm["t"], x, pid, tmpl.format(x=nm[x], a=nm["a"], b=nm["b"]))
    bpath = "%s/%s" % (DIR, nm["b"])
    if lay["user_imports_a_first"]:
        u = ":- use_module('%s').\n:- use_module('%s').\n" % (apath, bpath)
    else:
        u = ":- use_module('%s').\n:- use_module('%s', [%s/0]).\n" % (bpath, apath, nm["other"])
    return nm, a, b, u


def meta_expect(lay, ctx, x, pid):
    """-> ('silent', why) | ('existence',) | (definer, set of acceptable argument shapes)"""
    imp = lay["imp"]
    b_imports = imp == "all" or (isinstance(imp, list) and x in imp)
    b_defines = x in lay["db"]
    if pid == "qual_a":
        target = "a"
    elif pid == "qual_b" or ctx == "b":
        if b_defines and b_imports:
            return ("silent", "b-defines-and-imports-the-same-name")
        target = "b" if b_defines else "a" if b_imports else None
        if target == "a" and pid == "qual_b":
            return ("silent", "qualified-call-of-imported-predicate")
    else:   # unqualified from user
        target = "a" if (lay["user_imports_a_first"] ) else None
    if target is None:
        return ("existence",)
    if target == "b":
        return ("b", {"job"})                     # a plain local definition sees its argument unqualified
    if x == "mq":
        return ("a", {"job"})                     # plain predicate of a
    if pid == "qual_a":
        return ("silent", "meta-call-qualified-as-a-whole")
    return ("a", {"job", ctx + ":job"})           # declared meta argument: caller's module, representation free


def judge_meta(w, lay, idx):
    tag = "%dm" % idx
    nm, a, b, u = meta_texts(lay, tag)
    w.put_file("%s/%s.pl" % (DIR, nm["a"]), a.encode())
    w.put_file("%s/%s.pl" % (DIR, nm["b"]), b.encode())
    r = safe_consult(w, u)
    out = []
    if r.get("out", "").strip() or r.get("err", "").strip() or "panic" in r:
        out.append((False, "load-problem", ("meta-family load problem", "loads silently",
                                            (r.get("out", "") + r.get("err", ""))[:300], {"which": "load"}), None))
    cl = []
    for x in ("mp", "mq"):
        for (pid, tmpl) in META_CALLS:
            cl.append(("b", x, pid, "g(%s:%s(%s, %s, R))" % (nm["b"], nm["t"], x, pid)))
            cl.append(("user", x, pid, "g((%s))" % tmpl.format(x=nm[x], a=nm["a"], b=nm["b"])))
    rs = px.run_goals(w, [c[3] for c in cl])
    for (ctx, x, pid, goal), res in zip(cl, rs):
        exp = meta_expect(lay, ctx, x, pid)
        # observation: who answered, and the shape of the argument it saw
        if res.abn:
            obs = ("abnormal", res.abn)
        elif res.status == "exc":
            f = res.formal()
            obs = ("existence",) if isinstance(f, tuple) and f[:2] == ("existence_error", "procedure") else ("error", px.formal_sig(f))
        elif len(res.sols) == 1 and isinstance(res.sols[0].get("R"), tuple) and res.sols[0]["R"][0] in ("a", "b"):
            arg = res.sols[0]["R"][1]
            if isinstance(arg, tuple) and arg[0] == ":" and len(arg) == 3:
                shape_ = "%s:job" % ({nm["a"]: "a", nm["b"]: "b"}.get(arg[1], arg[1])) if arg[2] == "job" else "other"
            else:
                shape_ = "job" if arg == "job" else "other"
            obs = (res.sols[0]["R"][0], shape_)
        else:
            obs = ("other", str(res.sols)[:80])
        sample = {"layout": lay, "context": ctx, "goal": goal[2:-1].replace(tag, "N"), "expected": str(exp), "observed": str(obs)}
        if exp[0] == "silent":
            out.append((True, "meta-family:silent:%s" % exp[1], None, sample))
            continue
        if exp[0] == "existence":
            ok = obs == ("existence",)
            label = "meta-family:existence_error"
            want = "existence_error"
        else:
            ok = obs[0] == exp[0] and len(obs) == 2 and obs[1] in exp[1]
            label = "meta-family:%s-%s-argument-%s" % (exp[0], "meta" if len(exp[1]) > 1 else "plain",
                                                       obs[1] if ok else "wrong")
            want = "%s sees %s" % (exp[0], "|".join(sorted(exp[1])))
        viol = None
        if not ok:
            sig = "meta-family %s %s from=%s b-imports-it=%s b-defines-it=%s user-imported-a-first=%s exp=%s obs=%s" % (
                x, pid, ctx, "yes" if (lay["imp"] == "all" or (isinstance(lay["imp"], list) and x in lay["imp"])) else "no",
                "yes" if x in lay["db"] else "no", "yes" if lay["user_imports_a_first"] else "no",
                want, " ".join(str(o) for o in obs))
            viol = (sig, want, " ".join(str(o) for o in obs), {"ctx": ctx, "x": x, "pid": pid})
        out.append((True, label, viol, sample))
    return out


def run_shard(w, shard, tier):
    if shard[0] == "meta":
        return run_meta_shard(w, shard, tier)
    _, idx, n = shard
    acc = px.ShardAcc(max_viol=1000)
    done = 0
    for k, lay in enumerate(layouts(tier)):
        if k % n != idx:
            continue
        done += 1
        if done % 40 == 0:
            w.new_machine()   # bound the growth of the module table / user module
        for (nt, label, viol, sample) in judge_layout(w, lay, k):
            acc.case(nt, label, sample=sample)
            if viol:
                sig, exp, obs, which = viol
                if acc._per_sig[sig] >= 1:
                    acc._per_sig[sig] += 1
                    acc.nviol += 1
                else:
                    acc.violation(sig, {"layout": lay, "index": k, "which": which}, expected=exp, observed=obs)
        acc.extra["layouts"] += 1
    return acc.result()


def run_meta_shard(w, shard, tier):
    _, idx, n = shard
    acc = px.ShardAcc(max_viol=1000)
    for k, lay in enumerate(meta_layouts()):
        if k % n != idx:
            continue
        for (nt, label, viol, sample) in judge_meta(w, lay, k):
            acc.case(nt, label, sample=sample)
            if viol:
                sig, exp, obs, which = viol
                acc.violation(sig, {"layout": lay, "index": k, "which": which}, expected=exp, observed=obs)
        acc.extra["meta_family_layouts"] += 1
    return acc.result()


def recheck(w, case, tier):
    lay = case["layout"]
    which = case["which"]
    judge_fn = judge_meta if lay.get("meta") else judge_layout
    for (nt, label, viol, sample) in judge_fn(w, lay, case["index"]):
        if not viol:
            continue
        sig, exp, obs, wh = viol
        if wh == which:
            return {"sig": sig, "case": case, "expected": exp, "observed": obs}
    return None
