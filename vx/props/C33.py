"""C33 — heap writes never exceed the reserved capacity (DESIGN §6 C33).

Engine RMC-heap: harness/src/bin/mc_heap.rs drives the real Heap (hook H4,
VerifHeap) through every sequence of operations up to a depth bound, where
before *each* operation the free space is set to exactly k cells for every k in
the level alphabet (so every operation is exercised at exact fit, one cell
short, and with room to spare), in both growth modes (doubling / one-cell
"tight" growth, hook H3). Every allocation of the process sits between 256-byte
canary zones (a global allocator in the harness binary); after every operation
the canaries of the heap's block and byte_len <= byte_cap are checked, and
strings / copied cells are read back.
"""
import json
import os
import subprocess

from vx.core import pool, px

ID = "C33"
LEVEL = "model_checking"
ENGINE = "RMC-heap"
BINS = ("pworker", "mc_heap")
NEEDS_WORKER = False
TECHNIQUE = ("explicit enumeration of all heap operation sequences x free-space levels on the real Heap "
             "under a red-zone (canary) allocator; invariant checked after every operation")
RULE = ("all sequences of length d over 55 operations {push_cell, allocate_pstr/cstr of ASCII strings of 0..24 bytes, "
        "multi-byte and NUL-containing strings, copy_pstr_within, copy_slice_to_end, append(0..3 cells), "
        "reserve+fill(0..3), truncate} x a free-space level in cells chosen before every operation "
        "(0..8 for d<=2; {0,1,2,8} for d=3) x growth mode {doubling, one-cell}. Non-trivial: the operation writes at "
        "least as many bytes as were free (exact fit or growth).")
LEVEL_TEXT = ("every operation sequence up to the depth bound is executed on the real heap code at every free-space "
              "level; an out-of-bounds write of up to 256 bytes past either end of any allocation is caught by canaries")
ASSUMPTIONS = ["writes that land more than 256 bytes outside a block are not caught by the canaries (they would usually crash the explorer, which is reported as a machinery failure, not as a pass)",
               "the operation alphabet covers the Heap entry points that take a length from their argument; functor_writer is exercised only through the full-machine checks"]
MIN_OUTCOMES = 4
MC = os.path.join(pool.BUILD, "release", "mc_heap")
NSH = 16


def bound_text(tier):
    return "operation sequences of depth <= %d, free levels per op, both growth modes" % (3 if tier == "thorough" else 2)


def shards(tier):
    sh = []
    depths = [1, 2] + ([3] if tier == "thorough" else [])
    for d in depths:
        n = 1 if d == 1 else NSH if d == 3 else 4
        for mode in ("", "tight"):
            for i in range(n):
                sh.append([d, i, n, mode])
    sh.sort(key=lambda s: -s[0])
    return sh


def run_shard(w, shard, tier):
    d, i, n, mode = shard
    args = [MC, "explore", str(d), str(i), str(n)] + ([mode] if mode else [])
    p = subprocess.run(args, capture_output=True, timeout=3000)
    if p.returncode != 0:
        raise pool.MachineryError("mc_heap exited %d: %s" % (p.returncode, p.stderr.decode()[-400:]))
    r = json.loads(p.stdout.decode())
    acc = px.ShardAcc()
    acc.evals = r["executions"]
    acc.nontrivial = r["nontrivial"]
    acc.states = r["distinct_outcomes"]
    acc.transitions = r["executions"] * d
    acc.outcomes["ok"] = r["executions"] - r["nviol"]
    acc.outcomes["final_layouts_d%d_%s_%d" % (d, mode or "dbl", i)] = r["distinct_outcomes"]
    acc.samples.append({"depth": d, "mode": mode or "doubling", "executions": r["executions"],
                        "example": "levels 0,1 ops pstr:61616161616161;copypstr"})
    for v in r["violations"]:
        acc.violation("heap: " + v["sig"] + " after " + v["ops"].split(";")[-1].split(":")[0],
                      {"levels": v["levels"], "tight": v["tight"], "ops": v["ops"]}, observed=v["observed"])
    acc.nviol = r["nviol"]
    return acc.result()


def recheck(w, case, tier):
    p = subprocess.run([MC, "replay", case["levels"], "1" if case["tight"] else "0", case["ops"]],
                       capture_output=True, timeout=60)
    if p.returncode != 0:
        return {"sig": "heap: replay crashed rc=%d" % p.returncode, "case": case, "observed": p.stderr.decode()[-200:]}
    r = json.loads(p.stdout.decode())
    if r["violation"] is None:
        return None
    import re
    sig = re.sub(r"\d+", "N", r["violation"])
    return {"sig": "heap: " + sig + " after " + case["ops"].split(";")[-1].split(":")[0], "case": case,
            "observed": r["violation"]}
