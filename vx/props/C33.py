"""C33 — heap writes never exceed the reserved capacity (DESIGN §6 C33).

Engine RMC-heap: harness/src/bin/mc_heap.rs drives the real Heap (hook H4,
VerifHeap) through every sequence of operations up to a depth bound, where
before *each* operation the free space is set to exactly k cells for every k in
the level alphabet (so every operation is exercised at exact fit, one cell
short, and with room to spare), in both growth modes (doubling / one-cell
"tight" growth, hook H3). Every allocation of the process sits between 256-byte
canary zones (a global allocator in the harness binary); after every operation
the canaries of the heap's block and byte_len <= byte_cap are checked, and
strings / copied cells are read back.
"""
import json
import os
import subprocess

from vx.core import pool, px, terms

ID = "C33"
LEVEL = "model_checking"
ENGINE = "RMC-heap"
BINS = ("pworker", "mc_heap")
NEEDS_WORKER = False
TECHNIQUE = ("explicit enumeration of all heap operation sequences x free-space levels on the real Heap "
             "under a red-zone (canary) allocator; invariant checked after every operation")
RULE = ("all sequences of length d over 59 operations {sized_iter_to_heap_list of 0..3 elements, push_cell, allocate_pstr/cstr of ASCII strings of 0..24 bytes, "
        "multi-byte and NUL-containing strings, copy_pstr_within, copy_slice_to_end, append(0..3 cells), "
        "reserve+fill(0..3), truncate} x a free-space level in cells chosen before every operation "
        "(0..8 for d<=2; {0,1,2,8} for d=3) x growth mode {doubling, one-cell}. Non-trivial: the operation writes at "
        "least as many bytes as were free (exact fit or growth). Machine families (pworker under the canary allocator, "
        "one-cell growth and exact reservations: every Heap::reserve gives back the free cells beyond the reservation): "
        "12 string operations x strings of 0..25 bytes x 3 kinds x 8 heap paddings, and 22 general workloads (lists, copying, "
        "findall/bagof/setof, assert, text conversion, bignums, the reader and writer, sorting, attributed variables, univ, "
        "format_//2, assoc, error terms, blackboard, partial strings, DCGs), each compared with its run under ordinary growth; "
        "thorough: the complete quick spaces of the modules C20, C14, C13, C22, C23 re-run in such a worker (memory safety only).")
LEVEL_TEXT = ("every operation sequence up to the depth bound is executed on the real heap code at every free-space "
              "level; an out-of-bounds write of up to 256 bytes past either end of any allocation is caught by canaries")
ASSUMPTIONS = ["writes that land more than 256 bytes outside a block are not caught by the canaries (they would usually crash the explorer, which is reported as a machinery failure, not as a pass)",
               "the operation alphabet covers the Heap entry points that take a length from their argument; functor_writer is exercised only through the full-machine checks"]
MIN_OUTCOMES = 4
MC = os.path.join(pool.BUILD, "release", "mc_heap")
NSH = 16


def bound_text(tier):
    return "operation sequences of depth <= %d, free levels per op, both growth modes" % (3 if tier == "thorough" else 2)


def shards(tier):
    sh = []
    depths = [1, 2] + ([3] if tier == "thorough" else [])
    for d in depths:
        n = 1 if d == 1 else NSH if d == 3 else 4
        for mode in ("", "tight"):
            for i in range(n):
                sh.append([d, i, n, mode])
    sh.sort(key=lambda s: -s[0])
    for pad in range(8):
        sh.append(["machine", pad])
    sh.append(["machine", "wl"])
    if tier == "thorough":
        # corpus family: the complete quick spaces of other properties' modules (strings against lists,
        # atom/char builtins, term ordering, sorting, term inspection) re-run in a worker with the canary
        # allocator, one-cell growth and exact reservations; only memory safety is judged here
        import importlib
        for mn in CORPUS:
            n = len(list(importlib.import_module("vx.props." + mn).shards("quick")))
            for i in range(n):
                sh.append(["corpus", mn, i])
    return sh


CORPUS = ["C20", "C14", "C13", "C22", "C23"]


def run_corpus(shard):
    import importlib
    _, mn, i = shard
    M = importlib.import_module("vx.props." + mn)
    msh = list(M.shards("quick"))[i]
    acc = px.ShardAcc()
    w = pool.Worker(extra_env={"PW_REDZONE": "1", "PW_EXACT": "1"}, **getattr(M, "WORKER_KWARGS", {}))
    try:
        if not w.rpc({"op": "rz"}).get("enabled"):
            raise pool.MachineryError("pworker red zone not enabled")
        if hasattr(M, "setup"):
            M.setup(w, "quick")
        r = M.run_shard(w, msh, "quick")
        px.run_goals(w, ["length(L, 5000)"])     # growth verifies the canaries of the old block
        smashed = w.rpc({"op": "rz"}).get("smashed", 0)
        acc.evals = r.get("evals", 0)
        acc.nontrivial = r.get("evals", 0)
        acc.outcomes["corpus_%s_clean" % mn] = r.get("evals", 0)
        if w.restarts:
            acc.outcomes["corpus_worker_restarts"] = w.restarts
        if smashed:
            acc.violation("corpus: write outside an allocated block (canary overwritten) while running the quick space of %s" % mn,
                          {"kind2": "corpus", "mod": mn, "i": i}, observed="smashed=%d shard=%r" % (smashed, msh))
        return acc.result()
    finally:
        w.close()


# --- full machine under one-cell growth and the canary allocator ---------------
# string workloads at every byte length 0..25 (every residue mod 8 on both sides
# of the 8/16/24-byte cell boundaries), each after padding the heap with 0..7
# cells, with tight growth (free space is always exactly what was asked for)
# in a pworker whose allocator surrounds every block with canaries (PW_REDZONE).

MACHINE_OPS = [
    "copy_term(f(S, S, g(S)), C), C = f(S2, _, _), S2 == S",
    "atom_chars(A, S), atom_chars(A, S2), S2 == S",
    "append(S, \"xyz\", L), append(S0, \"xyz\", L), S0 == S",
    "findall(S, member(_, [1,2]), L), L = [S1, S2], S1 == S, S2 == S",
    "(retractall(c33(_)), assertz(c33(S)), c33(S2), retract(c33(_)), S2 == S)",
    "T =.. [foo, S, S], T = foo(S2, _), S2 == S",
    "(S = [_|T] -> copy_term(T, T2), T2 == T ; true)",
    "(S = [_,_,_|T] -> copy_term(h(T, S), h(T2, S2)), T2 == T, S2 == S ; true)",
    "length(S, N), length(S2, N), S2 = S",
    "bb_put(c33k, S), bb_get(c33k, S2), S2 == S",
    "catch(throw(ball(S)), ball(S2), true), S2 == S",
    "sort([S, \"a\", S], L), msort33([S, S], L2), L2 = [S, S]",
]
MACHINE_HELPER = ":- dynamic(c33/1).\nmsort33(L, L).\n:- use_module(library(lists)).\n:- use_module(library(iso_ext)).\n"


# general workloads (lists, copying, findall/bagof, assert, text conversion, bignums, the reader, sorting,
# attributed variables, univ, the toplevel-style writers): under exact reservations every reserve-then-write
# site they execute is an exact fit, so these need no particular fill level
WL_HELPER = r"""
:- use_module(library(between)).
:- use_module(library(freeze)).
:- use_module(library(dif)).
:- use_module(library(charsio)).
:- use_module(library(format)).
:- use_module(library(assoc)).
:- dynamic(w33/1).
num33(N, N, [N]) :- !.
num33(I, N, [I|T]) :- I < N, I1 is I + 1, num33(I1, N, T).
"""
WL_GOALS = [
    "num33(1, 60, L)",
    "T = f(X, g(Y, X), \"a string\", [1,2,3|Z], h(Y, \"more\")), copy_term(T, C)",
    "findall(X-Y, (between(1, 12, X), Y is X * X), L)",
    "(retractall(w33(_)), assertz(w33(f(1,\"s\"))), assertz(w33(g(2))), findall(X, w33(X), L), retractall(w33(_)))",
    "atom_chars(abcdefghij, C1), append(C1, \"klmnop\", L), atom_chars(A, L), number_chars(N, \"123456789012345678901234567890\")",
    "X is 7 ^ 80 + 3 ^ 70, Y is X // (2 ^ 64) + 1 rdiv 3",
    "read_term_from_chars(\"foo(Bar, [1,2,3|Baz], \\\"str\\\", 'q a', 1.5e10, g(Bar)).\", T, [])",
    "sort([c,a,b,a,d,f(x),\"s\",1.0,1], L), keysort([2-a,1-b,2-c,1-d], K), msort33([3,1,2], D)",
    "findall(X-L, bagof(Y, member(X-Y,[1-a,2-b,1-c,2-d]), L), Ls), setof(A-B, member(A-B,[2-x,1-y,2-x]), S)",
    "freeze(X, Y = 1), dif(Z, a), X = 2, Z = b, copy_term(f(P,Q), C, Gs)",
    "T =.. [foo, 1, \"ab\", X, g(X)], functor(T, F, A), functor(N, bar, 7), N =.. Lx",
    "length(L, 40), length(M, 3), append(M, L, ML), msort33(ML, ML2)",
    "atom_chars(A, \"h\\xe9\\llo w\\x20ac\\rld\"), atom_length(A, N), sub_atom(A, 2, 5, _, S), atom_concat(S, A, AA), atom_codes(AA, Codes)",
    "number_chars(N, \"0x1F\"), number_chars(M, \" 12\"), number_codes(F, [0'3,0'.,0'5]), number_codes(G, [0'7])",
    "phrase(format_(\"~w ~q ~a ~d ~s ~4f~n~t~w~20|~w\", [f(X), 'a b', abc, 42, \"str\", 1.5, right, g]), Cs), length(Cs, N)",
    "write_term_to_chars(f('A b', \"str\", [1,2|T], 'x'(Y), - 1, 1 - 2, {a,b}), [quoted(true)], Cs), append(Cs, \" .\", Cs1), read_term_from_chars(Cs1, R, [])",
    "list_to_assoc([a-1,b-2,c-3], As), put_assoc(d, As, 4, As2), assoc_to_list(As2, L), assoc_to_keys(As2, Ks)",
    "catch(atom_length(X, _), error(E, Ctx), true), catch(arg(x, f(a), _), error(E2, _), true), catch(throw(f(\"ball\", [1,2,3], 10000000000000000000000)), B, true)",
    "bb_put(k33, f(\"s\", [1,2], X)), bb_get(k33, V), bb_b_put(k33b, g(\"t\")), bb_get(k33b, W)",
    "partial_string(\"abcdefghijk\", S, T), T = \"lmn\", atom_chars(A, S), S = [H|Rest], copy_term(Rest, R2)",
    "phrase(seq33(Xs), \"abc\", Rest), findall(Xs-Rest, phrase(seq33(Xs), \"ab\", Rest), L)",
    "copy_term(f(X,Y,g(Z,X)), T), term_variables(T, Vs), length(Vs, NV)",
]
WL_HELPER += "seq33([]) --> [].\nseq33([X|Xs]) --> [X], seq33(Xs).\nmsort33(L, L).\n:- use_module(library(lists)).\n:- use_module(library(iso_ext)).\n:- use_module(library(dcgs)).\n"


def run_workloads():
    """each workload once with ordinary growth (reference) and once under exact reservations + one-cell
    growth with the canary allocator: same answer, no canary touched, no abnormal end"""
    acc = px.ShardAcc()
    for i, g in enumerate(WL_GOALS):
        v = recheck_workload(i)
        acc.case(True, "workload_ok" if v is None else "workload_bad", sample={"goal": g})
        if v:
            acc.violation(v["sig"], v["case"], observed=v["observed"])
    return acc.result()


def recheck_workload(i):
    g = WL_GOALS[i]
    case = {"kind2": "machine", "wl": i}
    w = pool.Worker(extra_env={"PW_REDZONE": "1"})
    try:
        w.consult(WL_HELPER, persist=True)
        ref = px.run_goals(w, ["g((%s))" % g])[0]
        if ref.abn or ref.status != "done":
            raise pool.MachineryError("C33 workload %d: reference run: %r" % (i, ref))
        w.rpc({"op": "tight", "on": True, "exact": True})
        r = px.run_goals(w, ["g((%s))" % g])[0]
        w.rpc({"op": "tight", "on": False})
        px.run_goals(w, ["length(L, 5000)"])
        smashed = w.rpc({"op": "rz"}).get("smashed", 0)
        if smashed:
            return {"sig": "machine: write outside an allocated block (canary overwritten) [workload %d]" % i,
                    "case": case, "observed": "smashed=%d goal=%s" % (smashed, g)}
        if r.abn or r.status != ref.status or len(r.sols) != len(ref.sols):
            return {"sig": "machine: workload %d under exact reservations: %s" % (i, r.abn or "answers differ"),
                    "case": case, "observed": repr(r)[:300]}
        from vx.model import unify as U
        for a, b in zip(r.sols, ref.sols):
            ta = tuple(sorted(a.items(), key=lambda kv: kv[0]))
            tb = tuple(sorted(b.items(), key=lambda kv: kv[0]))
            if not U.variant(("s",) + tuple(v for _, v in ta), ("s",) + tuple(v for _, v in tb)):
                return {"sig": "machine: workload %d under exact reservations: answers differ" % i,
                        "case": case, "observed": {"got": repr(a)[:300], "want": repr(b)[:300]}}
        return None
    finally:
        w.close()


def machine_cases(pad):
    for n in range(0, 26):
        for kind in ("a", "e", "n"):
            if kind == "a":
                s = "a" * n
            elif kind == "e":
                if n < 2:
                    continue
                s = "a" * (n - 2) + "\u00e9"   # ends in a 2-byte character
            else:
                if n < 3:
                    continue
                s = "ab" + "c" * (n - 3) + "d"
            for oi, op in enumerate(MACHINE_OPS):
                goal = "length(Pad, %d), S = %s, %s" % (pad, terms.quote_string(s), op)
                yield {"pad": pad, "len": n, "kind": kind, "op": oi}, goal


def run_machine(shard):
    pad = shard[1]
    if pad == "wl":
        return run_workloads()
    w = pool.Worker(extra_env={"PW_REDZONE": "1"})
    acc = px.ShardAcc()
    try:
        r = w.rpc({"op": "rz"})
        if not r.get("enabled"):
            raise pool.MachineryError("pworker red zone not enabled")
        w.consult(MACHINE_HELPER, persist=True)
        cases = list(machine_cases(pad))
        for batch in px.chunked(cases, 60):
            w.rpc({"op": "tight", "on": True, "exact": True})
            rs = px.run_goals(w, ["g((%s))" % g for (_, g) in batch])
            w.rpc({"op": "tight", "on": False})
            smashed = w.rpc({"op": "rz"}).get("smashed", 0)
            for (c, g), r in zip(batch, rs):
                ok = (not r.abn) and r.status == "done" and len(r.sols) == 1
                acc.case(c["len"] % 8 == 7 or c["len"] % 8 == 0, "machine_ok" if ok else "machine_bad", sample={"goal": g})
                if not ok:
                    acc.violation("machine: %s [op %d]" % (r.abn or "goal did not succeed once (%s, %d solutions)" % (r.status, len(r.sols)), c["op"]),
                                  dict(c, kind2="machine"), observed=repr(r)[:300])
            if smashed:
                # attribute: re-run the batch one case at a time in a fresh worker
                for (c, g) in batch:
                    v = recheck_machine(c)
                    if v:
                        acc.violation(v["sig"], dict(c, kind2="machine"), observed=v["observed"])
                w.close()
                w = pool.Worker(extra_env={"PW_REDZONE": "1"})
                w.consult(MACHINE_HELPER, persist=True)
        return acc.result()
    finally:
        w.close()


def recheck_machine(c):
    if "wl" in c:
        return recheck_workload(c["wl"])
    goal = None
    for cc, g in machine_cases(c["pad"]):
        if cc["len"] == c["len"] and cc["kind"] == c["kind"] and cc["op"] == c["op"]:
            goal = g
    w = pool.Worker(extra_env={"PW_REDZONE": "1"})
    try:
        w.consult(MACHINE_HELPER, persist=True)
        w.rpc({"op": "tight", "on": True, "exact": True})
        r = px.run_goals(w, ["g((%s))" % goal])[0]
        w.rpc({"op": "tight", "on": False})
        # growth and release of the heap verify the canaries of the old blocks
        px.run_goals(w, ["length(L, 5000)"])
        smashed = w.rpc({"op": "rz"}).get("smashed", 0)
        if smashed:
            return {"sig": "machine: write outside an allocated block (canary overwritten) [op %d, len%%8=%d]" % (c["op"], c["len"] % 8),
                    "case": dict(c, kind2="machine"), "observed": "smashed=%d goal=%s" % (smashed, goal)}
        if r.abn or r.status != "done" or len(r.sols) != 1:
            return {"sig": "machine: %s [op %d]" % (r.abn or "goal did not succeed once (%s, %d solutions)" % (r.status, len(r.sols)), c["op"]),
                    "case": dict(c, kind2="machine"), "observed": repr(r)[:300]}
        return None
    finally:
        w.close()


def run_shard(w, shard, tier):
    if shard[0] == "machine":
        return run_machine(shard)
    if shard[0] == "corpus":
        return run_corpus(shard)
    d, i, n, mode = shard
    args = [MC, "explore", str(d), str(i), str(n)] + ([mode] if mode else [])
    p = subprocess.run(args, capture_output=True, timeout=3000)
    if p.returncode != 0:
        raise pool.MachineryError("mc_heap exited %d: %s" % (p.returncode, p.stderr.decode()[-400:]))
    r = json.loads(p.stdout.decode())
    acc = px.ShardAcc()
    acc.evals = r["executions"]
    acc.nontrivial = r["nontrivial"]
    acc.states = r["distinct_outcomes"]
    acc.transitions = r["executions"] * d
    acc.outcomes["ok"] = r["executions"] - r["nviol"]
    acc.outcomes["final_layouts_d%d_%s_%d" % (d, mode or "dbl", i)] = r["distinct_outcomes"]
    acc.samples.append({"depth": d, "mode": mode or "doubling", "executions": r["executions"],
                        "example": "levels 0,1 ops pstr:61616161616161;copypstr"})
    for v in r["violations"]:
        acc.violation("heap: " + v["sig"] + " after " + v["ops"].split(";")[-1].split(":")[0],
                      {"levels": v["levels"], "tight": v["tight"], "ops": v["ops"]}, observed=v["observed"])
    acc.nviol = r["nviol"]
    return acc.result()


def recheck(w, case, tier):
    if case.get("kind2") == "machine":
        return recheck_machine(case)
    if case.get("kind2") == "corpus":
        r = run_corpus(["corpus", case["mod"], case["i"]])
        return dict(r["violations"][0]) if r["violations"] else None
    p = subprocess.run([MC, "replay", case["levels"], "1" if case["tight"] else "0", case["ops"]],
                       capture_output=True, timeout=60)
    if p.returncode != 0:
        return {"sig": "heap: replay crashed rc=%d" % p.returncode, "case": case, "observed": p.stderr.decode()[-200:]}
    r = json.loads(p.stdout.decode())
    if r["violation"] is None:
        return None
    import re
    sig = re.sub(r"\d+", "N", r["violation"])
    return {"sig": "heap: " + sig + " after " + case["ops"].split(";")[-1].split(":")[0], "case": case,
            "observed": r["violation"]}
