"""C21 — atom identity is text identity (DESIGN §6 C21).

Texts around the inline limit (6 bytes), with multi-byte characters, NUL, and
texts equal to predefined atoms, plus one-character neighbours; every text is
created through every applicable path; all ordered pairs of paths for equal
texts and for neighbour texts.  Oracle: A1 == A2 (and A1 = A2) iff the texts
are equal; compare/3 = code-point order; atom_length/atom_codes read the text
back; the atom selects exactly its clause when used as a first-argument key
against compiled (body) atoms.
"""
from vx.core import px
from vx.core.terms import unlist, quote_string
from vx.model import termspace as T

ID = "C21"
LEVEL = "exploration"
ENGINE = "PEX"
TECHNIQUE = "bounded exhaustive enumeration of atom texts x creation paths, pairwise identity and order against Python str"
LEVEL_TEXT = ("input-space exploration: atom identity is a function of the text and the creation path; all texts of a "
              "boundary alphabet x all pairs of creation paths are executed")
RULE = ("texts: '', a^1..a^9, a^k+e-acute, euro/emoji mixes around 6 bytes, NUL texts, 14 predefined atoms and digits, "
        "plus neighbours (drop last char, append 'a'); 18 creation paths (incl. atoms handed out by the engine); all ordered path pairs for equal and "
        "neighbour texts; singles: atom_length, atom_codes, first-argument clause selection. Non-trivial: byte "
        "length in {5,6,7}, predefined atom text, or NUL.")
ASSUMPTIONS = ["Python str comparison is code-point order", "the clause table c21_body/2 is consulted (compiled) code"]
MIN_OUTCOMES = 3


def bound_text(tier):
    s = "%d texts x 18 paths, all ordered path pairs on equal + neighbour texts; singles" % len(texts())
    if tier == "thorough":
        s += "; all ordered pairs of the %d base texts x 7x7 paths" % len(base_texts())
    return s


PREDEF = ["[]", ".", "true", "append", "dynamic", "is", "{}", ",", "|", "-", "fail", "call", "length", "atom_length"]


def base_texts():
    out = [""]
    for n in range(1, 10):
        out.append("a" * n)
    for n in range(0, 8):
        out.append("a" * n + "é")
    out += ["€", "€€", "€€a", "€€é", "😀", "😀a", "😀aa", "😀aaa", "aa😀", "aaa😀"]
    out += ["\x00", "a\x00", "\x00a", "a\x00b", "aaaaa\x00", "aaaaaa\x00"]
    out += PREDEF + ["atomic", "integer", "callable", "list", "false", "evaluable", "zero_divisor", "chars"]
    out += ["1", "12", "123456", "1234567"]
    seen = []
    for t in out:
        if t not in seen:
            seen.append(t)
    return seen


def neighbours(t):
    out = []
    if t:
        out.append(t[:-1])
    out.append(t + "a")
    return out


_texts = None


def texts():
    global _texts
    if _texts is None:
        out = list(base_texts())
        for t in base_texts():
            for n in neighbours(t):
                if n not in out:
                    out.append(n)
        _texts = out
    return _texts


def aq(t):
    """always-quoted atom text"""
    out = ["'"]
    for c in t:
        o = ord(c)
        if c == "'":
            out.append("\\'")
        elif c == "\\":
            out.append("\\\\")
        elif o < 32 or o == 127:
            out.append("\\x%x\\" % o)
        else:
            out.append(c)
    out.append("'")
    return "".join(out)


def setup(w, tier):
    lines = [":- dynamic(c21_tmp/1)."]
    for i, t in enumerate(texts()):
        lines.append("c21_body(%d, %s)." % (i, aq(t)))
    for i, t in enumerate(texts()):
        lines.append("c21_idx(%s, %d)." % (aq(t), i))
    lines.append("""
c21_rel(A, B, r(E, O, P, U)) :-
    ( A == B -> E = 1 ; E = 0 ),
    compare(O, A, B), compare(P, B, A),
    ( A = B -> U = 1 ; U = 0 ).
c21_single(A, r(L, Cs, Chs, Is, IsAtom)) :-
    ( atom(A) -> IsAtom = 1 ; IsAtom = 0 ),
    atom_length(A, L), atom_codes(A, Cs), atom_chars(A, Chs),
    findall(I, c21_idx(A, I), Is).
""")
    w.consult("\n".join(lines), persist=True)


# atoms handed out by the engine itself (atom!() constants of the Rust code, i.e. build-time static atoms)
SYSTEM = {
    "atomic": "catch(functor(_,foo(a),1),error(type_error(%s,_),_),true)",
    "integer": "catch(atom_length(a,b),error(type_error(%s,_),_),true)",
    "callable": "catch(call(1),error(type_error(%s,_),_),true)",
    "list": "catch(sort(a,_),error(type_error(%s,_),_),true)",
    "false": "current_prolog_flag(occurs_check,%s)",
    "[]": "atom_chars('',%s)",
    "evaluable": "catch(_ is foo+1,error(type_error(%s,_),_),true)",
    "zero_divisor": "catch(_ is 1//0,error(evaluation_error(%s),_),true)",
    "chars": "current_prolog_flag(double_quotes,%s)",
    ".": "functor([a],%s,_)",
    "{}": "functor({a},%s,_)",
}

PATHS = ["system", "lit", "body", "codes", "chars", "concat0", "concat1", "concatn", "sub", "charcode", "pstrchar", "read", "functor",
         "univ", "copy", "asrt", "findall", "number"]


def make(t, path, v):
    """goal text creating atom t in variable v through path, or None"""
    n = len(t)
    if path == "system":
        return SYSTEM[t] % v if t in SYSTEM else None
    if path == "lit":
        return "%s = (%s)" % (v, aq(t))
    if path == "body":
        return "c21_body(%d,%s)" % (texts().index(t), v)
    if path == "codes":
        return "atom_codes(%s,[%s])" % (v, ",".join(str(ord(c)) for c in t))
    if path == "chars":
        return "atom_chars(%s,%s)" % (v, quote_string(t))
    if path in ("concat0", "concat1", "concatn"):
        k = {"concat0": 0, "concat1": min(1, n), "concatn": n}[path]
        if path == "concat1" and n < 2:
            return None
        return "atom_concat(%s,%s,%s)" % (aq(t[:k]), aq(t[k:]), v)
    if path == "sub":
        return "sub_atom(%s,1,%d,_,%s)" % (aq("x" + t + "y"), n, v)
    if path == "charcode":
        return "char_code(%s,%d)" % (v, ord(t)) if n == 1 else None
    if path == "pstrchar":
        return "%s = [_,%s|_]" % (quote_string("x" + t + "y"), v) if n == 1 else None
    if path == "read":
        return "read_term_from_chars(%s,%s,[])" % (quote_string(aq(t) + " ."), v)
    if path == "functor":
        return "functor(%s(x),%s,_)" % (aq(t), v)
    if path == "univ":
        return "%s(x) =.. [%s|_]" % (aq(t), v)
    if path == "copy":
        return "copy_term(%s,%s)" % (aq(t), v)
    if path == "asrt":
        return "assertz(c21_tmp(%s)),retract(c21_tmp(%s))" % (aq(t), v)
    if path == "findall":
        return "findall(Q%s,Q%s = (%s),[%s])" % (v, v, aq(t), v)
    if path == "number":
        if not (t.isdigit() and (t == "0" or not t.startswith("0"))):
            return None
        return "number_chars(N%s,%s),number_chars(N%s,C%s),atom_chars(%s,C%s)" % (v, quote_string(t), v, v, v, v)
    raise KeyError(path)


def nontrivial(t):
    return len(t.encode("utf-8")) in (5, 6, 7) or (t in PREDEF or t in SYSTEM) or "\x00" in t


def shards(tier):
    sh = []
    B = base_texts()
    for i in range(len(B)):
        sh.append(("pairs", i))
    for i in range(0, len(texts()), 8):
        sh.append(("single", i, min(len(texts()), i + 8)))
    if tier == "thorough":
        for i in range(len(B)):
            sh.append(("cross", i))
    return sh


CROSS_PATHS = ["system", "lit", "body", "codes", "concatn", "sub", "read"]


def pair_goal(t1, p1, t2, p2):
    a = make(t1, p1, "A")
    b = make(t2, p2, "B")
    if a is None or b is None:
        return None
    return "g((%s,%s,c21_rel(A,B,R)))" % (a, b)


def cmp_texts(t1, t2):
    k1, k2 = [ord(c) for c in t1], [ord(c) for c in t2]
    return "<" if k1 < k2 else (">" if k1 > k2 else "=")


def flip(o):
    return {"<": ">", ">": "<", "=": "="}[o]


def pair_judge(res, t1, t2):
    o = cmp_texts(t1, t2)
    exp = (1 if t1 == t2 else 0, o, flip(o), 1 if t1 == t2 else 0)
    exps = "eq=%s cmp=%s rev=%s unify=%s" % exp
    if res.abn:
        return "abnormal:" + res.abn, exps, res.abn
    if res.status != "done" or len(res.sols) != 1 or not isinstance(res.sols[0].get("R"), tuple):
        obs = "status=%s exc=%s nsols=%d" % (res.status, px.formal_sig(res.formal()) if res.status == "exc" else None, len(res.sols))
        return "no_result:" + obs, exps, obs
    got = tuple(res.sols[0]["R"][1:])
    obs = "eq=%s cmp=%s rev=%s unify=%s" % got
    for name, g, e in zip(["==", "compare", "compare_rev", "="], got, exp):
        if g != e:
            return "%s gives %s expected %s" % (name, g, e), exps, obs
    # the created atoms themselves must read back
    return None, exps, obs


def cls(t):
    c = []
    bl = len(t.encode("utf-8"))
    c.append("len%s" % ("<=6" if bl <= 6 else ">6"))
    if "\x00" in t:
        c.append("nul")
    if t in PREDEF:
        c.append("predef")
    if any(ord(x) > 127 for x in t):
        c.append("multibyte")
    return "+".join(c)


def pair_sig(t1, p1, t2, p2, vk):
    return "pair %s/%s %s via %s/%s: %s" % (cls(t1), cls(t2), "equal" if t1 == t2 else "neighbour", p1, p2, vk)


def single_goal(t, p):
    a = make(t, p, "A")
    if a is None:
        return None
    return "g((%s,c21_single(A,R)))" % a


def single_judge(res, t):
    exp = "len=%d codes=%s idx=[%d]" % (len(t), [ord(c) for c in t], texts().index(t))
    if res.abn:
        return "abnormal:" + res.abn, exp, res.abn
    if res.status != "done" or len(res.sols) != 1 or not isinstance(res.sols[0].get("R"), tuple):
        obs = "status=%s exc=%s nsols=%d" % (res.status, px.formal_sig(res.formal()) if res.status == "exc" else None, len(res.sols))
        return "no_result:" + obs, exp, obs
    sol = res.sols[0]
    L, Cs, Chs, Is, isatom = sol["R"][1:]
    cs = unlist(Cs)[0]
    chs = unlist(Chs)[0]
    idx = unlist(Is)[0]
    obs = "atom=%s len=%s codes=%s idx=%s A=%r" % (isatom, L, cs, idx, sol.get("A"))
    if isatom != 1:
        return "not an atom", exp, obs
    if sol.get("A") != t:
        return "transported text differs", exp, obs
    if L != len(t):
        return "atom_length gives %s" % L, exp, obs
    if cs != [ord(c) for c in t]:
        return "atom_codes differs", exp, obs
    if chs != list(t):
        return "atom_chars differs", exp, obs
    if idx != [texts().index(t)]:
        return "first-argument selection gives %d clauses" % len(idx), exp, obs
    return None, exp, obs


def run_shard(w, shard, tier):
    acc = px.ShardAcc()
    if shard[0] in ("pairs", "cross"):
        t1 = base_texts()[shard[1]]
        cases = []
        others = [t1] + neighbours(t1) if shard[0] == "pairs" else [t for t in base_texts() if t != t1]
        paths = PATHS if shard[0] == "pairs" else CROSS_PATHS
        for t2 in others:
            for p1 in paths:
                for p2 in paths:
                    g = pair_goal(t1, p1, t2, p2)
                    if g is not None:
                        cases.append((t1, p1, t2, p2, g))
                    if t2 != t1:
                        g = pair_goal(t2, p2, t1, p1)
                        if g is not None:
                            cases.append((t2, p2, t1, p1, g))
        for batch in px.chunked(cases, 400):
            rs = px.run_goals(w, [c[4] for c in batch])
            for (a, p1, b, p2, g), r in zip(batch, rs):
                vk, exp, obs = pair_judge(r, a, b)
                acc.case(nontrivial(a) or nontrivial(b), "pair:" + ("ok:" + cmp_texts(a, b) if vk is None else "bad"),
                         sample={"goal": g, "expected": exp, "observed": obs})
                if vk:
                    acc.violation(pair_sig(a, p1, b, p2, vk), {"fam": "pair", "t1": a, "p1": p1, "t2": b, "p2": p2, "goal": g},
                                  expected=exp, observed=obs)
    else:
        _, lo, hi = shard
        cases = []
        for t in texts()[lo:hi]:
            for p in PATHS:
                g = single_goal(t, p)
                if g is not None:
                    cases.append((t, p, g))
        rs = px.run_goals(w, [c[2] for c in cases])
        for (t, p, g), r in zip(cases, rs):
            vk, exp, obs = single_judge(r, t)
            acc.case(nontrivial(t), "single:" + ("ok" if vk is None else "bad"), sample={"goal": g, "expected": exp, "observed": obs})
            if vk:
                acc.violation("single %s via %s: %s" % (cls(t), p, vk), {"fam": "single", "t": t, "p": p, "goal": g},
                              expected=exp, observed=obs)
    return acc.result()


def recheck(w, case, tier):
    if case["fam"] == "pair":
        g = pair_goal(case["t1"], case["p1"], case["t2"], case["p2"])
        if g is None:
            return None
        r = px.run_goals(w, [g])[0]
        vk, exp, obs = pair_judge(r, case["t1"], case["t2"])
        if vk:
            return {"sig": pair_sig(case["t1"], case["p1"], case["t2"], case["p2"], vk), "case": case, "expected": exp, "observed": obs}
        return None
    g = single_goal(case["t"], case["p"])
    r = px.run_goals(w, [g])[0]
    vk, exp, obs = single_judge(r, case["t"])
    if vk:
        return {"sig": "single %s via %s: %s" % (cls(case["t"]), case["p"], vk), "case": case, "expected": exp, "observed": obs}
    return None
