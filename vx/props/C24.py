"""C24 — cyclic terms are processed correctly and always terminate (DESIGN §6 C24).

Space: every term graph with <= k nodes (k=3 quick, 4 thorough over a reduced
kind set) whose nodes are f/1, g/2, a list cell, a two-character string segment
with a tail, the atom a, or an unbound variable, with every assignment of
children among the nodes (self loops, back edges, sharing, chains). Graphs are
built only by real unifications (N1 = f(N2), N2 = [a,b|N1], ...), twice (a twin),
and observed with acyclic_term/1, ==, compare/3, =, ground/1, term_variables/2,
copy_term/2 for every root and ordered pair of roots. The oracle computes the
infinite-tree answers on the finite graph (bisimulation, coinductive
comparison, reachability).
"""
import itertools

from vx.core import px, pool, terms
from vx.core.terms import unlist

ID = "C24"
LEVEL = "exploration"
ENGINE = "PEX"
TECHNIQUE = ("exhaustive enumeration of all term graphs up to a node bound, built by real unifications; every "
             "cyclic-term builtin compared with graph algorithms computing the infinite-tree semantics")
RULE = ("all graphs over k nodes with node kinds {f/1, g/2, list cell, string segment \"ab\"+tail, atom, variable} and "
        "children drawn from the k nodes (26^3 graphs for k=3; plus 3 structural nodes over {f, cell, str} with a 4th leaf node: 24^3 x 2); observations for every root and ordered root pair, "
        "and against an independently built isomorphic twin. Non-trivial: the graph reachable from node 1 has a cycle.")
LEVEL_TEXT = ("every term graph up to the node bound is built on the real machine and every listed builtin is compared "
              "with its infinite-tree definition; acyclic_term/1 must leave the term == to its untouched twin")
ASSUMPTIONS = ["rational-tree semantics computed by bisimulation on the finite graph",
               "the relative order of two distinct unbound variables is not compared",
               "a builtin that does not terminate shows up as a hang (20 s horizon) attributed to the graph"]
MIN_OUTCOMES = 4

KINDS = ["f", "g", "cell", "str", "atom", "var"]


def bound_text(tier):
    return "all term graphs with <= %d nodes" % (4 if tier == "thorough" else 3)


def node_choices(k, kinds):
    out = []
    for kind in kinds:
        if kind == "f" or kind == "str":
            out += [(kind, c) for c in range(k)]
        elif kind in ("g", "cell"):
            out += [(kind, a, b) for a in range(k) for b in range(k)]
        else:
            out.append((kind,))
    return out


def shards(tier):
    sh = [["k", 1, None], ["k", 2, None]]
    ch3 = node_choices(3, KINDS)
    for i in range(len(ch3)):
        sh.append(["k", 3, i])
    # three structural nodes + one leaf node (an atom or a variable) that any of
    # them may point to: the smallest shape with a cycle through the head of a
    # list cell whose tail is a finite term
    ch = node_choices(4, ["f", "cell", "str"] + (["g"] if tier == "thorough" else []))
    for i in range(len(ch)):
        sh.append(["k3leaf", 4, i])
    if tier == "thorough":
        ch4 = node_choices(4, ["f", "cell", "str", "var"])
        for i in range(len(ch4)):
            sh.append(["k4", 4, i])
    return sh


def graphs(shard):
    kind, k, first = shard
    if kind == "k3leaf":
        base = node_choices(4, ["f", "cell", "str"])
        full = base + node_choices(4, ["g"])
        head = full[first]
        for rest in itertools.product(base if first < len(base) else full, repeat=2):
            for leaf in (("atom",), ("var",)):
                yield [head] + list(rest) + [leaf]
        return
    kinds = KINDS if kind == "k" else ["f", "cell", "str", "var"]
    ch = node_choices(k, kinds)
    if first is None:
        for g in itertools.product(ch, repeat=k):
            yield list(g)
    else:
        for rest in itertools.product(ch, repeat=k - 1):
            yield [ch[first]] + list(rest)


# ---------------------------------------------------------------------------
# model: graph = list of nodes; node i bound to its structure; var/atom leaves

def children(n):
    if n[0] == "f":
        return [n[1]]
    if n[0] in ("g", "cell"):
        return [n[1], n[2]]
    if n[0] == "str":
        return [n[1]]
    return []


def expand(g):
    """normalise: string segment "ab"+tail = cell(a, cell(b, tail)) with two extra nodes.
    returns nodes as tuples ('c', name, arity, [child ids]) / ('a', name) / ('v', id)"""
    nodes = {}
    for i, n in enumerate(g):
        if n[0] == "f":
            nodes[i] = ("c", "f", [n[1]])
        elif n[0] == "g":
            nodes[i] = ("c", "g", [n[1], n[2]])
        elif n[0] == "cell":
            nodes[i] = ("c", ".", [n[1], n[2]])
        elif n[0] == "str":
            nodes[i] = ("c", ".", [("A", i), ("S", i)])
            nodes[("A", i)] = ("a", "a")
            nodes[("S", i)] = ("c", ".", [("B", i), n[1]])
            nodes[("B", i)] = ("a", "b")
        elif n[0] == "atom":
            nodes[i] = ("a", "a")
        else:
            nodes[i] = ("v", i)
    return nodes


def reach(nodes, r):
    seen, order, stack = set(), [], [r]
    while stack:
        x = stack.pop()
        if x in seen:
            continue
        seen.add(x)
        order.append(x)
        n = nodes[x]
        if n[0] == "c":
            for c in reversed(n[2]):
                stack.append(c)
    return order


def is_cyclic(nodes, r):
    color = {}

    def dfs(x):
        color[x] = 1
        n = nodes[x]
        if n[0] == "c":
            for c in n[2]:
                if color.get(c) == 1:
                    return True
                if c not in color and dfs(c):
                    return True
        color[x] = 2
        return False
    return dfs(r)


def term_vars(nodes, r):
    """first-occurrence order of variables in depth-first left-to-right traversal"""
    out, seen = [], set()
    stack = [r]
    while stack:
        x = stack.pop()
        if x in seen:
            continue
        seen.add(x)
        n = nodes[x]
        if n[0] == "v":
            out.append(n[1])
        elif n[0] == "c":
            for c in reversed(n[2]):
                stack.append(c)
    return out


def order_key(n):
    # standard order classes: Var < Atom < Compound (no numbers here)
    return {"v": 0, "a": 3, "c": 4}[n[0]]


def compare(nodes, x, y):
    """coinductive standard-order comparison: '<', '=', '>' or '?' (two distinct variables)"""
    assumed = set()
    # iterative lexicographic comparison
    stack = [(x, y)]
    while stack:
        a, b = stack.pop()
        if a == b or (a, b) in assumed:
            continue
        assumed.add((a, b))
        na, nb = nodes[a], nodes[b]
        ka, kb = order_key(na), order_key(nb)
        if ka != kb:
            return "<" if ka < kb else ">"
        if na[0] == "v":
            return "?"
        if na[0] == "a":
            if na[1] != nb[1]:
                return "<" if na[1] < nb[1] else ">"
            continue
        if len(na[2]) != len(nb[2]):
            return "<" if len(na[2]) < len(nb[2]) else ">"
        if na[1] != nb[1]:
            return "<" if na[1] < nb[1] else ">"
        for p, q in reversed(list(zip(na[2], nb[2]))):
            stack.append((p, q))
    return "="


def unifiable(nodes, x, y):
    parent = {}

    def find(a):
        while parent.get(a, a) != a:
            a = parent[a]
        return a
    stack = [(x, y)]
    while stack:
        a, b = stack.pop()
        a, b = find(a), find(b)
        if a == b:
            continue
        na, nb = nodes[a], nodes[b]
        if na[0] == "v":
            parent[a] = b
            continue
        if nb[0] == "v":
            parent[b] = a
            continue
        if na[0] != nb[0]:
            return False
        if na[0] == "a":
            if na[1] != nb[1]:
                return False
            parent[a] = b
            continue
        if na[1] != nb[1] or len(na[2]) != len(nb[2]):
            return False
        parent[a] = b
        stack.extend(zip(na[2], nb[2]))
    return True


# ---------------------------------------------------------------------------
# implementation side

HELPER = r"""
:- use_module(library(lists)).
c24_obs(Ns, Ms, Vars, obs(Acyc, Gr, TVs, Pres, Eqs, Cmps, Unifs, Copy)) :-
    c24_map_acyc(Ns, Acyc),
    c24_map_ground(Ns, Gr),
    c24_map_tv(Ns, Vars, TVs),
    c24_pres(Ns, Ms, Pres),
    c24_pairs(Ns, Ns, Eqs, Cmps, Unifs),
    Ns = [N1|_],
    c24_copy(N1, Copy).

c24_b(G, B) :- ( call(G) -> B = true ; B = false ).

c24_map_acyc([], []).
c24_map_acyc([N|Ns], [B|Bs]) :- c24_b(acyclic_term(N), B), c24_map_acyc(Ns, Bs).
c24_map_ground([], []).
c24_map_ground([N|Ns], [B|Bs]) :- c24_b(ground(N), B), c24_map_ground(Ns, Bs).
c24_map_tv([], _, []).
c24_map_tv([N|Ns], Vars, [Is|Iss]) :- term_variables(N, Vs), c24_idx(Vs, Vars, Is), c24_map_tv(Ns, Vars, Iss).
c24_idx([], _, []).
c24_idx([V|Vs], Vars, [I|Is]) :- c24_find(Vars, V, I), c24_idx(Vs, Vars, Is).
c24_find([], _, none).
c24_find([I-W|Ws], V, R) :- ( W == V -> R = I ; c24_find(Ws, V, R) ).
% a term and its independently built twin are structurally equal (up to the
% twin's own variables: compared after unifying the twins' variables), before
% and after acyclic_term/1 has looked at the term
c24_pres([], [], []).
c24_pres([N|Ns], [M|Ms], [p(B1,B2)|Ps]) :-
    c24_b(c24_same(N, M), B1),
    ( acyclic_term(N) -> true ; true ),
    c24_b(c24_same(N, M), B2),
    c24_pres(Ns, Ms, Ps).
% structural equality up to the twin's variables (bound pairwise, in order)
c24_same(N, M) :- \+ \+ ( term_variables(N, Vn), term_variables(M, Vm), Vn = Vm, N == M ).
c24_pairs([], _, [], [], []).
c24_pairs([N|Ns], All, [Es|Ess], [Cs|Css], [Us|Uss]) :-
    c24_row(All, N, Es, Cs, Us),
    c24_pairs(Ns, All, Ess, Css, Uss).
c24_row([], _, [], [], []).
c24_row([M|Ms], N, [E|Es], [C|Cs], [U|Us]) :-
    c24_b(N == M, E), compare(C, N, M), c24_b(\+ N \= M, U),
    c24_row(Ms, N, Es, Cs, Us).
c24_copy(N, copy(Unif, Eq, AcycSame)) :-
    copy_term(N, C),
    c24_b(\+ C \= N, Unif),
    c24_b(C == N, Eq),
    c24_b(acyclic_term(N), A1), c24_b(acyclic_term(C), A2),
    ( A1 == A2 -> AcycSame = true ; AcycSame = false ).
"""


def setup(w, tier):
    r = w.consult(HELPER, persist=True)
    if "error" in r.get("out", ""):
        raise pool.MachineryError("C24 helper: %r" % r)


def build_text(g, prefix):
    eqs = []
    for i, n in enumerate(g):
        v = "%s%d" % (prefix, i)
        c = lambda j: "%s%d" % (prefix, j)
        if n[0] == "f":
            eqs.append("%s = f(%s)" % (v, c(n[1])))
        elif n[0] == "g":
            eqs.append("%s = g(%s,%s)" % (v, c(n[1]), c(n[2])))
        elif n[0] == "cell":
            eqs.append("%s = '.'(%s,%s)" % (v, c(n[1]), c(n[2])))
        elif n[0] == "str":
            eqs.append("%s = [a,b|%s]" % (v, c(n[1])))
        elif n[0] == "atom":
            eqs.append("%s = a" % v)
    return eqs


def goal(g):
    k = len(g)
    eqs = build_text(g, "N") + build_text(g, "M")
    ns = "[" + ",".join("N%d" % i for i in range(k)) + "]"
    ms = "[" + ",".join("M%d" % i for i in range(k)) + "]"
    vs = "[" + ",".join("%d-N%d" % (i, i) for i, n in enumerate(g) if n[0] == "var") + "]"
    body = ", ".join(eqs + ["c24_obs(%s, %s, %s, Obs)" % (ns, ms, vs)])
    return "vx_first(Obs, (%s), R), vx_obs(R)" % body


def expect(g):
    nodes = expand(g)
    k = len(g)
    acyc = [not is_cyclic(nodes, i) for i in range(k)]
    ground = [all(nodes[x][0] != "v" for x in reach(nodes, i)) for i in range(k)]
    tvs = [term_vars(nodes, i) for i in range(k)]
    eq = [[compare(nodes, i, j) for j in range(k)] for i in range(k)]
    un = [[unifiable(nodes, i, j) for j in range(k)] for i in range(k)]
    return acyc, ground, tvs, eq, un


def tf(x):
    return x == "true"


def judge(g, r):
    """-> (label, [violation kinds])"""
    if r.abn:
        return "abnormal", [r.abn]
    if not r.obs:
        return "noobs", ["no observation"]
    o = r.obs[0]
    if not (isinstance(o, tuple) and o[0] == "sol"):
        return "nosol", ["building the graph failed or raised: %r" % (o,)]
    obs = o[1]
    acyc, ground, tvs, cmpm, un = expect(g)
    k = len(g)
    v = []
    A = [tf(x) for x in unlist(obs[1])[0]]
    G = [tf(x) for x in unlist(obs[2])[0]]
    T = [unlist(x)[0] for x in unlist(obs[3])[0]]
    P = unlist(obs[4])[0]
    E = [[tf(y) for y in unlist(x)[0]] for x in unlist(obs[5])[0]]
    C = [unlist(x)[0] for x in unlist(obs[6])[0]]
    U = [[tf(y) for y in unlist(x)[0]] for x in unlist(obs[7])[0]]
    cp = obs[8]
    if A != acyc:
        v.append("acyclic_term wrong")
    if G != ground:
        v.append("ground wrong")
    if T != tvs:
        v.append("term_variables wrong")
    for i, p in enumerate(P):
        if not tf(p[1]):
            v.append("twin not equal before acyclic_term")
        elif not tf(p[2]):
            v.append("term changed by acyclic_term")
    for i in range(k):
        for j in range(k):
            want = cmpm[i][j]
            if E[i][j] != (want == "="):
                v.append("== wrong")
            if want != "?" and C[i][j] != want:
                v.append("compare wrong")
            if want == "?" and C[i][j] == "=":
                v.append("compare wrong")
            if U[i][j] != un[i][j]:
                v.append("unifiability wrong")
    if not tf(cp[1]):
        v.append("copy_term: copy does not unify with the original")
    if ground[0] and not tf(cp[2]):
        v.append("copy_term: ground copy not == original")
    if not tf(cp[3]):
        v.append("copy_term: copy differs in cyclicity")
    v = sorted(set(v))
    cyc = not acyc[0]
    return ("cyclic" if cyc else "acyclic") + ("_ground" if ground[0] else "_nonground"), v


def kinds_sig(g):
    return "+".join(sorted(set(n[0] for n in g)))


def run_shard(w, shard, tier):
    acc = px.ShardAcc()
    for batch in px.chunked(graphs(shard), 200):
        rs = px.run_goals(w, [goal(g) for g in batch])
        for g, r in zip(batch, rs):
            label, v = judge(g, r)
            nodes = expand(g)
            acc.case(is_cyclic(nodes, 0), label, sample={"graph": [list(n) for n in g]})
            for vk in v:
                acc.violation("%s [kinds %s]" % (vk, kinds_sig(g)), {"graph": [list(n) for n in g]},
                              observed=repr(r.obs)[:600])
    return acc.result()


def recheck(w, case, tier):
    g = [tuple(n) for n in case["graph"]]
    r = px.run_goals(w, [goal(g)])[0]
    label, v = judge(g, r)
    return [{"sig": "%s [kinds %s]" % (vk, kinds_sig(g)), "case": case, "observed": repr(r.obs)[:600]} for vk in v] or None
