"""C20 — strings behave exactly like the character lists they denote (DESIGN §6 C20).

Subject = content (a string) + tail; realised (a) as an explicit list built
with =../2 (the twin: never compacted) and (b) through every string-producing
route (double-quoted literal, bracket literal compacted by the reader,
atom_chars/partial_string, append/3 of two strings, segmented strings whose
tail is another string or a list cell, unaligned string suffixes, copy_term,
assertz/retract).  Every operation of a fixed list is executed on the twin
and on each realisation; the observable outcomes (solution sequences with
variables renamed by first occurrence, error formals, printed text) must be
identical.  Family `near` compares each realisation against near-twins (one
char changed at each offset, one shorter, one longer) with a Python oracle.
"""
import os

from vx.core import px
from vx.core.terms import V, NIL, mklist, unlist, quote_string, quote_atom
from vx.model import termspace as T
from vx.model import stdorder as SO
from vx.model import unify as U

ID = "C20"
LEVEL = "exploration"
ENGINE = "PEX"
TECHNIQUE = "bounded exhaustive differential testing of string encodings against the explicit-list twin"
LEVEL_TEXT = ("input-space exploration: every string content of a boundary alphabet x tail x string-producing route x "
              "operation is executed and compared with the same operation on the explicit character list")
RULE = ("contents: all strings of length <= 2 over {a,b,e-acute,euro,emoji,NUL} plus lengths 3..17,23,24,25 in 5 "
        "patterns; tails {[], T, 1, [1]}; 11 string routes vs the =../2-built twin; ~40 operations; plus near-twin "
        "comparisons. Non-trivial: byte length = 7 (mod 8), NUL or multi-byte content, or non-[] tail.")
ASSUMPTIONS = ["a list built with =../2 cell by cell is the reference 'explicit list' (never a partial string)",
               "outcomes are compared after renaming variables by first occurrence; error context terms ignored"]
MIN_OUTCOMES = 4

HELPERS = open(os.path.join(os.path.dirname(__file__), "..", "prolog", "c20_helpers.pl"), encoding="utf-8").read()


def setup(w, tier):
    w.consult(HELPERS, persist=True)


def bound_text(tier):
    if tier == "quick":
        return "contents: len<=2 over 6 chars + lengths 3..9,15..17,23..25 x 3 patterns; 4 tails; 8 routes; 46 operations; near-twins"
    return "contents: len<=2 over 6 chars + lengths 3..17,23,24,25 x 5 patterns; 4 tails; 11 routes; 46 operations; near-twins"


SMALL = ["a", "b", "é", "€", "😀", "\x00"]


def contents(tier):
    out = [""]
    for c in SMALL:
        out.append(c)
    for c in SMALL:
        for d in SMALL:
            out.append(c + d)
    lens = list(range(3, 18)) + [23, 24, 25] if tier == "thorough" else [3, 4, 5, 6, 7, 8, 9, 15, 16, 17, 23, 24, 25]
    for n in lens:
        pats = ["a" * n, "a" * (n - 1) + "é", "a" * (n // 2) + "\x00" + "a" * (n - n // 2 - 1)]
        if tier == "thorough":
            pats += ["\x00" + "a" * (n - 1), "a" * (n - 1) + "\x00"]
        out += pats
    return out


TAILS = ["nil", "T", "one", "l1"]


def tail_term(name):
    return {"nil": NIL, "T": V("T"), "one": 1, "l1": mklist([1])}[name]


ROUTES_Q = ["dq", "lit", "chars", "app", "segp", "segl", "sfx1", "copy"]
ROUTES_T = ROUTES_Q + ["sfx3", "asrt", "fa"]


def realise(content, tail, route, prefix="_B"):
    """-> (pre, txt) or None when the route does not apply"""
    t = T.str_term(content, tail_term(tail))
    ctx = T.Ctx(prefix)
    if route == "twin":
        return T.render(t, "univ", ctx)
    if content == "":
        return T.render(t, "lit", ctx) if route == "lit" else None
    if route == "dq":
        if tail != "nil":
            return None
        return T.render(t, "dq", ctx)
    if route in ("lit", "chars", "sfx1", "sfx3", "copy", "asrt", "fa"):
        return T.render(t, route, ctx)
    k = len(content) // 2
    first, rest = content[:k], content[k:]
    if not first:
        return None
    pre = []
    if route == "app":
        rt = T._lit(T.str_term(rest, tail_term(tail)), ctx, pre)
        v = ctx.fresh()
        pre.append("append(%s,%s,%s)" % (quote_string(first), rt, v))
        return pre, v
    if route in ("segp", "segl"):
        v, tv = ctx.fresh(), ctx.fresh()
        pre.append("partial_string(%s,%s,%s)" % (quote_string(first), v, tv))
        rterm = T.str_term(rest, tail_term(tail))
        if route == "segp":
            pre.append("%s = %s" % (tv, T._lit(rterm, ctx, pre)))
        else:
            rt = T._build(rterm, ctx, pre, "univ")
            pre.append("%s = %s" % (tv, rt))
        return pre, v
    raise KeyError(route)


# operations: (name, goal template over S / R / R2 / T, solution cap, applies(tail, content))
def _always(tail, c):
    return True


def _no_var_tail(tail, c):
    return tail != "T"


def ops_for(content, tail):
    n = len(content) + (1 if tail == "l1" else 0)
    ops = [
        ("len", "length(S,R)", 3),
        ("len_n", "length(S,%d)" % n, 2),
        ("len_n1", "length(S,%d)" % (n + 1), 2),
        ("app_r", "append(S,[z],R)", 3),
        ("app_l", "append([z],S,R)", 2),
        ("app_split", "append(R,R2,S)", 40),
        ("app_self", "append(S,S,R)", 3),
        ("nth0", "nth0(R,S,R2)", 40),
        ("nth1", "nth1(R,S,R2)", 40),
        ("nth0_0", "nth0(0,S,R)", 2),
        ("nth0_last", "nth0(%d,S,R)" % max(0, n - 1), 2),
        ("nth0_past", "nth0(%d,S,R)" % n, 2),
        ("reverse", "reverse(S,R)", 3),
        ("member", "member(R,S)", 40),
        ("memberchk", "memberchk(a,S)", 2),
        ("memberchk_z", "memberchk(z,S)", 2),
        ("arg1", "arg(1,S,R)", 2),
        ("arg2", "arg(2,S,R)", 2),
        ("argn", "arg(R,S,R2)", 5),
        ("functor", "functor(S,R,R2)", 2),
        ("univ", "S =.. R", 2),
        ("copy_term", "copy_term(S,R)", 2),
        ("findall", "findall(S,true,R)", 2),
        ("findall_m", "findall(E,member(E,S),R)", 2) if tail != "T" else None,
        ("assert", "assertz(c20_tmp(S)),retract(c20_tmp(R))", 2),
        ("sort", "sort(S,R)", 2),
        ("sort_in", "sort([S,\"a\",[a,b],S],R)", 2),
        ("keysort_k", "keysort([S-1,\"a\"-2,\"ab\"-0],R)", 2),
        ("keysort", "keysort(S,R)", 2),
        ("tvars", "term_variables(S,R)", 2),
        ("ground", "(ground(S) -> R = 1 ; R = 0)", 2),
        ("atom_chars", "atom_chars(R,S)", 2),
        ("atom_length", "atom_chars(R2,S),atom_length(R2,R)", 2),
        ("writeq_chars", "write_term_to_chars(S,[quoted(true)],R)", 2),
        ("wcanon_chars", "write_term_to_chars(S,[quoted(true),ignore_ops(true)],R)", 2),
        ("writeq", "writeq(S)", 2),
        ("write_canonical", "write_canonical(S)", 2),
        ("suffixes", "c20_sfx(S,R)", 2),
        ("destructure", "S = [R|R2]", 2),
        ("first_two", "c20_first_two(S,R,R2)", 2),
        ("list_to_set", "list_to_set(S,R)", 2) if tail != "T" else None,
        ("same_length", "same_length(S,R)", 3),
        ("dcg_split", "phrase((seq(R),seq(R2)),S)", 40),
        ("dcg_rest", "phrase(seq(R),S,R2)", 40),
        ("char_codes", "maplist(char_code,S,R)", 3),
        ("eq_self", "(S == S -> R = 1 ; R = 0)", 2),
    ]
    return [o for o in ops if o is not None]


def canon(t, m=None):
    """rename variables by first occurrence"""
    if m is None:
        m = {}
    if isinstance(t, V):
        if t not in m:
            m[t] = V(len(m))
        return m[t]
    if isinstance(t, tuple):
        # iterative for long lists
        if len(t) == 3 and t[0] == ".":
            el, tail = unlist(t)
            return mklist([canon(e, m) for e in el], canon(tail, m))
        return (t[0],) + tuple(canon(a, m) for a in t[1:])
    return t


NAMES = ["S", "T", "R", "R2"]
_VARNAME = __import__("re").compile(r"_[0-9]+|_G[0-9]+")


def outcome(res):
    """comparable observation"""
    if res.abn:
        return ("abn", res.abn)
    sols = []
    for s in res.sols:
        if not s:
            sols.append("cyclic")
            continue
        tup = ("t",) + tuple(s.get(n, "$absent") for n in NAMES)
        sols.append(U.tkey(canon(tup)))
    text = _VARNAME.sub("_N", res.text)
    if res.status == "exc":
        return ("exc", U.tkey(canon(("e", res.formal()))) if res.formal() is not None else None, tuple(sols), text)
    return (res.status, tuple(sols), text)


def short(o):
    if o[0] == "abn":
        return o[1]
    if o[0] == "exc":
        return "exc:" + _fsig(o[1])
    return "%s/%d sols" % (o[0], len(o[1]))


def _fsig(k):
    # k = tkey of ('e', formal)
    try:
        f = k[3]
        if f[0] == "c":
            return "%s(%s)" % (f[1], f[3][1] if f[3][0] == "a" else f[3][0])
        return str(f[1])
    except Exception:
        return "?"


def diff_kind(o_twin, o):
    if o[0] == "abn":
        return "abnormal:" + o[1]
    if o_twin[0] != o[0]:
        return "status %s vs twin %s" % (short(o), short(o_twin))
    if o[0] == "exc":
        if o[1] != o_twin[1]:
            return "error %s vs twin %s" % (short(o), short(o_twin))
        if o[2] != o_twin[2]:
            return "solutions before error differ"
        return "text differs"
    if len(o[1]) != len(o_twin[1]):
        return "solution count %d vs twin %d" % (len(o[1]), len(o_twin[1]))
    if o[1] != o_twin[1]:
        return "solutions differ"
    return "text differs"


def content_class(c):
    cl = []
    if "\x00" in c:
        cl.append("nul")
    if any(ord(x) > 127 for x in c):
        cl.append("multibyte")
    if not cl:
        cl.append("ascii")
    return "+".join(cl)


def nontrivial(content, tail):
    bl = len(content.encode("utf-8"))
    return bl % 8 == 7 or "\x00" in content or any(ord(x) > 127 for x in content) or tail != "nil"


def shards(tier):
    cs = contents(tier)
    sh = []
    for ci in range(len(cs)):
        sh.append(("ops", ci))
    for ci in range(0, len(cs), 4):
        sh.append(("near", ci, min(len(cs), ci + 4)))
    return sh


def op_goal(pre, txt, tmpl, cap):
    return "g((%s),%d)" % (",".join(pre + ["S = " + txt, tmpl]), cap)


def near_twins(content):
    out = []
    for i in range(min(len(content), 10)):
        c = content[i]
        for d in (("b" if c == "a" else "a"), ("è" if c == "é" else "é")):
            if d != c:
                out.append(("chg%d" % i, content[:i] + d + content[i + 1:]))
    if content:
        out.append(("shorter", content[:-1]))
    out.append(("longer", content + "a"))
    return out


def run_ops(w, shard, tier, acc):
    ci = shard[1]
    content = contents(tier)[ci]
    routes = ROUTES_Q if tier == "quick" else ROUTES_T
    for tail in TAILS:
        nt = nontrivial(content, tail)
        twin = realise(content, tail, "twin")
        reals = []
        for r in routes:
            x = realise(content, tail, r)
            if x is not None:
                reals.append((r, x))
        goals = []
        index = []
        for (name, tmpl, cap) in ops_for(content, tail):
            goals.append(op_goal(twin[0], twin[1], tmpl, cap))
            index.append((name, "twin"))
            for (r, (pre, txt)) in reals:
                goals.append(op_goal(pre, txt, tmpl, cap))
                index.append((name, r))
        rs = px.run_goals(w, goals)
        twin_out = {}
        for (name, r), g, res in zip(index, goals, rs):
            o = outcome(res)
            if r == "twin":
                twin_out[name] = o
                if o[0] == "abn":
                    acc.case(nt, "twin_abnormal")
                    acc.violation("ops op=%s route=twin tail=%s %s: abnormal:%s" % (name, tail, content_class(content), o[1]),
                                  {"fam": "ops", "content": content, "tail": tail, "route": "twin", "op": name, "goal": g},
                                  expected="normal outcome", observed=o[1])
                else:
                    acc.case(nt, "twin:" + o[0])
                continue
            ot = twin_out[name]
            if o == ot:
                acc.case(nt, "same:" + o[0], sample={"goal": g, "outcome": short(o)})
            else:
                dk = diff_kind(ot, o)
                acc.case(nt, "differs")
                acc.violation("ops op=%s route=%s tail=%s %s: %s" % (name, r, tail, content_class(content), dk),
                              {"fam": "ops", "content": content, "tail": tail, "route": r, "op": name, "goal": g},
                              expected="twin: " + short(ot), observed=short(o))


def near_goal(content, tail, route, ncontent, nroute):
    a = realise(content, tail, route, "_A")
    b = realise(ncontent, tail, nroute, "_B")
    if a is None or b is None:
        return None
    return "g((" + ",".join(a[0] + b[0] + ["c20_rel(%s,%s,R)" % (a[1], b[1])]) + "))"


def near_expect(content, tail, ncontent):
    a = T.str_term(content, tail_term(tail))
    b = T.str_term(ncontent, tail_term(tail))
    o = SO.compare(a, b)
    cls, _ = U.classify(a, b)
    eq = 1 if U.tkey(a) == U.tkey(b) else 0
    return (eq, o, SO.flip(o) if o != "?" else "?", 1 if cls != "clash" else 0, 0 if cls != "clash" else 1)


def near_judge(res, exp):
    if res.abn:
        return "abnormal:" + res.abn, res.abn
    if res.status != "done" or len(res.sols) != 1 or not isinstance(res.sols[0].get("R"), tuple):
        return "no_result", "status=%s" % res.status
    r = res.sols[0]["R"]
    got = tuple(r[1:])
    obs = "eq=%s cmp=%s rev=%s unify=%s notunify=%s" % got
    names = ["==", "compare", "compare_rev", "=", "\\="]
    for n, g, e in zip(names, got, exp):
        if e == "?":
            continue
        if g != e:
            return "%s gives %s expected %s" % (n, g, e), obs
    return None, obs


UNALIGNED = ("sfx1", "sfx3", "app", "segp", "segl")


def near_sig(nk, r, nr, tail, content, vk):
    return "near %s unaligned=%d route=%s/%s tail=%s %s: %s" % (
        nk if not nk.startswith("chg") else "chg", 1 if (r in UNALIGNED or nr in UNALIGNED) else 0, r, nr, tail,
        content_class(content), vk)


def run_near(w, shard, tier, acc):
    _, lo, hi = shard
    routes = ROUTES_Q if tier == "quick" else ROUTES_T
    cs = contents(tier)
    for ci in range(lo, hi):
        content = cs[ci]
        batch = []
        for tail in ("nil", "T"):
            for (nk, nc) in [("same", content)] + near_twins(content):
                exp = near_expect(content, tail, nc)
                for r in routes:
                    for nr in ("twin", "dq" if tail == "nil" else "lit", "chars"):
                        g = near_goal(content, tail, r, nc, nr)
                        if g is None:
                            continue
                        batch.append((tail, nk, nc, r, nr, g, exp))
        rs = px.run_goals(w, [b[5] for b in batch])
        for (tail, nk, nc, r, nr, g, exp), res in zip(batch, rs):
            vk, obs = near_judge(res, exp)
            nt = nontrivial(content, tail)
            acc.case(nt, "near:" + ("ok" if vk is None else "bad"))
            if vk:
                acc.violation(near_sig(nk, r, nr, tail, content, vk),
                              {"fam": "near", "content": content, "tail": tail, "route": r, "nroute": nr, "ncontent": nc,
                               "nk": nk, "goal": g}, expected="eq=%s cmp=%s rev=%s unify=%s notunify=%s" % exp, observed=obs)


def run_shard(w, shard, tier):
    acc = px.ShardAcc()
    if shard[0] == "ops":
        run_ops(w, shard, tier, acc)
    else:
        run_near(w, shard, tier, acc)
    return acc.result()


def recheck(w, case, tier):
    if case["fam"] == "near":
        g = near_goal(case["content"], case["tail"], case["route"], case["ncontent"], case["nroute"])
        exp = near_expect(case["content"], case["tail"], case["ncontent"])
        res = px.run_goals(w, [g])[0]
        vk, obs = near_judge(res, exp)
        if vk:
            nk = case["nk"]
            return {"sig": near_sig(nk, case["route"], case["nroute"], case["tail"], case["content"], vk),
                    "case": case, "expected": "eq=%s cmp=%s rev=%s unify=%s notunify=%s" % exp, "observed": obs}
        return None
    content, tail, route, name = case["content"], case["tail"], case["route"], case["op"]
    op = [o for o in ops_for(content, tail) if o[0] == name][0]
    twin = realise(content, tail, "twin")
    gt = op_goal(twin[0], twin[1], op[1], op[2])
    if route == "twin":
        res = px.run_goals(w, [gt])[0]
        o = outcome(res)
        if o[0] == "abn":
            return {"sig": "ops op=%s route=twin tail=%s %s: abnormal:%s" % (name, tail, content_class(content), o[1]),
                    "case": case, "expected": "normal outcome", "observed": o[1]}
        return None
    pre, txt = realise(content, tail, route)
    g = op_goal(pre, txt, op[1], op[2])
    rt, rr = px.run_goals(w, [gt, g])
    ot, o = outcome(rt), outcome(rr)
    if o != ot:
        return {"sig": "ops op=%s route=%s tail=%s %s: %s" % (name, route, tail, content_class(content), diff_kind(ot, o)),
                "case": case, "expected": "twin: " + short(ot), "observed": short(o)}
    return None
