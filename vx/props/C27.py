"""C27 — clp(Z) labeling is sound and complete on finite domains (DESIGN §6 C27).

Systems of constraints over X, Y in -1..2 (Z in thorough) and the Boolean
B in 0..1 are posted on the real library(clpz) and labeled with four
strategies; the labeled solutions must be exactly the brute-force solution
set computed in Python over all assignments, each once. Ground instances of
every `L op R` template are compared with is/2 (on the machine) and with
Python integer semantics.
"""
import itertools

from vx.core import px
from vx.core.terms import V, unlist

ID = "C27"
LEVEL = "exploration"
ENGINE = "PEX"
TECHNIQUE = "brute-force oracle over all assignments of the finite domains; labeling compared as a multiset"
RULE = ("singles: every L op R for op in {#=,#\\=,#<,#=<,#>,#>=} and L,R over 17 expressions in X,Y "
        "(variables, constants, + - * 2*X -X abs min max // mod rem ^2), sum/3, all_distinct/all_different, "
        "reified connectives; systems: all ordered pairs of a 70-template core (thorough: plus all ordered triples of a "
        "24-template core over X,Y,Z); each system labeled with [ff], [], [down], [bisect]; every L op R also on all "
        "ground instances against is/2; a division family X in -12..12 / -7..7 with X op Y #= Z (and mirrored), op in "
        "{//, mod, rem, div}, Y in {-4,-3,-2,2,3,4}, Z in -3..3 as constants, as variables bound after posting, and as "
        "small-domain variables. Non-trivial: 0 < |solutions| < |assignments|.")
LEVEL_TEXT = ("bounded exhaustive input-space exploration with an exact oracle: every assignment of the finite domains "
              "is decided in Python, so a propagator that prunes a solution or a labeling that repeats one is seen")
ASSUMPTIONS = ["Python integer semantics: // truncates, mod floors, rem truncates, an assignment with a zero divisor is a non-solution",
               "partial functions (// mod rem) are not used inside reified constraints (their reification is not fixed by the statement)",
               "solution order is not compared", "findall/3 and the driver transport"]
MIN_OUTCOMES = 4

DOM = [-1, 0, 1, 2]
BDOM = [0, 1]

HELPERS = r"""
:- use_module(library(clpz)).
:- use_module(library(lists)).

c27_f(T, G, L) :- catch(findall(T, G, L), E, c27_err(E, L)).
c27_err(E, L) :- ( nonvar(E), E = error(F, _) -> L = exc(F) ; L = exc(ball(E)) ).

% post once, label with four strategies (each labeling inside findall/3)
c27_sys(Vs, Post, R) :-
    catch(( call(Post) ->
              c27_f(Vs, labeling([ff], Vs), L1),
              c27_f(Vs, labeling([], Vs), L2),
              c27_f(Vs, labeling([down], Vs), L3),
              c27_f(Vs, labeling([bisect], Vs), L4),
              R = r(L1, L2, L3, L4)
          ;   R = failed ),
          E, c27_err(E, R)).

% ground instances: clpz constraint vs is/2 + comparison
c27_truth(G, T) :- catch(( call(G) -> T = true ; T = false ), error(F, _), c27_t(F, T)).
c27_t(F, T) :- ( F = evaluation_error(_) -> T = undefined ; T = exc(F) ).
c27_ground(X, Y, C, A, L) :-
    findall([X,Y,T1,T2], ( member(X, [-1,0,1,2]), member(Y, [-1,0,1,2]),
                           c27_truth(C, T1), c27_truth(A, T2) ), L).
"""


def bound_text(tier):
    return ("1 734 single comparisons (+ground instances), pairs of a 70-template core over X,Y in -1..2, B in 0..1" +
            ("; triples of a 24-template core over X,Y,Z" if tier == "thorough" else "") + "; 4 labeling strategies")


# ---------------------------------------------------------------------------
# expressions and constraints (Python tuples); text in operator notation

OPS = ["#=", "#\\=", "#<", "#=<", "#>", "#>="]
EXPRS = ["X", "Y", -1, 0, 2, ("+", "X", "Y"), ("-", "X", "Y"), ("*", "X", "Y"), ("*", 2, "X"), ("neg", "X"),
         ("abs", "X"), ("min", "X", "Y"), ("max", "X", "Y"), ("//", "X", "Y"), ("mod", "X", "Y"),
         ("rem", "X", "Y"), ("^", "X", 2)]
COMPOUND = [e for e in EXPRS if isinstance(e, tuple)]


def etext(e):
    if isinstance(e, int):
        return str(e) if e >= 0 else "(%d)" % e
    if isinstance(e, str):
        return e
    k = e[0]
    if k == "neg":
        return "(-(%s))" % etext(e[1])
    if k in ("abs",):
        return "abs(%s)" % etext(e[1])
    if k in ("min", "max"):
        return "%s(%s,%s)" % (k, etext(e[1]), etext(e[2]))
    return "(%s %s %s)" % (etext(e[1]), k, etext(e[2]))


class Undef(Exception):
    pass


def tdiv(a, b):
    q = abs(a) // abs(b)
    return q if (a >= 0) == (b >= 0) else -q


def ee(e, env):
    if isinstance(e, int):
        return e
    if isinstance(e, str):
        return env[e]
    k = e[0]
    a = ee(e[1], env)
    if k == "neg":
        return -a
    if k == "abs":
        return abs(a)
    b = ee(e[2], env)
    if k == "+":
        return a + b
    if k == "-":
        return a - b
    if k == "*":
        return a * b
    if k == "min":
        return min(a, b)
    if k == "max":
        return max(a, b)
    if k == "^":
        if b < 0:
            raise Undef()
        return a ** b
    if b == 0:
        raise Undef()
    if k == "//":
        return tdiv(a, b)
    if k == "mod":
        return a % b
    if k == "rem":
        return a - b * tdiv(a, b)
    if k == "div":
        return a // b
    raise ValueError(k)


def cmp(op, a, b):
    return {"#=": a == b, "#\\=": a != b, "#<": a < b, "#=<": a <= b, "#>": a > b, "#>=": a >= b}[op]


# constraints: ("cmp", op, L, R) | ("sum", [vars], op, c) | ("distinct", name, [terms]) |
#   ("b", "B") | ("not", C) | (conn, C1, C2) conn in <==> ==> <== \/ /\ xor | ("in", var, lo, hi)
CONN = {"<==>": "#<==>", "==>": "#==>", "<==": "#<==", "\\/": "#\\/", "/\\": "#/\\", "xor": "#\\"}


def ctext(c):
    k = c[0]
    if k == "cmp":
        return "%s %s %s" % (etext(c[2]), c[1], etext(c[3]))
    if k == "sum":
        return "sum([%s], %s, %s)" % (",".join(c[1]), c[2], etext(c[3]))
    if k == "distinct":
        return "%s([%s])" % (c[1], ",".join(etext(t) for t in c[2]))
    if k == "b":
        return c[1]
    if k == "not":
        return "#\\ (%s)" % ctext(c[1])
    if k == "in":
        return "%s in %s..%s" % (c[1], etext(c[2]), etext(c[3]))
    return "(%s) %s (%s)" % (ctext(c[1]), CONN[k], ctext(c[2]))


def ce(c, env):
    k = c[0]
    if k == "cmp":
        return cmp(c[1], ee(c[2], env), ee(c[3], env))
    if k == "sum":
        return cmp(c[2], sum(env[v] for v in c[1]), ee(c[3], env))
    if k == "distinct":
        vals = [ee(t, env) for t in c[2]]
        return len(set(vals)) == len(vals)
    if k == "b":
        return env[c[1]] == 1
    if k == "not":
        return not ce(c[1], env)
    if k == "in":
        return ee(c[2], env) <= env[c[1]] <= ee(c[3], env)
    a, b = ce(c[1], env), ce(c[2], env)
    if k == "<==>":
        return a == b
    if k == "==>":
        return (not a) or b
    if k == "<==":
        return a or (not b)
    if k == "\\/":
        return a or b
    if k == "/\\":
        return a and b
    if k == "xor":
        return a != b
    raise ValueError(k)


def uc(j):
    """JSON -> constraint (lists back to tuples, except the list arguments of sum/distinct)"""
    if isinstance(j, list):
        if j and j[0] == "sum":
            return ("sum", list(j[1]), j[2], uc(j[3]))
        if j and j[0] == "distinct":
            return ("distinct", j[1], [uc(t) for t in j[2]])
        return tuple(uc(a) for a in j)
    return j


def singles():
    return [("cmp", op, l, r) for op in OPS for l in EXPRS for r in EXPRS]


def core70():
    out = []
    for e in COMPOUND:
        out += [("cmp", "#=", e, "Y"), ("cmp", "#\\=", e, 0), ("cmp", "#<", e, "Y"), ("cmp", "#>=", e, 1)]
    out += [("sum", ["X", "Y"], "#=", 1), ("sum", ["X", "Y"], "#=<", 0), ("sum", ["X", "Y"], "#\\=", 2),
            ("sum", ["X", "Y"], "#>", 1)]
    out += [("distinct", "all_distinct", ["X", "Y"]), ("distinct", "all_different", ["X", "Y"]),
            ("distinct", "all_distinct", ["X", "Y", 0])]
    x_eq_y = ("cmp", "#=", "X", "Y")
    out += [("<==>", ("b", "B"), x_eq_y),
            ("<==>", ("b", "B"), ("cmp", "#<", "X", "Y")),
            ("<==>", ("b", "B"), ("cmp", "#>=", ("+", "X", "Y"), 1)),
            ("\\/", ("cmp", "#=", "X", 0), ("cmp", "#=", "Y", 1)),
            ("/\\", ("cmp", "#>", "X", 0), ("cmp", "#<", "Y", 1)),
            ("not", x_eq_y),
            ("==>", ("cmp", "#=", "X", 1), ("cmp", "#=", "Y", 2)),
            ("==>", ("b", "B"), ("cmp", "#>", "X", "Y")),
            ("<==", ("cmp", "#>=", "X", "Y"), ("b", "B")),
            ("xor", ("cmp", "#=", "X", 0), ("cmp", "#=", "Y", 0))]
    out += [x_eq_y, ("cmp", "#\\=", "X", "Y"), ("cmp", "#<", "X", "Y"), ("cmp", "#>=", "X", 1),
            ("in", "Y", 0, 1)]
    return out


def core24():
    """thorough: templates over X, Y, Z for triples"""
    return [("cmp", "#=", ("+", "X", "Y"), "Z"), ("cmp", "#=", ("*", "X", "Y"), "Z"), ("cmp", "#=", ("-", "X", "Y"), "Z"),
            ("cmp", "#<", "X", "Y"), ("cmp", "#<", "Y", "Z"), ("cmp", "#\\=", "X", "Z"), ("cmp", "#=<", "Z", "X"),
            ("cmp", "#=", ("//", "X", "Y"), "Z"), ("cmp", "#=", ("mod", "X", "Y"), "Z"), ("cmp", "#=", ("rem", "Z", "Y"), "X"),
            ("cmp", "#=", ("abs", "X"), "Z"), ("cmp", "#=", ("min", "X", "Y"), "Z"), ("cmp", "#=", ("max", "Y", "Z"), "X"),
            ("cmp", "#=", ("^", "X", 2), "Z"), ("cmp", "#>=", ("*", 2, "X"), "Z"), ("cmp", "#=", ("neg", "X"), "Y"),
            ("sum", ["X", "Y", "Z"], "#=", 2), ("sum", ["X", "Y", "Z"], "#<", 1), ("distinct", "all_distinct", ["X", "Y", "Z"]),
            ("distinct", "all_different", ["X", "Y", "Z"]),
            ("<==>", ("b", "B"), ("cmp", "#=", "X", "Z")), ("\\/", ("cmp", "#=", "X", "Y"), ("cmp", "#=", "Y", "Z")),
            ("==>", ("cmp", "#<", "X", "Y"), ("cmp", "#<", "Y", "Z")), ("not", ("cmp", "#=", "Y", "Z"))]


# ---------------------------------------------------------------------------

# --- division family: larger domains, operands of both signs (the ptzdiv/pmod/prem propagators branch on signs)
DIV_OPS = ["//", "mod", "rem", "div"]
DIV_Y = [-4, -3, -2, 2, 3, 4]
DIV_Z = [-3, -2, -1, 0, 1, 2, 3]
DIV_DOMS = [12, 7]
DIV_YD = [(-4, -2), (2, 4), (-4, 4)]
DIV_ZD = [(-3, 3), (-3, -1), (1, 3), (0, 0)]


def div_cases():
    for op in DIV_OPS:
        for d in DIV_DOMS:
            for mirror in (False, True):
                for y in DIV_Y:
                    for z in DIV_Z:
                        for form in ("const", "bound-after-post"):
                            yield {"kind": "div", "op": op, "dom": d, "mirror": mirror, "form": form, "y": y, "z": z}
                for yd in DIV_YD:
                    for zd in DIV_ZD:
                        yield {"kind": "div", "op": op, "dom": d, "mirror": mirror, "form": "domains",
                               "yd": list(yd), "zd": list(zd)}


def div_goal(case):
    op, d = case["op"], case["dom"]

    def con(y, z):
        l = "(X %s %s)" % (op, y)
        return "%s #= %s" % (z, l) if case["mirror"] else "%s #= %s" % (l, z)
    if case["form"] == "const":
        post = "X in -%d..%d, %s" % (d, d, con(etext(case["y"]), etext(case["z"])))
        vs = "X"
    elif case["form"] == "bound-after-post":
        post = "X in -%d..%d, Y in -4..4, Z in -3..3, %s, Y = %s, Z = %s" % (d, d, con("Y", "Z"), etext(case["y"]), etext(case["z"]))
        vs = "X"
    else:
        post = "X in -%d..%d, Y in %s..%s, Z in %s..%s, %s" % (d, d, etext(case["yd"][0]), etext(case["yd"][1]),
                                                             etext(case["zd"][0]), etext(case["zd"][1]), con("Y", "Z"))
        vs = "X,Y,Z"
    return "g(c27_sys([%s], (%s), R))" % (vs, post)


def div_solutions(case):
    d = case["dom"]
    e = (case["op"], "X", "Y")
    out = []
    if case["form"] == "domains":
        ys = range(case["yd"][0], case["yd"][1] + 1)
        zs = range(case["zd"][0], case["zd"][1] + 1)
    else:
        ys, zs = [case["y"]], [case["z"]]
    n = 0
    for x in range(-d, d + 1):
        for y in ys:
            for z in zs:
                n += 1
                try:
                    if ee(e, {"X": x, "Y": y}) == z:
                        out.append((x, y, z) if case["form"] == "domains" else (x,))
                except Undef:
                    pass
    return sorted(out), n


def div_skel(case):
    def sg(v):
        return "neg" if v < 0 else "pos" if v > 0 else "zero"
    if case["form"] == "domains":
        what = "Y=%d..%d Z=%d..%d" % (case["yd"][0], case["yd"][1], case["zd"][0], case["zd"][1])
    else:
        what = "Y=%s Z=%s" % (sg(case["y"]), sg(case["z"]))
    return "div-family %s%s %s %s" % (case["op"], "/mirrored" if case["mirror"] else "", case["form"], what)


def sys_vars(case):
    return ["X", "Y", "Z", "B"] if case["kind"] == "triple" else ["X", "Y", "B"]


def assignments(vs):
    doms = [BDOM if v == "B" else DOM for v in vs]
    return [dict(zip(vs, vals)) for vals in itertools.product(*doms)]


def solutions(cs, vs):
    out = []
    for env in assignments(vs):
        try:
            if all(ce(c, env) for c in cs):
                out.append(tuple(env[v] for v in vs))
        except Undef:
            pass
    return sorted(out)


def goal_of(case):
    k = case["kind"]
    if k == "div":
        return div_goal(case)
    if k == "ground":
        c = uc(case["cs"][0])
        a = "VL is %s, VR is %s, VL %s VR" % (etext(c[2]), etext(c[3]),
                                              {"#=": "=:=", "#\\=": "=\\=", "#<": "<", "#=<": "=<", "#>": ">", "#>=": ">="}[c[1]])
        return "g(c27_ground(X, Y, (%s), (%s), L))" % (ctext(c), a)
    vs = sys_vars(case)
    dom = ["%s in -1..2" % v for v in vs if v != "B"] + ["B in 0..1"]
    post = ", ".join(dom + [ctext(uc(c)) for c in case["cs"]])
    return "g(c27_sys([%s], (%s), R))" % (",".join(vs), post)


def rows(t):
    if isinstance(t, tuple) and t and t[0] == "exc":
        return ("exc", px.formal_sig(t[1]))
    el, _ = unlist(t)
    out = []
    for x in el:
        r, _ = unlist(x)
        out.append(tuple(r))
    return out


def skel(c):
    k = c[0]
    if k == "cmp":
        def es(e):
            return e[0] if isinstance(e, tuple) else ("var" if isinstance(e, str) else "int")
        return "%s(%s,%s)" % (c[1], es(c[2]), es(c[3]))
    if k == "sum":
        return "sum/%d%s" % (len(c[1]), c[2])
    if k == "distinct":
        return "%s/%d" % (c[1], len(c[2]))
    if k == "b":
        return "B"
    if k == "not":
        return "#\\(%s)" % skel(c[1])
    if k == "in":
        return "in"
    return "%s(%s,%s)" % (CONN[k], skel(c[1]), skel(c[2]))


STRATS = ["ff", "leftmost", "down", "bisect"]


def judge(case, res):
    if case["kind"] == "div":
        cs = []
        sk = div_skel(case)
    else:
        cs = [uc(c) for c in case["cs"]]
        sk = " & ".join(skel(c) for c in cs)
    if res.abn:
        return "abnormal", [("%s abnormal %s" % (sk, res.abn), "", res.abn)], False
    if res.status != "done" or len(res.sols) != 1:
        what = "exception:" + px.formal_sig(res.formal()) if res.status == "exc" else "no-result"
        return "broken", [("%s harness %s" % (sk, what), "", what)], False
    viols = []
    if case["kind"] == "ground":
        c = cs[0]
        obs = rows(res.sols[0]["L"])
        n_t = n_f = n_u = 0
        bad = []
        if isinstance(obs, tuple):
            return "broken", [("ground %s %s" % (sk, obs[1]), "", obs[1])], False
        seen = set()
        for (x, y, t1, t2) in obs:
            seen.add((x, y))
            try:
                want = "true" if ce(c, {"X": x, "Y": y}) else "false"
            except Undef:
                want = "undefined"
            n_t += want == "true"
            n_f += want == "false"
            n_u += want == "undefined"
            # clpz side: an undefined instance is a non-solution (fails)
            want1 = "false" if want == "undefined" else want
            if t1 != want1:
                bad.append(("clpz", x, y, want1, t1))
            if t2 != want:
                bad.append(("is", x, y, want, t2))
        if len(seen) != 16 or len(obs) != 16:
            viols.append(("ground %s incomplete-enumeration" % sk, 16, len(obs)))
        for side in ("clpz", "is"):
            b = [r for r in bad if r[0] == side]
            if b:
                viols.append(("ground %s %s-side exp=%s obs=%s" % (sk, side, b[0][3], px.terms.show(b[0][4])),
                              str([(r[1], r[2], r[3]) for r in b]), str([(r[1], r[2], px.terms.show(r[4])) for r in b])))
        return "ground:%s" % ("with-undefined" if n_u else "mixed" if n_t and n_f else "constant"), viols, bool(n_t and (n_f or n_u))
    if case["kind"] == "div":
        sols, total = div_solutions(case)
    else:
        vs = sys_vars(case)
        sols = solutions(cs, vs)
        total = len(assignments(vs))
    R = res.sols[0]["R"]
    if isinstance(R, tuple) and R[0] == "exc":
        viols.append(("post %s exception:%s" % (sk, px.formal_sig(R[1])), str(sols), px.terms.show(R)))
    elif R == "failed":
        if sols:
            viols.append(("post %s fails-on-satisfiable" % sk, str(sols), "failed"))
    else:
        for name, lt in zip(STRATS, R[1:]):
            got = rows(lt)
            if isinstance(got, tuple):
                viols.append(("labeling[%s] %s exception:%s" % (name, sk, got[1]), str(sols), got[1]))
                continue
            if not all(all(isinstance(v, int) for v in r) for r in got):
                viols.append(("labeling[%s] %s non-ground" % (name, sk), str(sols), px.terms.show(lt)))
                continue
            if sorted(got) != sols:
                es, os_ = set(sols), set(got)
                kind = ("missing" if es - os_ and not os_ - es else "extra" if os_ - es and not es - os_
                        else "duplicates" if es == os_ else "wrong")
                viols.append(("labeling[%s] %s %s" % (name, sk, kind), str(sols), str(sorted(got))))
    n = len(sols)
    label = "%s:%s" % (case["kind"], "unsat" if n == 0 else "all" if n == total else "1" if n == 1 else
                       "2-7" if n < 8 else "8+")
    return label, viols, 0 < n < total


def gen(shard, tier):
    kind, idx, n = shard
    if kind == "single":
        k = 0
        for c in singles():
            for kd in ("single", "ground"):
                k += 1
                if k % n == idx:
                    yield {"kind": kd, "cs": [list_c(c)]}
        for c in core70():
            if c[0] != "cmp":
                k += 1
                if k % n == idx:
                    yield {"kind": "single", "cs": [list_c(c)]}
    elif kind == "pair":
        core = core70()
        for k, (a, b) in enumerate(itertools.product(core, core)):
            if k % n == idx:
                yield {"kind": "pair", "cs": [list_c(a), list_c(b)]}
    elif kind == "div":
        for k, c in enumerate(div_cases()):
            if k % n == idx:
                yield c
    else:
        core = core24()
        for k, (a, b, c) in enumerate(itertools.product(core, core, core)):
            if k % n == idx:
                yield {"kind": "triple", "cs": [list_c(a), list_c(b), list_c(c)]}


def list_c(c):
    if isinstance(c, tuple):
        return [list_c(a) for a in c]
    if isinstance(c, list):
        return [list_c(a) for a in c]
    return c


NSH = {"quick": (8, 40, 0), "thorough": (8, 40, 112)}
NDIV = 16


def shards(tier):
    a, b, c = NSH[tier]
    return ([("single", i, a) for i in range(a)] + [("pair", i, b) for i in range(b)] +
            [("triple", i, c) for i in range(c)] + [("div", i, NDIV) for i in range(NDIV)])


def setup(w, tier):
    w.consult(HELPERS, persist=True)


def run_shard(w, shard, tier):
    acc = px.ShardAcc(max_viol=500)
    for batch in px.chunked(gen(shard, tier), 100):
        rs = px.run_goals(w, [goal_of(c) for c in batch])
        for case, r in zip(batch, rs):
            label, viols, nt = judge(case, r)
            acc.case(nt, label, sample={"goal": goal_of(case)[2:-1]})
            for vi, (sig, e, o) in enumerate(viols):
                c2 = dict(case)
                c2["which"] = vi
                acc.violation(sig, c2, expected=str(e), observed=str(o))
    return acc.result()


def recheck(w, case, tier):
    c = {k: v for k, v in case.items() if k != "which"}
    r = px.run_goals(w, [goal_of(c)])[0]
    label, viols, nt = judge(c, r)
    if not viols:
        return None
    sig, e, o = viols[min(case.get("which", 0), len(viols) - 1)]
    return {"sig": sig, "case": case, "expected": str(e), "observed": str(o)}
