"""C19 — Stream I/O round-trips and reports positions consistently (DESIGN §6 C19).

Explicit-state search.  A Python model of an input stream (bytes, byte offset,
past-EOF flag, newline counts, saved position; vx/model/c19_streams.py) is
driven in lock step with the implementation: every operation sequence of the
stated length over the operation alphabet is executed on a real file opened
with every eof_action x type, and the answer of *every* operation is compared
with the model (the model is nondeterministic exactly where the statement
leaves a choice; the implementation's answers select among the candidate
states, so later positions/reads must stay consistent with one reading).

Families
  read-deep   8 text + 5 binary payloads x 3 eof_actions: all core-op sequences
              of length 4 (Q) / 5 (T) plus all sequences of length 3 / 4 that
              contain a wrong-type operation
  read-wide   every payload of <= 3 items over {a, e-acute, euro, emoji, newline}
              (156) x 3 eof_actions x all op sequences of length 2 (Q) / 3 (T)
  write       every sequence of <= 2 (Q) / 3 (T) (character, writer) pairs over
              5 characters x {put_char, put_code, write, format ~w/~a/~s, nl},
              byte sequences with put_byte, wrong-type writers; the file is read
              back by Python (byte-exact UTF-8) and by get_char/get_code/get_byte
  big         files of 8192/16384 (thorough: 24576) bytes +-3 with 1-, 2-, 3-, 4-byte
              fillers and one 2-/3-/4-byte character starting at every byte offset
              -3..+1 around each 8 KiB reader-chunk boundary, written with put_char
              (per character) and with format ~s (bytes checked by Python), read back
              completely with get_char, peek_char+get_char, get_code,
              peek_code+get_code, get_n_chars in chunks of 7/4096/8191/8192/8193/20000,
              read_term of the text as one quoted atom; the whole character
              sequence, at_end_of_stream and the final position, and the position
              right after the boundary character, are compared with Python
  mem         write/2 to a file vs write_term_to_chars/3, read_term/3 from a file
              vs read_term_from_chars/3 (in-memory twins).  This tree has no
              Prolog-level constructor for an in-memory (Stream::Byte) stream -- they
              exist only behind charsio and the embedding API -- so memory streams
              are reached through these twins only.

Scryer has no line_count/2; the line counter is the second argument of the
position term position_and_lines_read(Pos, Lines).
"""
import itertools
import os

from vx.core import px, pool
from vx.core.terms import fmt, S, Raw, mklist, list_to_str
from vx.model import c19_streams as M

ID = "C19"
LEVEL = "model_checking"
ENGINE = "PEX"
TECHNIQUE = "explicit-state search: all operation sequences up to the bound, every step checked against a stream model"
RULE = ("all sequences of read/peek/position operations of the stated length over "
        "{get_char,peek_char,get_code,peek_code,get_n_chars(2),read_term,at_end_of_stream,"
        "stream_property(position+end_of_stream),set_stream_position(saved)} (+ byte ops; wrong-type ops) "
        "on files holding each payload, x eof_action x type; all (char,writer) sequences for the write half. "
        "Non-trivial: a peek followed by a read of a different kind, or the sequence reaches end-of-file "
        "(read half); the payload has a multi-byte character, a newline or a wrong-type writer (write half).")
LEVEL_TEXT = ("bounded model checking of the real stream code: every transition is executed on the implementation "
              "and compared with the model; states are model states validated against the implementation's answers")
ASSUMPTIONS = ["Python's UTF-8 codec and os file reads", "pworker put_file writes the bytes it is given",
               "driver transport of atoms/integers/lists",
               "where the statement leaves a choice (layout after the end token, meaning of eof_action(reset), "
               "past-EOF marking by get_n_chars) the model accepts every reading but requires consistency afterwards",
               "line count after set_stream_position is not compared"]
MIN_OUTCOMES = 4

SCRATCH = os.path.join(pool.WORK, "agentH")
HELPER = os.path.join(pool.ROOT, "vx", "prolog", "c19_streams.pl")

TEXT_CORE = ["gc", "pc", "gd", "pd", "gn", "rt", "ae", "pr", "sp"]
TEXT_EXT = ["gb", "pb"]
BIN_CORE = ["gb", "pb", "gn", "ae", "pr", "sp"]
BIN_EXT = ["gc", "pd", "rt"]
EOFS = ["error", "eof_code", "reset"]

TEXT_DEEP = ["", "a", "é\n", "€\U0001F600", "\n\na", "x. y.\nz.", "ab.\n\n", "a\U0001F600\né", "k. "]
BIN_DEEP = [b"", b"a", b"\xff", b"\n\xc3a", b"a\x00\xff\n"]
CHARS = ["a", "é", "€", "\U0001F600", "\n"]
WRITERS = ["c", "d", "w", "f", "fa", "fs"]

PEEKS = {"pc": "c", "pd": "d", "pb": "b"}
READS = {"gc": "c", "gd": "d", "gb": "b", "gn": "n", "rt": "t"}


def depth(tier):
    return (4, 3, 2) if tier == "quick" else (5, 4, 3)


def bound_text(tier):
    d, dx, dw = depth(tier)
    return ("read-deep: all core-op sequences of length %d and all sequences of length %d with a wrong-type op over "
            "%d text + %d binary payloads x 3 eof_actions; read-wide: 156 payloads x 3 eof_actions x all sequences "
            "of length %d over 11 ops; write: all (char,writer) sequences of length <= %d, bytes <= 3; mem twins; "
            "big: %d files around the %s-byte boundaries x 13 readers"
            % (d, dx, len(TEXT_DEEP), len(BIN_DEEP), dw, 2 if tier == "quick" else 3, len(big_files(tier)), big_bounds(tier)))


def wide_payloads():
    out = [""]
    for k in (1, 2, 3):
        for t in itertools.product(CHARS, repeat=k):
            out.append("".join(t))
    return out


def shards(tier):
    sh = []
    for i in range(len(TEXT_DEEP)):
        for e in EOFS:
            sh.append(("deep", "text", i, e))
    for i in range(len(BIN_DEEP)):
        for e in EOFS:
            sh.append(("deep", "binary", i, e))
    for first in [""] + CHARS:
        for e in EOFS:
            sh.append(("wide", first, e))
    for w in range(6):
        sh.append(("write", w))
    sh.append(("wbytes",))
    sh.append(("mem",))
    for i in range(BIG_SHARDS):
        sh.append(("big", i))
    return sh


def setup(w, tier):
    with open(HELPER) as f:
        w.consult(f.read(), persist=True)


def wdir():
    d = os.path.join(SCRATCH, str(os.getpid()))
    os.makedirs(d, exist_ok=True)
    return d


# ---------------------------------------------------------------------------
# read half

def sequences(core, ext, d, dx):
    for s in itertools.product(core, repeat=d):
        yield s
    full = core + ext
    extset = set(ext)
    for s in itertools.product(full, repeat=dx):
        if any(o in extset for o in s):
            yield s


def read_goal(path, typ, eof, ops):
    return "c19_read(%s,[type(%s),eof_action(%s),reposition(true)],[%s],O)" % (
        fmt(S(path)), typ, eof, ",".join(ops))


def conv_obs(t, op):
    """driver term -> comparable observation"""
    if t == "false":
        return ("false",)
    if isinstance(t, tuple) and t[0] == "r":
        v = t[1]
        if op == "gn":
            s = "" if v == "[]" else list_to_str(v)
            return ("r", s if s is not None else ("?", repr(v)))
        if isinstance(v, tuple) and v[0] == "p":
            pos = v[1]
            if isinstance(pos, tuple) and pos[0] == "position_and_lines_read" and len(pos) == 3:
                return ("r", ("p", pos[1], pos[2], v[2]))
            return ("r", ("p?", repr(pos)))
        return ("r", v)
    if isinstance(t, tuple) and t[0] == "e":
        return ("e", t[1])
    if isinstance(t, tuple) and t[0] == "b":
        return ("b", repr(t[1]))
    return ("?", repr(t))


def obs_kind(o):
    if o[0] == "e":
        return "error:" + px.formal_sig(o[1])
    if o[0] == "false":
        return "failed"
    if o[0] == "r":
        v = o[1]
        if isinstance(v, tuple) and v and v[0] == "p":
            return "position"
        if v in ("end_of_file", -1):
            return "eof"
        return "value"
    return o[0]


def check_sequence(ctx, ops, obs_terms):
    """-> (violations [(sig, step, expected, observed)], stateset trace, info)"""
    cands = [M.init_state()]
    viols = []
    trace = []
    info = {"eof": False, "err": False, "taint": False}
    allops = list(ops) + ["pr"]
    if len(obs_terms) != len(allops):
        return [("read %s: observation list has wrong length" % ctx.typ, -1, len(allops), len(obs_terms))], trace, info
    for i, (op, t) in enumerate(zip(allops, obs_terms)):
        obs = conv_obs(t, op)
        matches = []   # (successor, flag, note)
        exps = []
        for st in cands:
            for exp, st2, flag in M.step(ctx, st, op):
                exps.append(exp)
                ok, note = M.obs_match(exp, obs)
                if ok:
                    matches.append((st2, flag, note))
        if not matches:
            cls = M.classify(ctx, cands[0])
            viols.append(("read %s eof=%s op=%s state=%s: %s" % (ctx.typ, ctx.eof, op, cls, obs_kind(obs)),
                          i, repr(exps[:4]), repr(obs)))
            break
        allowed = [m for m in matches if m[1] is None]
        if allowed:
            # an outcome the statement allows wins over a recognised deviation
            if all(m[2] == "lines_rt_only" for m in allowed):
                viols.append(("read %s line count ignores newlines consumed by character input" % ctx.typ,
                              i, repr(exps[:2]), repr(obs)))
            use = allowed
        else:
            for fl in sorted(set(m[1] for m in matches)):
                viols.append(("read %s op=%s %s" % (ctx.typ, op, fl), i, repr([e for e in exps if e][:3]), repr(obs)))
            use = matches
        cands = []
        for m in use:
            if m[0] not in cands:
                cands.append(m[0])
        trace.append(tuple(sorted(cands, key=repr)))
        if obs[0] == "e":
            info["err"] = True
        if obs[0] == "r" and obs[1] in ("end_of_file", -1):
            info["eof"] = True
        if all(c == M.TAINT for c in cands):
            info["taint"] = True
            break
    # de-duplicate violation sigs within the sequence
    seen = set()
    out = []
    for v in viols:
        if v[0] not in seen:
            seen.add(v[0])
            out.append(v)
    return out, trace, info


def seq_nontrivial(ops, info):
    if info["eof"]:
        return True
    for i, o in enumerate(ops):
        if o in PEEKS:
            for p in ops[i + 1:]:
                if p in READS and READS[p] != PEEKS[o]:
                    return True
    return False


def run_read_family(w, acc, states, files, typ, eof, seqs):
    """files: list of (path, data). seqs: iterable of op tuples. All combinations."""
    def gen():
        for path, data in files:
            ctx = M.Ctx(data, typ, eof)
            for s in seqs:
                yield (path, ctx, s)
    for batch in px.chunked(gen(), 300):
        rs = px.run_goals(w, [read_goal(p, typ, eof, s) for (p, c, s) in batch])
        for (path, ctx, ops), r in zip(batch, rs):
            case = {"kind": "read", "typ": typ, "eof": eof, "data": ctx.data.hex(), "ops": list(ops)}
            judge_read(acc, states, ctx, ops, r, case)


def judge_read(acc, states, ctx, ops, r, case):
    acc.transitions += len(ops) + 1
    if r.abn:
        acc.case(True, "abnormal")
        acc.violation("read %s eof=%s: %s" % (ctx.typ, ctx.eof, r.abn), case, expected="no crash", observed=r.abn)
        return
    if r.status != "done" or len(r.sols) != 1:
        acc.case(True, "driver_" + str(r.status))
        acc.violation("read %s eof=%s: helper %s" % (ctx.typ, ctx.eof,
                      "raised " + px.formal_sig(r.formal()) if r.status == "exc" else "failed"),
                      case, expected="observation list", observed=repr(r.exc))
        return
    obs_terms, tail = px.unlist(r.sols[0]["O"])
    viols, trace, info = check_sequence(ctx, ops, obs_terms)
    for t in trace:
        states.add((ctx.data, ctx.typ, ctx.eof, t))
    fin = trace[-1][0] if trace else None
    label = "%s:%s%s%s" % (ctx.typ[0], M.classify(ctx, fin) if fin else "none",
                           "+eof" if info["eof"] else "", "+err" if info["err"] else "")
    if viols:
        label = "deviation"
    acc.case(seq_nontrivial(ops, info), label,
             sample={"file_bytes": ctx.data.hex(), "type": ctx.typ, "eof_action": ctx.eof, "ops": list(ops),
                     "observed": [repr(conv_obs(t, o)) for t, o in zip(obs_terms, list(ops) + ["pr"])]})
    for sig, i, exp, obs in viols:
        acc.violation(sig, dict(case, focus=sig), expected="step %d: one of %s" % (i, exp), observed=obs)


# ---------------------------------------------------------------------------
# write half

def item_term(ch, wr):
    a = fmt(ch)
    if wr == "c":
        return "c(%s)" % a
    if wr == "d":
        return "d(%d)" % ord(ch)
    if wr == "n":
        return "n"
    if wr == "fs":
        return "fs([%s])" % a
    return "%s(%s)" % (wr, a)


def write_cases(tier, widx):
    """sequences of (char, writer) pairs; shard widx selects the writer of the first item"""
    pairs = [(c, wr) for c in CHARS for wr in WRITERS] + [("\n", "n")]
    first = [p for p in pairs if p[1] == WRITERS[widx] or (widx == 0 and p[1] == "n")]
    maxlen = 2 if tier == "quick" else 3
    for f in first:
        yield [f]
        for p2 in pairs:
            yield [f, p2]
            if maxlen >= 3:
                for p3 in pairs:
                    yield [f, p2, p3]
    if tier == "quick":
        # uniform-writer triples
        wr = WRITERS[widx]
        for t in itertools.product(CHARS, repeat=3):
            yield [(c, wr) for c in t]
    if widx == 0:
        yield []
        # wrong-type writer on a text stream
        yield [("a", "c"), ("\x61", "b!")]


def run_write(w, acc, tier, widx):
    d = wdir()
    for batch in px.chunked(enumerate(write_cases(tier, widx)), 150):
        goals = []
        meta = []
        for k, (n, items) in enumerate(batch):
            path = os.path.join(d, "w%d_%d.txt" % (widx, k))
            goals.append(write_goal(path, "text", items))
            meta.append((path, items))
        rs = px.run_goals(w, goals)
        # read back through the implementation
        rgoals = []
        for path, items in meta:
            nread = len(items) + 1
            rgoals.append(read_goal(path, "text", "eof_code", (["gc", "gd"] * nread)[:nread]))
        rr = px.run_goals(w, rgoals)
        for (path, items), r, r2 in zip(meta, rs, rr):
            judge_write(acc, "text", items, path, r, r2)


def write_goal(path, typ, items):
    its = []
    for ch, wr in items:
        if wr == "b!":
            its.append("b(%d)" % ord(ch))
        elif wr == "b":
            its.append("b(%d)" % ch)
        elif wr == "c!":
            its.append("c(%s)" % fmt(ch))
        else:
            its.append(item_term(ch, wr))
    return "c19_write(%s,%s,[%s],O)" % (fmt(S(path)), typ, ",".join(its))


def expected_write(typ, items):
    """-> (bytes, [expected per-item obs])"""
    out = b""
    obs = []
    for ch, wr in items:
        if wr == "b!":
            obs.append(("e", ("permission_error", "output", "text_stream")))
        elif wr == "c!":
            obs.append(("e", ("permission_error", "output", "binary_stream")))
        elif wr == "b":
            out += bytes([ch])
            obs.append("ok")
        else:
            out += ch.encode("utf-8")
            obs.append("ok")
    return out, obs


def judge_write(acc, typ, items, path, r, r2):
    case = {"kind": "write", "typ": typ, "items": [[c, wr] for c, wr in items]}
    exp_bytes, exp_obs = expected_write(typ, items)
    nt = any((wr in ("b!", "c!")) or (isinstance(c, str) and (c == "\n" or ord(c) > 127)) or
             (isinstance(c, int) and c > 127) for c, wr in items)
    acc.transitions += len(items) + len(items) + 2
    v = write_verdict(typ, items, path, r, r2, exp_bytes, exp_obs)
    if v is None:
        acc.case(nt, "w:%s:%s" % (typ[0], "err" if any(o != "ok" for o in exp_obs) else
                                  "multibyte" if len(exp_bytes) > len(items) else "ascii"),
                 sample={"items": case["items"], "file_bytes": exp_bytes.hex()})
    else:
        acc.case(nt, "deviation")
        acc.violation(v[0], case, expected=v[1], observed=v[2])


def write_verdict(typ, items, path, r, r2, exp_bytes, exp_obs):
    writers = "+".join(sorted(set(wr for _, wr in items)))
    if r.abn:
        return ("write %s [%s]: %s" % (typ, writers, r.abn), "no crash", r.abn)
    if r.status != "done" or len(r.sols) != 1:
        return ("write %s [%s]: helper did not complete (%s)" % (typ, writers, r.status), "ok", repr(r.exc))
    obs, _ = px.unlist(r.sols[0]["O"])
    obs = [("e", M_formal(o[1])) if isinstance(o, tuple) and o[0] == "e" else o for o in obs]
    if obs != exp_obs:
        bad = [i for i, (a, b) in enumerate(zip(obs, exp_obs)) if a != b]
        wr = items[bad[0]][1] if bad else "?"
        return ("write %s writer=%s: wrong result %s" % (typ, wr, obs_short(obs[bad[0]]) if bad else "length"),
                repr(exp_obs), repr(obs))
    try:
        with open(path, "rb") as f:
            got = f.read()
    except OSError as e:
        return ("write %s [%s]: file missing" % (typ, writers), exp_bytes.hex(), str(e))
    if got != exp_bytes:
        return ("write %s [%s]: wrong bytes in file" % (typ, writers), exp_bytes.hex(), got.hex())
    # read-back through the implementation
    if r2.abn:
        return ("readback %s: %s" % (typ, r2.abn), "no crash", r2.abn)
    if r2.status != "done" or len(r2.sols) != 1:
        return ("readback %s: helper did not complete" % typ, "ok", repr(r2.exc))
    robs, _ = px.unlist(r2.sols[0]["O"])
    if typ == "text":
        chars = list(exp_bytes.decode("utf-8"))
        want = []
        for i in range(len(items) + 1):
            op = "gc" if i % 2 == 0 else "gd"
            if i < len(chars):
                want.append(("r", chars[i] if op == "gc" else ord(chars[i])))
            else:
                want.append(("r", "end_of_file" if op == "gc" else -1))
        got_obs = [conv_obs(t, "gc") for t in robs[:-1]]
        # past-EOF second read with eof_code repeats the eof value
    else:
        want = [("r", b) for b in exp_bytes]
        want += [("r", -1)] * (len(items) + 1 - len(want))
        got_obs = [conv_obs(t, "gb") for t in robs[:-1]]
    want = want[:len(got_obs)]
    if got_obs != want:
        return ("readback %s [%s]: read differs from what was written" % (typ, writers), repr(want), repr(got_obs))
    return None


def M_formal(f):
    return f


def obs_short(o):
    if isinstance(o, tuple) and o[0] == "e":
        return "error:" + px.formal_sig(o[1])
    return str(o)[:30]


BYTES = [0x61, 0xFF, 0x0A, 0x00, 0xC3]


def run_wbytes(w, acc, tier):
    d = wdir()
    cases = [[]]
    for k in (1, 2, 3):
        for t in itertools.product(BYTES, repeat=k):
            cases.append([(b, "b") for b in t])
    cases.append([(0x61, "b"), ("a", "c!")])
    cases.append([("é", "c!"), (0x61, "b")])
    for batch in px.chunked(enumerate(cases), 150):
        goals, meta = [], []
        for k, (n, items) in enumerate(batch):
            path = os.path.join(d, "wb_%d.bin" % k)
            goals.append(write_goal(path, "binary", items))
            meta.append((path, items))
        rs = px.run_goals(w, goals)
        rr = px.run_goals(w, [read_goal(p, "binary", "eof_code", ["gb"] * (len(it) + 1)) for p, it in meta])
        for (path, items), r, r2 in zip(meta, rs, rr):
            judge_write(acc, "binary", items, path, r, r2)


# ---------------------------------------------------------------------------
# in-memory twins

MEM_TERMS = ["a", "'é'", "'hello world'", "[]", "'[]'", "{}", "42", "-7", "1.5", "f(a,b)",
             "[a,b,c]", "[a|b]", "\"str\"", "1+2*3", "- 1", "-(1)", "-(-(1))", "a:b:c", "(a,b)", "'\\n'",
             "f(',')", "{a,b}", "[(a:-b)]", "\\+a", "1-(2-3)", "(a:-b,c;d)", "'\U0001F600'(x)", "2**3", "- a"]


def run_mem(w, acc):
    d = wdir()
    goals = []
    for i, t in enumerate(MEM_TERMS):
        path = os.path.join(d, "m%d.txt" % i)
        for wr in ("write", "writeq", "write_canonical"):
            opts = {"write": "[]", "writeq": "[quoted(true)]", "write_canonical": "[quoted(true),ignore_ops(true)]"}[wr]
            goals.append((t, wr, path, "c19_memw(%s,%s,%s,(%s),Cs)" % (fmt(S(path + "." + wr)), wr, opts, t)))
    rs = px.run_goals(w, [g[3] for g in goals])
    for (t, wr, path, g), r in zip(goals, rs):
        case = {"kind": "memw", "term": t, "writer": wr}
        acc.transitions += 2
        v = None
        if r.abn:
            v = ("mem %s: %s" % (wr, r.abn), "no crash", r.abn)
        elif r.status != "done" or len(r.sols) != 1:
            v = ("mem %s: helper did not complete" % wr, "ok", repr(r.exc or r.status))
        else:
            cs = r.sols[0]["Cs"]
            s = "" if cs == "[]" else list_to_str(cs)
            with open(path + "." + wr, "rb") as f:
                got = f.read()
            if s is None or got != s.encode("utf-8"):
                v = ("mem %s: file text differs from write_term_to_chars" % wr, repr(s), repr(got))
        if v:
            acc.case(True, "deviation")
            acc.violation(v[0], case, expected=v[1], observed=v[2])
        else:
            acc.case("\\" in t or any(ord(c) > 127 for c in t) or wr != "write", "mem:" + wr,
                     sample={"term": t, "writer": wr})
    # reading twin
    goals = []
    for i, t in enumerate(MEM_TERMS + ["f(A,B,A)", "[X|Y]", "_"]):
        path = os.path.join(d, "mr%d.txt" % i)
        goals.append((t, "c19_memr(%s,(%s),R)" % (fmt(S(path)), t)))
    rs = px.run_goals(w, [g[1] for g in goals])
    for (t, g), r in zip(goals, rs):
        case = {"kind": "memr", "term": t}
        acc.transitions += 2
        if r.abn:
            acc.case(True, "deviation")
            acc.violation("memr: %s" % r.abn, case, expected="no crash", observed=r.abn)
        elif r.status != "done" or len(r.sols) != 1 or r.sols[0]["R"] != "same":
            acc.case(True, "deviation")
            acc.violation("memr: read_term from file differs from read_term_from_chars", case, expected="same",
                          observed=repr(r.sols[0]["R"] if r.sols else r.exc or r.status))
        else:
            acc.case(True, "mem:read", sample={"term": t})


# ---------------------------------------------------------------------------

# ---------------------------------------------------------------------------
# large payloads: files longer than the reader's 8 KiB chunk, a multi-byte character on the chunk boundary

BIG_SHARDS = 24
BIG_FILLERS = ["a", "é", "€", "\U0001F600"]
BIG_MB = ["é", "€", "\U0001F600"]


def big_bounds(tier):
    return [8192, 16384] if tier == "quick" else [8192, 16384, 24576]


def big_files(tier):
    """-> [(tag, kind, content, body, K)]: kind plain|quoted; body = the characters a reader must deliver
    (for quoted files the atom's text); K = index just past the boundary character"""
    out = []
    seen = set()
    deltas = range(-3, 2) if tier == "quick" else range(-4, 3)

    def add(tag, kind, content, body, k):
        if content not in seen:
            seen.add(content)
            out.append((tag, kind, content, body, k))

    for B in big_bounds(tier):
        for f in BIG_FILLERS:
            wf = len(f.encode("utf-8"))
            for c in BIG_MB:
                wc = len(c.encode("utf-8"))
                for d in deltas:
                    q = B + d
                    r = q % wf
                    prefix = "b" * r + f * ((q - r) // wf)
                    for ti, tail in enumerate(("", f * 2 + "z")):
                        add("st:%d:%dB:%dB:%+d:%d" % (B, wf, wc, d, ti), "plain", prefix + c + tail, prefix + c + tail,
                            len(prefix) + 1)
                    if f in ("a", "€"):
                        q1 = q - 1     # the opening quote
                        r1 = q1 % wf
                        body = "b" * r1 + f * ((q1 - r1) // wf) + c + f
                        add("qa:%d:%dB:%dB:%+d" % (B, wf, wc, d), "quoted", "'" + body + "'.\n", body, len(body))
            for e in range(-3, 4):
                n = B + e
                r = n % wf
                content = "b" * r + f * ((n - r) // wf)
                # index just past the character that contains byte B-1
                k = min(len(content), r + (max(0, B - r - 1) // wf) + 1)
                add("sz:%d:%dB:%+d" % (B, wf, e), "plain", content, content, k)
    return out


def big_readers(kind, body, k):
    if kind == "quoted":
        return [("rt",)]
    return [("gc",), ("pgc",), ("gd",), ("pgd",), ("gn", 7), ("gn", 4096), ("gn", 8191), ("gn", 8192), ("gn", 8193),
            ("gn", 20000), ("pos", k), ("npos", k), ("npos", max(0, k - 1))]


def reader_term(rd):
    return rd[0] if len(rd) == 1 else "%s(%d)" % rd


def big_expect(rd, content, body):
    """-> (cmp, at_end, pos) ; pos None = not compared"""
    n = len(body)
    nb = len(content.encode("utf-8"))
    if rd[0] in ("pos", "npos"):
        k = min(rd[1], n)
        return ("took", k), k == n, len(body[:k].encode("utf-8"))
    if rd[0] == "rt":
        return ("eq", n), True, nb
    return ("eq", n), True, nb


def qbig(s):
    out = ['"']
    for c in s:
        if c == '"':
            out.append('\\"')
        elif c == "\\":
            out.append("\\\\")
        elif c == "\n":
            out.append("\\n")
        else:
            out.append(c)
    out.append('"')
    return "".join(out)


def run_big(w, acc, files, only=None):
    d = wdir()
    for (tag, kind, content, body, k) in files:
        p_pc = os.path.join(d, "big_pc.txt")
        p_fm = os.path.join(d, "big_fm.txt")
        lit = qbig(content)
        rs = px.run_goals(w, ["c19_bigwrite(%s,pc,%s)" % (fmt(S(p_pc)), lit), "c19_bigwrite(%s,fmt,%s)" % (fmt(S(p_fm)), lit)])
        want = content.encode("utf-8")
        parts = tag.split(":")
        where = "%s boundary=%s filler=%s" % (parts[0], parts[1], parts[2])
        for wr, path, r in (("put_char", p_pc, rs[0]), ("format", p_fm, rs[1])):
            acc.transitions += 1
            case = {"kind": "big", "tag": tag, "reader": None}
            v = None
            if r.abn or r.status != "done" or len(r.sols) != 1:
                v = ("big write %s %s: %s" % (wr, where, r.abn or "did not complete"), "written", repr(r.abn or r.exc or r.status))
            else:
                try:
                    with open(path, "rb") as f:
                        got = f.read()
                except OSError as e:
                    got = None
                if got != want:
                    v = ("big write %s %s: wrong bytes in file" % (wr, where), "%d bytes" % len(want),
                         "missing" if got is None else "%d bytes, first difference at %d" % (len(got), first_diff(got, want)))
            if v:
                acc.case(True, "deviation")
                acc.violation(v[0], dict(case, focus=v[0]), expected=v[1], observed=v[2])
            else:
                acc.case(True, "big:write:" + wr, sample={"file": tag, "bytes": len(want), "writer": wr})
        readers = big_readers(kind, body, k)
        if only:
            readers = [rd for rd in readers if list(rd) == list(only)] or readers
        blit = qbig(body)
        r = px.run_goals(w, ["c19_big(%s,%s,[%s],R)" % (fmt(S(p_pc)), blit, ",".join(reader_term(x) for x in readers))])[0]
        if r.abn or r.status != "done" or len(r.sols) != 1:
            # attribute to a reader: one at a time
            results = []
            for rd in readers:
                r1 = px.run_goals(w, ["c19_big(%s,%s,[%s],R)" % (fmt(S(p_pc)), blit, reader_term(rd))])[0]
                results.append((rd, r1, None))
        else:
            results = [(rd, r, t) for rd, t in zip(readers, px.unlist(r.sols[0]["R"])[0])]
        for rd, r1, t in results:
            acc.transitions += 1
            case = {"kind": "big", "tag": tag, "reader": list(rd)}
            if t is None:
                if r1.abn or r1.status != "done" or len(r1.sols) != 1:
                    sig = "big read %s %s: %s" % (rd[0], where, r1.abn or "did not complete")
                    acc.case(True, "deviation")
                    acc.violation(sig, dict(case, focus=sig), expected="the file's characters", observed=repr(r1.abn or r1.exc or r1.status))
                    continue
                t = px.unlist(r1.sols[0]["R"])[0][0]
            ecmp, eae, epos = big_expect(rd, content, body)
            cmp_, ae, pos = t[2], t[3], t[4]
            ocmp = (cmp_[0],) + tuple(cmp_[1:2]) if isinstance(cmp_, tuple) else (cmp_,)
            bad = None
            if ocmp != ecmp:
                bad = "data %s" % ocmp[0]
            elif (ae == "true") != eae:
                bad = "at_end_of_stream=%s" % ae
            elif pos != epos:
                bad = "position wrong"
            if bad:
                sig = "big read %s %s: %s" % (rd[0], where, bad)
                acc.case(True, "deviation")
                acc.violation(sig, dict(case, focus=sig), expected=repr((ecmp, eae, epos)), observed=repr((cmp_, ae, pos))[:300])
            else:
                acc.case(True, "big:%s:%s" % (rd[0], parts[0]),
                         sample={"file": tag, "bytes": len(want), "chars": len(body), "reader": reader_term(rd),
                                 "result": repr(ecmp), "position": epos})
        for pth in (p_pc, p_fm):
            try:
                os.remove(pth)
            except OSError:
                pass


def first_diff(a, b):
    for i, (x, y) in enumerate(zip(a, b)):
        if x != y:
            return i
    return min(len(a), len(b))



def run_shard(w, shard, tier):
    acc = px.ShardAcc()
    states = set()
    d, dx, dw = depth(tier)
    kind = shard[0]
    if kind == "deep":
        _, typ, i, eof = shard
        data = TEXT_DEEP[i].encode("utf-8") if typ == "text" else BIN_DEEP[i]
        path = os.path.join(wdir(), "deep_%s_%d.dat" % (typ, i))
        w.put_file(path, data)
        core, ext = (TEXT_CORE, TEXT_EXT) if typ == "text" else (BIN_CORE, BIN_EXT)
        run_read_family(w, acc, states, [(path, data)], typ, eof, list(sequences(core, ext, d, dx)))
    elif kind == "wide":
        _, first, eof = shard
        pls = [p for p in wide_payloads() if (p[:1] == first)]
        files = []
        for k, p in enumerate(pls):
            path = os.path.join(wdir(), "wide_%d_%d.dat" % (ord(first) if first else 0, k))
            w.put_file(path, p.encode("utf-8"))
            files.append((path, p.encode("utf-8")))
        seqs = list(itertools.product(TEXT_CORE + TEXT_EXT, repeat=dw))
        run_read_family(w, acc, states, files, "text", eof, seqs)
    elif kind == "write":
        run_write(w, acc, tier, shard[1])
    elif kind == "wbytes":
        run_wbytes(w, acc, tier)
    elif kind == "mem":
        run_mem(w, acc)
    elif kind == "big":
        run_big(w, acc, big_files(tier)[shard[1]::BIG_SHARDS])
    acc.states = len(states)
    return acc.result()


def recheck(w, case, tier):
    acc = px.ShardAcc()
    states = set()
    k = case["kind"]
    d = wdir()
    if k == "big":
        hit = [f for t in ("quick", "thorough") for f in big_files(t) if f[0] == case["tag"]]
        if not hit:
            return None
        run_big(w, acc, hit[:1], only=case.get("reader"))
        for v in acc.violations:
            if v["sig"] == case.get("focus"):
                return v
        return acc.violations[0] if acc.violations else None
    if k == "read":
        data = bytes.fromhex(case["data"])
        path = os.path.join(d, "replay.dat")
        w.put_file(path, data)
        ctx = M.Ctx(data, case["typ"], case["eof"])
        r = px.run_goals(w, [read_goal(path, case["typ"], case["eof"], case["ops"])])[0]
        judge_read(acc, states, ctx, tuple(case["ops"]), r, case)
    elif k == "write":
        items = [(c, wr) for c, wr in case["items"]]
        typ = case["typ"]
        path = os.path.join(d, "replay_w.dat")
        r = px.run_goals(w, [write_goal(path, typ, items)])[0]
        n = len(items) + 1
        ops = (["gc", "gd"] * n)[:n] if typ == "text" else ["gb"] * n
        r2 = px.run_goals(w, [read_goal(path, typ, "eof_code", ops)])[0]
        judge_write(acc, typ, items, path, r, r2)
    else:
        # mem twins: the whole (small) family is re-run; report the matching case
        run_mem(w, acc)
        for v in acc.violations:
            if v["case"] == case:
                return v
        return None
    for v in acc.violations:
        if v["sig"] == case.get("focus"):
            return v
    return acc.violations[0] if acc.violations else None
