"""C30 — memory exhaustion at any allocation raises a catchable error (DESIGN §6 C30).

Engine FLT (hooks H2-H4): the heap is trimmed to its length and switched to
one-cell ("tight") growth, so that every allocation site of a workload is a
growth attempt; the attempts between the ARM and DISARM markers are counted
once, then the workload is re-run with the k-th attempt failing, for every k,
in two modes: one-shot (only the k-th attempt fails) and sticky (every attempt
from the k-th on fails until the handler has run). After each run the workload
(unarmed) and a battery of follow-up goals must give their reference answers on
the same machine.
"""
from vx.core import pool, px, terms, flt

ID = "C30"
LEVEL = "fault_enumeration"
ENGINE = "FLT"
TECHNIQUE = ("exhaustive fault-point enumeration: the k-th heap growth attempt fails, for every k and both fault "
             "modes (hook-driven, one-cell growth so that every allocation is a growth attempt), each run followed by "
             "reference-compared follow-up goals on the same machine")
RULE = ("workloads x every growth attempt index k in 0..N-1 (N measured per workload under one-cell growth) x "
        "{one-shot, sticky}; quick: one-shot at every k of the workload's interior up to 400 per workload and every 5th "
        "beyond, sticky at 4 points per workload; thorough: every k in both modes. Non-trivial: the fault lands strictly inside the workload (between the W0 and W1 markers).")
LEVEL_TEXT = ("every heap growth attempt of the listed workloads is an explored fault point; the oracle is a catchable "
              "error(resource_error(memory), _) (or a correct completion when the failed growth was not needed), no "
              "panic/abort, and reference answers of follow-up goals on the same machine")
ASSUMPTIONS = ["only failure of InnerHeap::grow is injected (term heap and the other Heap instances); failure of the stack, trail, arena, atom table or Rust collections is outside the statement ('if growing the heap fails')",
               "one-cell growth (hook H3) changes when growth happens, not what the code does with the memory",
               "the q transport runs every goal through Machine::run_query"]
MIN_OUTCOMES = 2

HELPERS = r"""
:- use_module(library(lists)).
:- use_module(library(between)).
:- use_module(library(freeze)).
:- use_module(library(dif)).
:- use_module(library(iso_ext)).
:- use_module(library(charsio)).
:- dynamic(w30/1).
:- dynamic(fz30/1).
num30(N, N, [N]) :- !.
num30(I, N, [I|T]) :- I < N, I1 is I + 1, num30(I1, N, T).
wl30_list(L) :- num30(1, 60, L).
wl30_copy(C) :- T = f(X, g(Y, X), "a string", [1,2,3|Z], h(Y, "more")), copy_term(T, C).
wl30_findall(L) :- findall(X-Y, (between(1, 12, X), Y is X * X), L).
wl30_assert(L) :- retractall(w30(_)), assertz(w30(f(1,"s"))), assertz(w30(g(2))), findall(X, w30(X), L), retractall(w30(_)).
wl30_strings(A-L-N) :- atom_chars(abcdefghij, C1), append(C1, "klmnop", L), atom_chars(A, L), number_codes(N, "123456789012345678901234567890").
wl30_bignum(X-Y) :- X is 7 ^ 80 + 3 ^ 70, Y is X // (2 ^ 64) + 1 rdiv 3.
wl30_read(T) :- read_term_from_chars("foo(Bar, [1,2,3|Baz], \"str\", 'q a', 1.5e10, g(Bar)).", T, []).
wl30_sort(L-K) :- sort([c,a,b,a,d,f(x),"s",1.0,1], L), keysort([2-a,1-b,2-c,1-d], K).
wl30_bagof(Ls) :- findall(X-L, bagof(Y, member(X-Y,[1-a,2-b,1-c,2-d]), L), Ls).
wl30_attr(X-Y-Z) :- freeze(X, Y = 1), dif(Z, a), X = 2, Z = b.
wl30_univ(T-F-A) :- T =.. [foo, 1, "ab", X, g(X)], functor(T, F, A).
wl30_length(L) :- length(L, 40).
"""

NAMES = ["list", "copy", "findall", "assert", "strings", "bignum", "read", "sort", "bagof", "attr", "univ", "length"]
FOLLOWUPS = [
    "findall(X, member(X,[1,2,3]), L)",
    "(assertz(fz30(1)), findall(X, fz30(X), L), retract(fz30(1)))",
    "(atom_chars(A, \"xyz\"), atom_length(A, N))",
    "copy_term(f(X,Y,X,\"s\"), C)",
    "catch(throw(b), B, true)",
    "(X = f(Y), Y = 2, findall(P-Q, (member(P,[1,2]), member(Q,[x])), L))",
]


def is_memory_error(t):
    return (isinstance(t, tuple) and len(t) == 3 and t[0] == "error"
            and t[1] == ("resource_error", "memory"))


def points(i, N, w0, w1, tier):
    lo = 0 if i == 0 else (w0 or 0)
    pts = list(range(lo, N))
    if tier == "thorough":
        return pts
    return [k for j, k in enumerate(pts) if j < 400 or k % 5 == 0]


def points_sticky(i, N, w0, w1, tier):
    if tier == "thorough":
        return points(i, N, w0, w1, tier)
    # on the pinned tree every sticky run ends in the same deliberate panic
    # (known finding F-C30-1) and costs a machine rebuild: the quick tier keeps
    # four points per workload, the thorough tier all of them
    lo = w0 or 0
    return sorted(set([lo, lo + 1, (lo + N) // 2, N - 1]))


def mk(sticky):
    wl = [("%s%s" % (n, "_sticky" if sticky else ""), "vx_flt(R, wl30_%s(R))" % n) for n in NAMES]
    return flt.Flt("C30", "heap", HELPERS, wl, FOLLOWUPS, is_memory_error, points_sticky if sticky else points,
                   arm_opts={"tight": True, "trim": True, "sticky": sticky},
                   fault_name="growth failure", accept_completed=True)


ENGS = {False: mk(False), True: mk(True)}


def bound_text(tier):
    return "every growth attempt of %d workloads x {one-shot, sticky}%s" % (
        len(NAMES), "" if tier == "thorough" else " (first 400 per workload, every 5th beyond)")


def setup(w, tier):
    ENGS[False].setup(w, tier)


def shards(tier):
    sh = []
    for sticky in (False, True):
        for s in ENGS[sticky].shards(tier):
            sh.append([sticky] + s)
    return sh


def run_shard(w, shard, tier):
    return ENGS[shard[0]].run_shard(w, shard[1:], tier)


def recheck(w, case, tier):
    sticky = case["workload"].endswith("_sticky")
    return ENGS[sticky].recheck(w, case, tier)
